/-
The finite-set cardinality facts used (as `lemmas`, i.e. assumed axiom instances) by the pyvc
proofs of the `len(data) != fields_count` shortcut of SimpleObjectMethod / ObjectMethod
(DESIGN.md 12.1).  Sets are finite sets of values; `card` is their cardinality.
Checked with: cd /opt/veriftools/mathlib4 && lake env lean /verif/lean/FinsetCard.lean
-/
import Mathlib.Data.Finset.Card

variable {α : Type*} [DecidableEq α]

/-- card(∅) = 0 -/
theorem pyvc_card_empty : (∅ : Finset α).card = 0 := Finset.card_empty

/-- x ∉ S → card(S ∪ {x}) = card(S) + 1 -/
theorem pyvc_card_insert (S : Finset α) (x : α) (h : x ∉ S) :
    (insert x S).card = S.card + 1 := by
  simp [Finset.card_insert_of_notMem h]

/-- S ⊆ T ∧ card S = card T → T ⊆ S  (the instance used for the shortcut) -/
theorem pyvc_card_subset_eq (S T : Finset α) (h : S ⊆ T) (hc : S.card = T.card) : T ⊆ S := by
  have : S = T := Finset.eq_of_subset_of_card_le h (le_of_eq hc.symm)
  subst this
  exact Finset.Subset.refl _
