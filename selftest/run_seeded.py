#!/usr/bin/env python3
"""Apply each seeded change (/verif/seeded/*/patch.diff) to a scratch copy of /repo outside
/repo and /verif, run the check of the property it breaks against the copy (VERIF_REPO), and
report which checks catch which changes.  The copy is removed afterwards.

usage: selftest/run_seeded.py [--tier quick] [--only C01-m1,...] [--props C01,C02] [--also C03]
"""
import argparse
import json
import os
import shutil
import subprocess
import sys
import tempfile
from concurrent.futures import ThreadPoolExecutor

VERIF = os.path.dirname(os.path.dirname(os.path.abspath(__file__)))


def run_one(mid, props, tier):
    d = os.path.join(VERIF, "seeded", mid)
    tmp = tempfile.mkdtemp(prefix="apischema-mut-", dir=os.environ.get("TMPDIR", "/tmp"))
    try:
        copy = os.path.join(tmp, "repo")
        subprocess.run(["git", "-C", "/repo", "worktree", "add", "-q", "--detach", copy, "HEAD"], check=True, capture_output=True)
        r = subprocess.run(["git", "-C", copy, "apply", os.path.join(d, "patch.diff")], capture_output=True, text=True)
        if r.returncode != 0:
            return mid, {"error": "patch does not apply: " + r.stderr.strip()[:200]}
        res = {}
        for p in props:
            env = dict(os.environ, VERIF_REPO=copy, VERIF_OUT=os.path.join(tmp, "out"))
            env.pop("PYTHONPATH", None)
            out = subprocess.run([os.path.join(VERIF, ".venv/bin/python"), "-W", "ignore", "-m", "vf.main", p, "--tier", tier], cwd=VERIF, env=env, capture_output=True, text=True)
            lines = [l for l in out.stdout.splitlines() if l.startswith(("VIOLATION", "UNDECIDED", "TOOL-ERROR"))]
            sigs = []
            rdir = os.path.join(tmp, "out", "replays")
            if os.path.isdir(rdir):
                for fn in sorted(os.listdir(rdir)):
                    try:
                        with open(os.path.join(rdir, fn)) as f:
                            rp = json.load(f)
                        if rp.get("property") == p:
                            sigs.append(rp.get("signature", "")[:160])
                    except Exception:
                        pass
            by_proof = [s for s in sigs if s.startswith("P:")]
            try:  # every undischarged obligation is in the evidence, also past the 8 VIOLATION lines printed
                with open(os.path.join(tmp, "out", "evidence", p + ".json")) as f:
                    ev = json.load(f)
                for o in ev.get("coverage", {}).get("per_obligation", []):
                    if o.get("result") not in ("discharged", "vacuity-ok") and o.get("kind") != "vacuity":
                        sig = "P:%s:%s" % (o.get("function"), o.get("name"))
                        if sig not in by_proof:
                            by_proof.append(sig)
            except Exception:
                pass
            res[p] = {"exit": out.returncode, "lines": lines[:4], "n_violation_lines": len([l for l in lines if l.startswith("VIOLATION")]), "failed_obligations": by_proof[:6], "driver_violations": [s for s in sigs if not s.startswith("P:")][:4]}
        return mid, res
    finally:
        subprocess.run(["git", "-C", "/repo", "worktree", "remove", "--force", os.path.join(tmp, "repo")], capture_output=True)
        shutil.rmtree(tmp, ignore_errors=True)


def main():
    ap = argparse.ArgumentParser()
    ap.add_argument("--tier", default="quick")
    ap.add_argument("--only")
    ap.add_argument("--props")
    ap.add_argument("--also", default="")
    ap.add_argument("--jobs", type=int, default=4)
    a = ap.parse_args()
    mids = sorted(os.listdir(os.path.join(VERIF, "seeded")))
    if a.only:
        mids = [m for m in mids if m in a.only.split(",")]
    if a.props:
        mids = [m for m in mids if m.split("-")[0] in a.props.split(",")]
    have = {f[:-3].upper() for f in os.listdir(os.path.join(VERIF, "checks")) if f.startswith("c") and f[1:3].isdigit()}
    jobs = []
    for m in mids:
        props = [m.split("-")[0]] + [p for p in a.also.split(",") if p]
        props = [p for p in props if p in have]
        jobs.append((m, props))
    results = {}
    # evidence / replay files are shared: run checks of one mutant sequentially, mutants in parallel only when asked
    with ThreadPoolExecutor(max_workers=a.jobs) as pool:
        for mid, res in pool.map(lambda j: run_one(j[0], j[1], a.tier), jobs):
            results[mid] = res
            own = mid.split("-")[0]
            status = "NO-CHECK" if not res else ("error" if "error" in res else ("CAUGHT" if any(v["exit"] == 1 for v in res.values()) else "missed"))
            print(f"{mid:10} {status:8} " + " ".join(f"{p}:exit={v['exit']}" for p, v in res.items() if isinstance(v, dict) and "exit" in v), flush=True)
            for p, v in res.items():
                if isinstance(v, dict):
                    for l in v.get("failed_obligations", [])[:2]:
                        print("      proof:", l[:200])
                    for l in v.get("driver_violations", [])[:1]:
                        print("      driver:", l[:200])
    with open(os.path.join(VERIF, "selftest", "last_seeded_run.json"), "w") as f:
        json.dump(results, f, indent=1)


if __name__ == "__main__":
    main()
