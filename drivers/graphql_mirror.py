"""C19 -- GraphQL schema mirrors the data model and executes like (de)serialize (B: bounded).

For every *configuration* (aliaser / enum_aliaser / id_encoding / id_types) one schema is built
with `graphql_schema` from operations generated over the GraphQL-compatible part of the type
space (drivers/pools.py descriptions + a few GraphQL-specific wrapped ones: Undefined unions,
apischema.graphql.ID, interfaces with implementations, converted opaque classes):

* `graphql_mirror`   : graphql.validate_schema passes; every object / input / enum / union /
                       interface / scalar type, field, argument, nullability, ID type and input
                       default expected from the *descriptions* is present with that shape, and
                       no other named type exists (one-to-one).
* `graphql_execute`  : a query selecting every field == the expected output computed from the
                       description (all fields, enums by name, Undefined as null) which is also
                       compared with serialize(T, v, aliaser=...) on the models where they must
                       coincide literally; error_handler variants.
* `graphql_arguments`: arguments (variables) are deserialized and validated exactly as
                       deserialize(param type, datum, aliaser=...) would; invalid -> GraphQL error
                       and the resolver is not invoked (call counter); defaults, explicit null.
"""
from __future__ import annotations

import base64
import copy
import dataclasses
import enum
import inspect
import random
import typing
from dataclasses import dataclass
from typing import Any, Callable, Dict, List, Optional, Tuple

from . import model as M
from . import pools as P
from .deser_e2e import deep_eq
from .model import Ann, AnyT, Coll, Enm, Fld, Lit, Mapp, NewT, Obj, Opt, Prim, Ref, Tup, Uni, cons
from .union_dispatch import short

INT, FLOAT, STR, BOOL, NONE = P.INT, P.FLOAT, P.STR, P.BOOL, P.NONE


def camel(s: str) -> str:
    head, *rest = s.split("_")
    return head + "".join(w.capitalize() for w in rest) if rest else s


# ---------------------------------------------------------------------------------------------
# wrapped descriptions (realised here, referred to by M.Ref(name) inside standard descriptions)


@dataclass(frozen=True)
class Undef:
    """Union[t, UndefinedType] (fields default to Undefined)"""

    name: str
    t: Any


@dataclass(frozen=True)
class IdT:
    """apischema.graphql.ID"""

    name: str = "ID"


@dataclass(frozen=True)
class Conv:
    """an opaque class with a registered serializer to / deserializer from `target`"""

    name: str
    target: Any


@dataclass(frozen=True)
class Iface:
    """an @interface dataclass `base` and the dataclasses inheriting it (`subs` list all their
    fields, inherited ones first)"""

    name: str
    base: Obj
    subs: Tuple[Obj, ...]  # every concrete object type below this interface (all fields listed)
    parents: Tuple[str, ...] = ()  # names of the interfaces this interface extends
    sub_bases: Tuple[Tuple[str, Tuple[str, ...]], ...] = ()  # sub name -> its direct base interfaces (default: this one)

    def bases_of(self, sub_name: str) -> Tuple[str, ...]:
        return dict(self.sub_bases).get(sub_name, (self.name,))


def iface_ancestors(name: str) -> List[str]:
    """the interfaces an interface extends, transitively"""
    out: List[str] = []
    for p in EXTRAS[name].parents:
        for q in [p] + iface_ancestors(p):
            if q not in out:
                out.append(q)
    return out


def sub_interfaces(sub_name: str) -> List[str]:
    """every interface a concrete object type implements (GraphQL wants them all declared)"""
    out: List[str] = []
    for x in EXTRAS.values():
        if isinstance(x, Iface) and any(s.name == sub_name for s in x.subs):
            for b in x.bases_of(sub_name):
                for q in [b] + iface_ancestors(b):
                    if q not in out:
                        out.append(q)
    return sorted(out)


def iface_family(name: str) -> List[str]:
    """the interfaces sharing a concrete type with / extended by the interface"""
    x = EXTRAS[name]
    fam = {name, *iface_ancestors(name)}
    for s in x.subs:
        fam.update(sub_interfaces(s.name))
    return sorted(fam)


EXTRAS: Dict[str, Any] = {}


def X(td):
    EXTRAS[td.name] = td
    return Ref(td.name)


COLOR, NAME = P.COLOR, P.NAME
MOOD = NewT("Mood", Lit(("happy", "sad")))
USERID = P.USERID  # NewType int -> scalar UserId
KEY = NewT("Key", STR)  # an id type
POS = P.POS
UNDEF_INT = X(Undef("UndefInt", INT))
UNDEF_A = X(Undef("UndefA", P.A))
ID_T = X(IdT())
STAMP = X(Conv("Stamp", INT))
BOXED = X(Conv("Boxed", P.A))

CAT, DOG = P.CAT, P.DOG
G1 = Obj("dataclass", "G1", (Fld("color", COLOR), Fld("mood", MOOD, has_default=True, default="happy"), Fld("user_id", USERID, has_default=True, default=3), Fld("maybe", Opt(COLOR), has_default=True, default=None)))
G2 = Obj("dataclass", "G2", (Fld("u", UNDEF_INT, has_default=True, default="$Undefined"), Fld("ua", UNDEF_A, has_default=True, default="$Undefined"), Fld("n", Opt(INT), has_default=True, default=None, none_as_undefined=True), Fld("s", STR, has_default=True, default="d", skip_ser_default=True), Fld("xs", Coll("list", INT), factory="list", skip_ser_if_falsy=True)))
G3 = Obj("dataclass", "G3", (Fld("pet", Uni((CAT, DOG))), Fld("pets", Coll("list", Uni((CAT, DOG))), factory="list"), Fld("maybe_pet", Opt(Uni((CAT, DOG))), has_default=True, default=None)))
G4 = Obj("dataclass", "G4", (Fld("key", KEY), Fld("id", ID_T, has_default=True, default="i1"), Fld("keys", Coll("list", KEY), factory="list"), Fld("opt_key", Opt(KEY), has_default=True, default=None)))
G5 = Obj("dataclass", "G5", (Fld("stamp", STAMP), Fld("stamps", Coll("list", STAMP), factory="list"), Fld("boxed", Opt(BOXED), has_default=True, default=None)))
G6 = Obj("dataclass", "G6", (Fld("first_name", STR, alias="firstName2"), Fld("snake_case_name", INT, has_default=True, default=0), Fld("nested_list", Coll("list", Coll("list", Opt(INT))), factory="list"), Fld("opt_list", Opt(Coll("list", STR)), has_default=True, default=None)))
IBASE = Obj("dataclass", "Shape", (Fld("label", STR), Fld("sides", INT, has_default=True, default=0)))
ISUB1 = Obj("dataclass", "Square", IBASE.fields + (Fld("size", FLOAT, has_default=True, default=1.0),))
ISUB2 = Obj("dataclass", "Circle", IBASE.fields + (Fld("radius", FLOAT, has_default=True, default=2.0), Fld("color", Opt(COLOR), has_default=True, default=None)))
SHAPE = X(Iface("Shape", IBASE, (ISUB1, ISUB2)))
# interface hierarchies: Node <- Named <- Titled (depth 3), Node <- Aged, diamond Person(Named, Aged)
_F_ID = Fld("uid", STR)
_F_NAME = Fld("full_name", STR, has_default=True, default="n")
_F_AGE = Fld("age", INT, has_default=True, default=0)
_F_TITLE = Fld("title", Opt(STR), has_default=True, default=None)
I_NODE = Obj("dataclass", "Node0", (_F_ID,))
I_NAMED = Obj("dataclass", "Named", (_F_ID, _F_NAME))
I_AGED = Obj("dataclass", "Aged", (_F_ID, _F_AGE))
I_TITLED = Obj("dataclass", "Titled", (_F_ID, _F_NAME, _F_TITLE))
O_USER = Obj("dataclass", "User", (_F_ID, _F_NAME, Fld("email", STR, has_default=True, default="e")))
O_BOSS = Obj("dataclass", "Boss", (_F_ID, _F_NAME, _F_TITLE, Fld("reports", INT, has_default=True, default=0)))
O_PERSON = Obj("dataclass", "Person", (_F_ID, _F_AGE, _F_NAME, Fld("nick", STR, has_default=True, default="p")))
O_PLAIN = Obj("dataclass", "Plain", (_F_ID, Fld("color", Opt(COLOR), has_default=True, default=None)))
_SB = (("User", ("Named",)), ("Boss", ("Titled",)), ("Person", ("Named", "Aged")), ("Plain", ("Node0",)))
NODE_I = X(Iface("Node0", I_NODE, (O_USER, O_BOSS, O_PERSON, O_PLAIN), (), _SB))
NAMED_I = X(Iface("Named", I_NAMED, (O_USER, O_BOSS, O_PERSON), ("Node0",), _SB))
AGED_I = X(Iface("Aged", I_AGED, (O_PERSON,), ("Node0",), _SB))
TITLED_I = X(Iface("Titled", I_TITLED, (O_BOSS,), ("Named",), _SB))
HIER_OBJ = Obj("dataclass", "Team", (Fld("lead", TITLED_I), Fld("members", Coll("list", NODE_I), factory="list"), Fld("oldest", Opt(AGED_I), has_default=True, default=None)))
G7 = Obj("dataclass", "G7", (Fld("shape", SHAPE), Fld("square", Ref("Square")), Fld("shapes", Coll("list", SHAPE), factory="list")))
# flattened interface-free composition
G8 = Obj("dataclass", "G8", (Fld("z", INT), Fld("inner", G1, flatten=True)))

# an input object with an enum-typed default
G9 = Obj("dataclass", "G9", (Fld("c", COLOR, has_default=True, default="$enum:Color:G"), Fld("n", INT, has_default=True, default=0)))

# object-valued defaults whose field names are changed by the aliaser (hashable: NamedTuple)
PT = Obj("namedtuple", "Pt", (Fld("x_coord", INT, has_default=True, default=1), Fld("y_coord", INT, has_default=True, default=2)))
G10 = Obj("dataclass", "G10", (Fld("shape_name", STR), Fld("origin_point", PT, factory="obj:Pt"), Fld("opt_point", Opt(PT), has_default=True, default=None)))

# flattened fields nested two and three levels deep
LEAF = Obj("dataclass", "Leaf", (Fld("leaf_value", INT), Fld("leaf_color", Opt(COLOR), has_default=True, default=None)))
MIDDLE = Obj("dataclass", "Middle", (Fld("middle_value", STR), Fld("leaf", LEAF, flatten=True)))
TOP = Obj("dataclass", "Top", (Fld("top_value", INT), Fld("middle", MIDDLE, flatten=True)))
ROOF = Obj("dataclass", "Roof", (Fld("roof_value", BOOL), Fld("top", TOP, flatten=True), Fld("tail", INT, has_default=True, default=0)))

GQL_OBJECTS = [G1, G2, G3, G4, G5, G6, G7, G8, G9, PT, G10, LEAF, MIDDLE, TOP, ROOF, HIER_OBJ]


def is_extra(td, kind=None) -> bool:
    return isinstance(td, Ref) and td.name in EXTRAS and (kind is None or isinstance(EXTRAS[td.name], kind))


@dataclass
class Cfg:
    name: str
    aliaser: Optional[Callable[[str], str]]  # None: graphql_schema default (camelCase)
    aliaser_kw: Any
    enum_aliaser: Callable[[str], str]
    enum_kw: Any
    id_names: Tuple[str, ...] = ("Key",)
    id_encoding: bool = False

    def al(self, s: str) -> str:
        return self.aliaser(s) if self.aliaser else s


DEFAULT = object()


def configs(tier: str) -> List[Cfg]:
    from apischema.utils import to_camel_case as camel  # the documented default GraphQL aliaser

    cs = [
        Cfg("default", camel, DEFAULT, str.upper, DEFAULT),
        Cfg("plain-names", None, (lambda s: s), (lambda s: s), None),
        Cfg("lower-enums+base64-ids", camel, DEFAULT, str.lower, str.lower, id_encoding=True),
        Cfg("no-id-types", camel, DEFAULT, str.upper, DEFAULT, id_names=()),
    ]
    if tier == "thorough":
        cs += [Cfg("prefix-aliaser", (lambda s: "x_" + s), (lambda s: "x_" + s), str.upper, DEFAULT), Cfg("plain+base64", None, (lambda s: s), str.upper, DEFAULT, id_encoding=True)]
    return cs


def b64e(s: str) -> str:
    return base64.b64encode(s.encode()).decode()


def b64d(s: str) -> str:
    return base64.b64decode(s).decode()


# ---------------------------------------------------------------------------------------------
# the world: real classes


class OpaqueBase:
    def __init__(self, payload):
        self.payload = payload

    def __eq__(self, other):
        return type(other) is type(self) and deep_eq(other.payload, self.payload)

    def __repr__(self):
        return f"{type(self).__name__}({self.payload!r})"


class World:
    def __init__(self, tag: str):
        self.realm = M.Realm(tag)
        M.install_typing(self.realm)
        self.registered: List[type] = []
        for o in P.OBJECTS + [P.PQ_Q, P.A2, CAT, DOG]:
            M.realize(o, self.realm)
        for x in list(EXTRAS.values()):
            self.realize_extra(x)
        for o in GQL_OBJECTS:
            self.real(o)

    def real(self, td):
        self._prepare(td)
        return M.realize(self._subst(td), self.realm)

    def _subst(self, td):
        """'$Undefined' default markers -> apischema.Undefined"""
        from apischema import Undefined

        def sub(f):
            if f.default == "$Undefined":
                return dataclasses.replace(f, default=Undefined)
            if isinstance(f.default, str) and f.default.startswith("$enum:"):
                _, en, member = f.default.split(":")
                return dataclasses.replace(f, default=self.realm.built[en][member])
            return f

        if isinstance(td, Obj) and any(isinstance(f.default, str) and f.default.startswith("$") for f in td.fields):
            return dataclasses.replace(td, fields=tuple(sub(f) for f in td.fields))
        return td

    def _prepare(self, td):
        if isinstance(td, Ref) and td.name in EXTRAS:
            self.realize_extra(EXTRAS[td.name])
        for f in dataclasses.fields(td) if dataclasses.is_dataclass(td) else ():
            v = getattr(td, f.name)
            if isinstance(v, M.TD):
                self._prepare(v)
            elif isinstance(v, tuple):
                for x in v:
                    if isinstance(x, M.TD):
                        self._prepare(x)
                    elif isinstance(x, Fld):
                        self._prepare(x.t)

    def realize_extra(self, x):
        from apischema import UndefinedType
        from apischema.conversions import Conversion, deserializer, serializer
        from apischema.graphql import ID, interface

        realm = self.realm
        if x.name in realm.built:
            return realm.built[x.name]
        if isinstance(x, Undef):
            realm.built[x.name] = typing.Union[self.real(x.t), UndefinedType]
        elif isinstance(x, IdT):
            realm.built[x.name] = ID
        elif isinstance(x, Conv):
            cls = type(x.name, (OpaqueBase,), {"__module__": realm.name})
            tgt = self.real(x.target)
            deserializer(Conversion(cls, source=tgt, target=cls))
            serializer(Conversion(lambda o: o.payload, source=cls, target=tgt))
            self.registered.append(cls)
            realm.built[x.name] = cls
        elif isinstance(x, Iface):
            parents = tuple(self.realize_extra(EXTRAS[p]) for p in x.parents)
            inherited = {g.name for p in x.parents for g in EXTRAS[p].base.fields}
            base = self._dc(dataclasses.replace(x.base, fields=tuple(f for f in x.base.fields if f.name not in inherited)), parents, full=x.base)
            interface(base)
            for s in x.subs:
                if s.name in realm.built:
                    continue
                bnames = x.bases_of(s.name)
                bases = tuple(self.realize_extra(EXTRAS[b]) for b in bnames)
                if s.name in realm.built:  # built while realising a base interface
                    continue
                inh = {g.name for b in bnames for g in EXTRAS[b].base.fields}
                self._dc(dataclasses.replace(s, fields=tuple(f for f in s.fields if f.name not in inh)), bases, full=s)
        return realm.built[x.name]

    def _dc(self, td: Obj, bases, full: Optional[Obj] = None):
        realm = self.realm
        specs = []
        for f in td.fields:
            kw: Dict[str, Any] = {}
            if f.factory is not None:
                kw["default_factory"] = M.make_default(f, realm)
            elif f.has_default:
                kw["default"] = f.default
            specs.append((f.name, self.real(f.t), dataclasses.field(**kw)))
        cls = dataclasses.make_dataclass(td.name, specs, bases=bases)
        cls.__module__ = realm.name
        setattr(realm.module, td.name, cls)
        realm.built[td.name] = cls
        realm.descs[td.name] = full or td
        return cls

    def desc(self, name: str) -> Obj:
        return self.realm.descs[name]

    def dispose(self):
        import apischema
        from apischema.conversions import reset_deserializers, reset_serializer

        for c in self.registered:
            reset_deserializers(c)
            reset_serializer(c)
        apischema.cache.reset()
        self.realm.dispose()


# ---------------------------------------------------------------------------------------------
# expectations computed from the descriptions

SCALARS = {"int": "Int", "float": "Float", "str": "String", "bool": "Boolean"}


class Oracle:
    def __init__(self, world: World, cfg: Cfg):
        self.w, self.cfg = world, cfg

    # -- helpers -------------------------------------------------------------------
    def resolve(self, td):
        if isinstance(td, Ref):
            if td.name in EXTRAS:
                return EXTRAS[td.name]
            return self.w.desc(td.name)
        return td

    def fields(self, o: Obj) -> List[Tuple[str, Fld, Obj]]:
        """(GraphQL name, field, owner) of an object type, flattened fields merged in"""
        out = []
        for f in o.fields:
            if f.flatten:
                inner = self.resolve(f.t)
                while isinstance(inner, (Opt, Ann, NewT)):
                    inner = self.resolve(inner.t)
                out += self.fields(inner)
            elif f.pattern is not None or f.additional:
                continue  # aggregate fields have no GraphQL counterpart
            else:
                out.append((M.ext_name(o, f, M.Opts(aliaser=self.cfg.aliaser)), f, o))
        return out

    def is_id(self, td) -> bool:
        td0 = self.resolve(td) if isinstance(td, Ref) else td
        return isinstance(td0, IdT) or (isinstance(td0, NewT) and td0.name in self.cfg.id_names)

    # -- type strings --------------------------------------------------------------
    def type_str(self, td, side: str) -> str:
        """GraphQL type of a description ('out' / 'in'), non-null unless Optional / Undefined"""
        t = self.resolve(td)
        if self.is_id(td):
            return "ID!"
        if isinstance(t, Prim):
            return SCALARS[t.name] + "!"
        if isinstance(t, AnyT):
            return "JSON"
        if isinstance(t, (Opt, Undef)):
            s = self.type_str(t.t, side)
            return s[:-1] if s.endswith("!") else s
        if isinstance(t, Ann):
            return self.type_str(t.t, side)
        if isinstance(t, Coll):
            return "[" + self.type_str(t.t, side) + "]!"
        if isinstance(t, Enm):
            return t.name + "!"
        if isinstance(t, NewT):
            inner = self.resolve(t.t)
            while isinstance(inner, Ann):
                inner = self.resolve(inner.t)
            if isinstance(inner, (Prim, Lit)):
                return t.name + "!"  # a scalar / enum named after the NewType
            return self.type_str(t.t, side)
        if isinstance(t, Conv):
            return t.name + ("Input" if side == "in" and isinstance(self.resolve(t.target), Obj) else "") + "!"
        if isinstance(t, Iface):
            return t.name + "!"
        if isinstance(t, Obj):
            return t.name + ("Input" if side == "in" and not t.name.endswith("Input") else "") + "!"
        if isinstance(t, Uni):
            members = [self.resolve(a) for a in t.alts if a != NONE]
            s = "Or".join(m.name for m in members) + "!"
            return s[:-1] if NONE in t.alts else s
        raise TypeError(f"no GraphQL type for {td}")

    # -- output ----------------------------------------------------------------------
    def selection(self, td, depth: int = 0) -> str:
        t = self.resolve(td)
        if self.is_id(td):
            return ""
        if isinstance(t, (Opt, Undef, Ann, Coll)):
            return self.selection(t.t, depth)
        if isinstance(t, NewT):
            return self.selection(t.t, depth)
        if isinstance(t, Conv):
            return self.selection(t.target, depth)
        if isinstance(t, Obj):
            parts = []
            for name, f, _ in self.fields(t):
                if self.has_objects(f.t) and depth >= 2:
                    continue
                parts.append(name + self.selection(f.t, depth + 1))
            return " { " + " ".join(parts) + " }"
        if isinstance(t, Uni):
            return " { __typename " + " ".join(f"... on {self.resolve(a).name}{self.selection(a, depth)}" for a in t.alts if a != NONE) + " }"
        if isinstance(t, Iface):
            base = self.selection(t.base, depth).strip()[1:-1]
            return " { __typename " + base + " ".join(f"... on {s.name}{self.selection(s, depth)}" for s in t.subs) + " }"
        return ""

    def has_objects(self, td) -> bool:
        t = self.resolve(td)
        if isinstance(t, (Opt, Undef, Ann, Coll, NewT)):
            return self.has_objects(t.t)
        if isinstance(t, Conv):
            return self.has_objects(t.target)
        return isinstance(t, (Obj, Uni, Iface))

    def output(self, td, v, depth: int = 0):
        """the data a query selecting every field returns for the value v of type td"""
        from apischema import Undefined

        t = self.resolve(td)
        if v is Undefined:
            return None
        if isinstance(t, (Opt, Undef)):
            return None if v is None else self.output(t.t, v, depth)
        if self.is_id(td):
            s = str(v)
            return b64e(s) if self.cfg.id_encoding else s
        if isinstance(t, Ann):
            return self.output(t.t, v, depth)
        if isinstance(t, NewT):
            inner = self.resolve(t.t)
            if isinstance(inner, Lit):
                return self.cfg.enum_aliaser(v)  # enum by name; the names are the aliased values
            return self.output(t.t, v, depth)
        if isinstance(t, Prim):
            return float(v) if t.name == "float" else v
        if isinstance(t, AnyT):
            return v
        if isinstance(t, Coll):
            return [self.output(t.t, x, depth) for x in v]
        if isinstance(t, Enm):
            return self.cfg.enum_aliaser(v.name)
        if isinstance(t, Conv):
            return self.output(t.target, v.payload, depth)
        if isinstance(t, Obj):
            out = {}
            for name, f, owner in self.fields(t):
                if self.has_objects(f.t) and depth >= 2:
                    continue
                out[name] = self.output(f.t, self.getattr_path(t, v, f, owner), depth + 1)
            return out
        if isinstance(t, Uni):
            for a in t.alts:
                if a != NONE and isinstance(v, self.w.realm.built[self.resolve(a).name]):
                    return {"__typename": self.resolve(a).name, **self.output(a, v, depth)}
            raise TypeError(v)
        if isinstance(t, Iface):
            for s in t.subs:
                if isinstance(v, self.w.realm.built[s.name]):
                    return {"__typename": s.name, **self.output(s, v, depth)}
            raise TypeError(v)
        raise TypeError(td)

    def getattr_path(self, top: Obj, v, f: Fld, owner: Obj):
        """the attribute of field f (possibly of a flattened inner object) of the value v"""
        if owner is top or owner.name == top.name:
            return v[f.name] if isinstance(v, dict) else getattr(v, f.name)
        for g in top.fields:
            if g.flatten:
                inner = self.resolve(g.t)
                try:
                    return self.getattr_path(inner, getattr(v, g.name), f, owner)
                except (LookupError, AttributeError):
                    continue
        raise LookupError(f.name)

    # -- input ---------------------------------------------------------------------
    def to_gql(self, td, d):
        """the GraphQL-level JSON of an apischema-level datum; raises NotGraphQL when the datum
        is not even well-formed for the GraphQL input type (rejected by graphql-core itself)"""
        t = self.resolve(td)
        if isinstance(t, (Opt, Undef)):
            return None if d is None else self.to_gql(t.t, d)
        if d is None:
            raise NotGraphQL()
        if self.is_id(td):
            if type(d) is not str:
                raise NotGraphQL()
            return b64e(d) if self.cfg.id_encoding else d
        if isinstance(t, Ann):
            return self.to_gql(t.t, d)
        if isinstance(t, NewT):
            inner = self.resolve(t.t)
            if isinstance(inner, Lit):
                if type(d) is not str or d not in inner.values:
                    raise NotGraphQL()
                return self.cfg.enum_aliaser(d)
            return self.to_gql(t.t, d)
        if isinstance(t, Prim):
            ok = {"int": type(d) is int and abs(d) < 2**31, "float": type(d) in (int, float) and abs(d) < 1e300, "str": type(d) is str, "bool": type(d) is bool}[t.name]
            if not ok:
                raise NotGraphQL()
            return d
        if isinstance(t, AnyT):
            return d
        if isinstance(t, Coll):
            if type(d) is not list:
                raise NotGraphQL()  # (graphql-core would wrap a single value into a list)
            return [self.to_gql(t.t, x) for x in d]
        if isinstance(t, Enm):
            for name, val in t.members:
                if type(val) is type(d) and val == d:
                    return self.cfg.enum_aliaser(name)
            raise NotGraphQL()
        if isinstance(t, Conv):
            return self.to_gql(t.target, d)
        if isinstance(t, Obj):
            if type(d) is not dict:
                raise NotGraphQL()
            fs = {name: f for name, f, _ in self.fields(t)}
            out = {}
            for k, x in d.items():
                if k not in fs:
                    raise NotGraphQL()
                out[k] = self.to_gql(self.in_field_type(fs[k]), x)
            for name, f in fs.items():
                req = f.td_required if t.kind == "typeddict" else f.required
                if req and name not in d and not self.type_str(f.t, "in").endswith("!") is False:
                    raise NotGraphQL()
            return out
        raise TypeError(td)

    def default_of(self, o: Obj, f: Fld) -> Tuple[bool, Any]:
        """(True, serialized default) when the GraphQL input field carries a default value"""
        from apischema import serialize

        if o.kind == "typeddict" or not (f.has_default or f.factory is not None):
            return (False, None)
        if f.factory is None and (f.default is None or f.default == "$Undefined"):
            return (False, None)
        dv = f.default if f.factory is None else M.make_default(f, self.w.realm)()
        if isinstance(dv, str) and dv.startswith("$enum:"):
            dv = self.w.realm.built[dv.split(":")[1]][dv.split(":")[2]]
        try:
            return (True, serialize(self.w.real(f.t), dv, aliaser=self.cfg.aliaser or (lambda s: s)))
        except Exception:
            return (False, None)

    def fill(self, td, d):
        """the datum with the declared input defaults of absent fields materialised"""
        t = self.resolve(td)
        if d is None:
            return d
        if isinstance(t, (Opt, Undef, Ann, NewT)):
            return self.fill(t.t, d)
        if isinstance(t, Conv):
            return self.fill(t.target, d)
        if isinstance(t, Coll) and isinstance(d, list):
            return [self.fill(t.t, x) for x in d]
        if isinstance(t, Obj) and isinstance(d, dict):
            out = {}
            fs = {name: (f, owner) for name, f, owner in self.fields(t)}
            for k, x in d.items():
                out[k] = self.fill(self.in_field_type(fs[k][0]), x) if k in fs else x
            for name, (f, owner) in fs.items():
                if name not in out:
                    has, dv = self.default_of(owner, f)
                    if has:
                        out[name] = dv
            return out
        return d

    def in_field_type(self, f: Fld):
        """an input field whose default is None / Undefined is nullable"""
        if f.has_default and (f.default is None or f.default == "$Undefined"):
            return Opt(f.t)
        return f.t


class NotGraphQL(Exception):
    pass


# ---------------------------------------------------------------------------------------------
# operations


def make_fn(name: str, params: List[Tuple[str, Any, Any]], ret: Any, impl: Callable) -> Callable:
    """a function with the given signature: params = [(name, annotation, default | inspect._empty)]"""

    def fn(*args, **kwargs):
        return impl(*args, **kwargs)

    fn.__name__ = fn.__qualname__ = name
    fn.__module__ = "verif_gql_ops"
    fn.__signature__ = inspect.Signature([inspect.Parameter(p, inspect.Parameter.POSITIONAL_OR_KEYWORD, annotation=a, default=d) for p, a, d in params], return_annotation=ret)  # type: ignore
    fn.__annotations__ = {**{p: a for p, a, _ in params}, "return": ret}
    return fn


EMPTY = inspect.Parameter.empty


def output_types(tier: str) -> List[Any]:
    base = [INT, FLOAT, STR, BOOL, Opt(INT), Coll("list", INT), Coll("list", Opt(STR)), Opt(Coll("list", Coll("list", INT))), COLOR, Opt(COLOR), Coll("list", COLOR), MOOD, USERID, KEY, ID_T, Opt(ID_T), UNDEF_INT, STAMP, Coll("list", BOXED), Uni((CAT, DOG)), Opt(Uni((CAT, DOG))), Coll("list", Uni((CAT, DOG))), SHAPE, Coll("list", SHAPE), Opt(SHAPE)]
    objs = [P.A, P.B, P.C, P.D, P.E, P.K_, P.M_, P.N_, P.NT, P.NODE, P.PQ_P, P.FB2, P.I_, P.J, CAT] + [o for o in GQL_OBJECTS if o is not LEAF and o is not HIER_OBJ]
    if tier == "thorough":
        objs += [P.L_, P.A2, DOG]
        base += [Coll("sequence", FLOAT), Coll("set", INT), Opt(Coll("list", Opt(P.A))), AnyT(), Coll("tuplevar", STR)]
    return base + objs + [Opt(o) for o in (P.A, P.NODE, G3)] + [Coll("list", o) for o in (P.B, G1, G2)]


def input_types(tier: str) -> List[Any]:
    base = [INT, FLOAT, STR, BOOL, Opt(INT), Coll("list", INT), Opt(Coll("list", STR)), Coll("list", Opt(INT)), COLOR, Opt(COLOR), Coll("list", COLOR), MOOD, USERID, POS, KEY, ID_T, Ann(INT, cons(min=0, max=10)), Ann(STR, cons(min_len=1, pattern="^a")), Ann(Coll("list", INT), cons(max_items=2, unique=True)), Ann(FLOAT, cons(exc_min=0)), STAMP, BOXED]
    objs = [P.A, P.B, P.C, P.D, P.E, P.K_, P.M_, P.N_, P.J, P.L_, P.NT, P.TD1, P.TD2, P.I_, P.FB2, G1, G4, G6, G9, PT, G10, P.NODE]
    if tier == "thorough":
        objs += [P.PQ_P, P.A2, G5, Coll("list", P.A), Opt(P.N_), Coll("list", G1)]
        base += [Coll("list", Coll("list", INT)), Opt(POS), Coll("list", POS), Ann(POS, cons(max=10))]
    return base + objs


def values_of(world: World, td, tier: str) -> List[Any]:
    """result values of an output type (reference images of conforming data; hand-made for the
    wrapped types)"""
    from apischema import Undefined

    R = world.realm.built
    t = EXTRAS.get(td.name) if isinstance(td, Ref) else td
    if isinstance(t, Undef):
        return [Undefined] + values_of(world, t.t, tier)[:2]
    if isinstance(t, IdT):
        return ["i1", "some id"]
    if isinstance(t, Conv):
        return [R[t.name](v) for v in values_of(world, t.target, tier)[:2]]
    if isinstance(t, Iface) and t.name != "Shape":
        allv = {"User": R["User"](uid="u1", full_name="Ann", email="a@b"), "Boss": R["Boss"](uid="b1", title="CEO", reports=3), "Person": R["Person"](uid="p1", age=40, nick="pp"), "Plain": R["Plain"](uid="x1", color=R["Color"]["R"])}
        return [allv[s.name] for s in t.subs]
    if isinstance(t, Iface):
        return [R["Square"](label="sq", sides=4, size=2.5), R["Circle"](label="c", radius=1.0, color=R["Color"]["G"]), R["Circle"](label="c2")]
    if isinstance(t, Opt):
        return [None] + values_of(world, t.t, tier)[:2]
    if isinstance(t, Coll):
        xs = values_of(world, t.t, tier)
        vals = [[], xs[:2], xs[:1] * 2]
        if t.kind in ("set", "abstractset"):
            return [set(v) for v in vals[:2]]
        if t.kind == "tuplevar":
            return [tuple(v) for v in vals]
        return vals
    if isinstance(t, Uni):
        return [v for a in t.alts if a != NONE for v in values_of(world, a, tier)[:2]]
    if isinstance(t, Obj) and (t.name == "Team" or t.name.startswith("G") and t.name[1:].isdigit()):
        return gql_values(world, t)
    out = []
    for d in P.valid_samples(t)[: (3 if tier == "quick" else 6)]:
        r = M.ref_deserialize(t, copy.deepcopy(d), world.realm, M.Opts())
        if r[0] == "ok":
            out.append(r[1])
    return out


def gql_values(world: World, t: Obj) -> List[Any]:
    from apischema import Undefined

    R = world.realm.built
    Color = R["Color"]
    A = R["A"]
    if t.name == "G1":
        return [R["G1"](color=Color["R"]), R["G1"](color=Color["G"], mood="sad", user_id=9, maybe=Color["R"])]
    if t.name == "G2":
        return [R["G2"](), R["G2"](u=4, ua=A(a=1), n=5, s="other", xs=[1, 2]), R["G2"](u=0, n=None, s="d", xs=[])]
    if t.name == "G3":
        cat, dog = R["Cat"](name="tom"), R["Dog"](name="rex", age=3)
        return [R["G3"](pet=cat), R["G3"](pet=dog, pets=[cat, dog, cat], maybe_pet=dog)]
    if t.name == "G4":
        return [R["G4"](key="k1"), R["G4"](key="k 2", id="x/y", keys=["a", "b"], opt_key="ok")]
    if t.name == "G5":
        return [R["G5"](stamp=R["Stamp"](7)), R["G5"](stamp=R["Stamp"](0), stamps=[R["Stamp"](1), R["Stamp"](2)], boxed=R["Boxed"](A(a=3, b="bb")))]
    if t.name == "G6":
        return [R["G6"](first_name="f"), R["G6"](first_name="g", snake_case_name=4, nested_list=[[1, None], []], opt_list=["a"])]
    if t.name == "G7":
        sq, ci = R["Square"](label="s", sides=4), R["Circle"](label="c", color=Color["R"])
        return [R["G7"](shape=sq, square=sq), R["G7"](shape=ci, shapes=[sq, ci], square=R["Square"](label="t", size=3.0))]
    if t.name == "G9":
        return [R["G9"](), R["G9"](c=Color["R"], n=4)]
    if t.name == "G10":
        return [R["G10"](shape_name="s"), R["G10"](shape_name="t", origin_point=R["Pt"](x_coord=5), opt_point=R["Pt"](y_coord=7))]
    if t.name == "Team":
        boss, user, person, plain = R["Boss"](uid="b", title="T"), R["User"](uid="u"), R["Person"](uid="p", age=7), R["Plain"](uid="x")
        return [R["Team"](lead=boss), R["Team"](lead=boss, members=[user, boss, person, plain], oldest=person)]
    if t.name == "G8":
        return [R["G8"](z=1, inner=R["G1"](color=Color["R"])), R["G8"](z=2, inner=R["G1"](color=Color["G"], mood="sad", maybe=Color["G"]))]
    raise KeyError(t.name)


# ---------------------------------------------------------------------------------------------
# the driver


def _names_of_objects(oracle: Oracle, td, side: str, out: Dict[str, Any], seen=None):
    """collect the named GraphQL types expected for a description"""
    seen = seen if seen is not None else set()
    t = oracle.resolve(td)
    key = (repr(td), side)
    if key in seen:
        return
    seen.add(key)
    if oracle.is_id(td):
        return
    if isinstance(t, (Opt, Undef, Ann, Coll)):
        return _names_of_objects(oracle, t.t, side, out, seen)
    if isinstance(t, Enm):
        out[t.name] = ("enum", t)
    elif isinstance(t, NewT):
        inner = oracle.resolve(t.t)
        while isinstance(inner, Ann):
            inner = oracle.resolve(inner.t)
        if isinstance(inner, Lit):
            out[t.name] = ("enum-lit", inner)
        elif isinstance(inner, Prim):
            out[t.name] = ("scalar", t)
        else:
            _names_of_objects(oracle, t.t, side, out, seen)
    elif isinstance(t, AnyT):
        out["JSON"] = ("scalar", t)
    elif isinstance(t, Conv):
        tgt = oracle.resolve(t.target)
        if isinstance(tgt, Prim):
            out[t.name] = ("scalar", t)
        else:
            nm = t.name + ("Input" if side == "in" else "")
            out[nm] = ("object-in" if side == "in" else "object", tgt)
            for _, f, _o in oracle.fields(tgt):
                _names_of_objects(oracle, f.t, side, out, seen)
    elif isinstance(t, Iface):
        for nm in iface_family(t.name):
            fam = EXTRAS[nm]
            out[fam.name] = ("interface", fam)
            for _, f, _o in oracle.fields(fam.base):
                _names_of_objects(oracle, f.t, side, out, seen)
        for s in t.subs:
            _names_of_objects(oracle, s, side, out, seen)
    elif isinstance(t, Obj):
        nm = t.name + ("Input" if side == "in" and not t.name.endswith("Input") else "")
        out[nm] = ("object-in" if side == "in" else "object", t)
        for _, f, _o in oracle.fields(t):
            _names_of_objects(oracle, f.t, side, out, seen)
    elif isinstance(t, Uni):
        members = [oracle.resolve(a) for a in t.alts if a != NONE]
        out["Or".join(m.name for m in members)] = ("union", members)
        for a in t.alts:
            if a != NONE:
                _names_of_objects(oracle, a, side, out, seen)


def run(report, tier: str, seed: int):
    import apischema
    import graphql
    from apischema import Undefined, UndefinedType, deserialize, serialize
    from apischema.graphql import Mutation, Query, graphql_schema, resolver

    rng = random.Random(seed)
    mlog = report.driver("graphql_mirror", bound=f"{len(configs(tier))} configurations (aliaser: camelCase default / identity / prefix; enum_aliaser: upper default / identity / lower; id_types with and without; id_encoding none / base64) x one schema each over {len(output_types(tier))} query return types, {len(input_types(tier))} argument types x 6 default kinds, resolver methods, error_handler variants; every expected named type, field, argument, nullability, default")
    mlog.rule("case = (configuration, schema element): graphql.validate_schema is empty; each expected named type exists with the expected kind; each field / argument has the expected name and type string (non-null unless Optional / Undefined / None or unserialisable default); input defaults == serialize(default, aliaser); no unexpected named type")
    elog = report.driver("graphql_execute", bound="per configuration: every query return type x its result values (reference images of <= 3 conforming data, hand-made values for the GraphQL-specific models) x a query selecting every field (recursive types to depth 2); resolver methods with arguments; error_handler in {Undefined, None, custom} on raising resolvers")
    elog.rule("case = (configuration, operation, value): execution has no error and data == the output expected from the description (all fields, aliased names, enums by aliased name, Undefined as null, IDs encoded); where the model has no enum / Undefined / id / skip, also == serialize(T, v, aliaser=...)")
    alog = report.driver("graphql_arguments", bound="per configuration: every argument type x default kind {required, serialisable default, Optional = None, Optional with non-None default, Undefined default, unserialisable default} x data pool of the type (valid samples, mutants, atoms) sent as variables, plus absent and explicit null")
    alog.rule("case = (configuration, argument type, default kind, datum): data well-formed for the GraphQL type are accepted iff deserialize(type, datum, aliaser=...) accepts, the resolver then receives exactly that value, else the response has errors and the call counter is unchanged; ill-formed data give errors without a call; absent -> Python default; explicit null on an Optional parameter -> None")

    for n, cfg in enumerate(configs(tier)):
        world = World(f"c19_{n}")
        try:
            oracle = Oracle(world, cfg)
            outs = list(enumerate(output_types(tier)))
            # a union type can stand at one place of a schema only, and a class cannot be both
            # flattened and used plainly in one schema (known findings: a second use of a union
            # creates a second type of the same name; the object type of a flattened class is
            # shared by name with its plain use although its resolvers differ), so every return
            # type bearing a union / a flattened field gets a schema of its own
            special = lambda td: _has(oracle, td, "union") or _has(oracle, td, "flatten")  # noqa: E731
            main = [(i, td) for i, td in outs if not special(td)]
            _run_cfg(report, tier, rng, cfg, world, mlog, elog, alog, main, input_types(tier), "main")
            for i, td in outs:
                if special(td):
                    _run_cfg(report, tier, rng, cfg, world, mlog, elog, alog, [(i, td)], [], "only " + short(td))
            # interface hierarchies (depth 2 and 3, diamond), through fields typed by each level
            _run_cfg(report, tier, rng, cfg, world, mlog, elog, alog, [(910, Coll("list", NODE_I)), (911, NAMED_I), (912, Opt(TITLED_I)), (913, AGED_I), (914, HIER_OBJ)], [], "interface hierarchy")
            if n == 0 or tier == "thorough":
                # the two interactions above, on purpose
                _run_cfg(report, tier, rng, cfg, world, mlog, elog, alog, [(900, Uni((CAT, DOG))), (901, Opt(Uni((CAT, DOG))))], [], "union used twice")
                _run_cfg(report, tier, rng, cfg, world, mlog, elog, alog, [(902, P.E), (903, P.A)], [], "flattened+plain use of A")
        finally:
            world.dispose()


def _ifaces_in(oracle: "Oracle", td, seen=None) -> List[str]:
    """names of the interfaces a description mentions"""
    seen = seen if seen is not None else set()
    t = oracle.resolve(td)
    if repr(t) in seen:
        return []
    seen.add(repr(t))
    if isinstance(t, Iface):
        return [t.name]
    if isinstance(t, Uni):
        return [n for a in t.alts if a != NONE for n in _ifaces_in(oracle, a, seen)]
    if isinstance(t, (Opt, Undef, Ann, Coll, NewT)):
        return _ifaces_in(oracle, t.t, seen)
    if isinstance(t, Obj):
        return [n for f in t.fields for n in _ifaces_in(oracle, f.t, seen)]
    return []


def _has(oracle: "Oracle", td, what: str, seen=None) -> bool:
    seen = seen if seen is not None else set()
    t = oracle.resolve(td)
    if repr(t) in seen:
        return False
    seen.add(repr(t))
    if isinstance(t, Uni):
        return what == "union" or any(_has(oracle, a, what, seen) for a in t.alts if a != NONE)
    if isinstance(t, (Opt, Undef, Ann, Coll, NewT)):
        return _has(oracle, t.t, what, seen)
    if isinstance(t, Conv):
        return _has(oracle, t.target, what, seen)
    if isinstance(t, Iface):
        return what == "iface" or any(_has(oracle, x, what, seen) for x in t.subs)
    if isinstance(t, Obj):
        if what == "flatten" and any(f.flatten for f in t.fields):
            return True
        return any(_has(oracle, f.t, what, seen) for f in t.fields)
    return False


def _run_cfg(report, tier, rng, cfg: Cfg, world: World, mlog, elog, alog, out_list, in_list, group: str):
    import graphql
    from apischema import Undefined, UndefinedType, deserialize, serialize
    from apischema.graphql import Mutation, Query, graphql_schema, resolver

    oracle = Oracle(world, cfg)
    misc = group == "main"
    R = world.real
    holder: Dict[str, Any] = {}
    calls: List[Tuple[str, Dict[str, Any]]] = []
    queries: List[Any] = []
    mutations: List[Any] = []
    out_ops: List[Tuple[str, Any]] = []
    arg_ops: List[Dict[str, Any]] = []

    # -- output operations: q_out_<i>() -> T --------------------------------------------
    for i, td in out_list:
        name = f"q_out_{i}"
        queries.append(make_fn(name, [], R(td), lambda name=name: holder[name]))
        out_ops.append((name, td))

    # -- argument operations ------------------------------------------------------------------
    def recorder(name):
        def impl(**kw):
            calls.append((name, kw))
            return True

        return impl

    unser = object()  # a default no serializer accepts
    for i, td in enumerate(in_list):
        tp = R(td)
        kinds: List[Tuple[str, Any, Any, bool]] = [("required", tp, EMPTY, False)]
        good = P.valid_samples(td)
        dflt = None
        if good:
            r = outcome_ok(lambda: deserialize(tp, copy.deepcopy(good[0])))
            dflt = r
        if dflt is not None and dflt[0]:
            kinds.append(("default", tp, dflt[1], False))
            if not isinstance(td, Opt):
                kinds.append(("optional_default", typing.Optional[tp], dflt[1], True))
        if not isinstance(td, Opt):
            kinds.append(("optional_none", typing.Optional[tp], None, True))
            kinds.append(("undefined", typing.Union[tp, UndefinedType, None], Undefined, True))
        if not outcome_ok(lambda: serialize(tp, unser, check_type=True, fall_back_on_any=False))[0]:
            kinds.append(("unserialisable", tp, unser, True))
        for kind, ann, default, nullable in kinds:
            if tier == "quick" and kind in ("optional_default", "undefined", "unserialisable") and i % 3 != 0:
                continue
            name = f"q_arg_{i}_{kind}"
            fn = make_fn(name, [("some_arg", ann, default)], bool, recorder(name))
            (mutations if i % 4 == 0 else queries).append(fn)
            arg_ops.append({"name": name, "td": td, "kind": kind, "ann": ann, "default": default, "nullable": nullable, "root": "mutation" if i % 4 == 0 else "query"})
    # constraints given only through parameters_metadata (Query / Mutation wrappers)
    if misc:
        from apischema import schema as ap_schema

        md_types = [(INT, cons(min=0, max=10)), (STR, cons(min_len=2, pattern="^a")), (Coll("list", INT), cons(max_items=2, unique=True)), (FLOAT, cons(exc_min=0)), (Opt(INT), cons(min=1)), (POS, cons(max=5)), (Coll("list", STR), cons(min_items=1))]
        for j, (td, c) in enumerate(md_types):
            tp = R(td)
            sch = ap_schema(**dict(c.kw))
            dflt = None
            for g in P.valid_samples(Ann(td, c)):
                r = outcome_ok(lambda: deserialize(tp, copy.deepcopy(g), schema=sch))
                if r[0] and r[1] is not None:
                    dflt = r[1]
                    break
            for kind, default in (("required", EMPTY), ("default", dflt)):
                if kind == "default" and dflt is None:
                    continue
                name = f"q_md_{j}_{kind}"
                fn = make_fn(name, [("some_arg", tp, default)], bool, recorder(name))
                root = "mutation" if j % 2 else "query"
                (mutations if j % 2 else queries).append((Mutation if j % 2 else Query)(fn, parameters_metadata={"some_arg": sch}))
                arg_ops.append({"name": name, "td": td, "kind": kind, "ann": tp, "default": default, "nullable": False, "root": root, "md": c, "schema": sch})
    # several parameters, info parameter, metadata
    multi = make_fn("multi_params", [("first_one", int, EMPTY), ("second_one", typing.Optional[str], None), ("third_one", R(P.NT), world.realm.built["NT"](a=1)), ("info", typing.Optional[graphql.GraphQLResolveInfo], None)], bool, recorder("multi_params"))
    if misc:
        queries.append(multi)
    if misc:
        queries.append(make_fn("pt_default", [("some_pt", R(PT), world.realm.built["Pt"]())], bool, recorder("pt_default")))
    # a (non-frozen, hence unhashable) dataclass instance as parameter default
    if misc:
        queries.append(make_fn("object_default", [("flt", R(P.A), world.realm.built["A"](a=1))], bool, recorder("object_default")))

    # -- resolver methods on an object -----------------------------------------------------------
    Host = dataclasses.make_dataclass("Host", [("base", int)])
    Host.__module__ = world.realm.name

    def double(self, times: int = 2) -> int:
        calls.append(("double", {"times": times}))
        return self.base * times

    double.__annotations__ = {"times": int, "return": int}
    resolver(owner=Host)(double)

    def colors(self, only: typing.Optional[Any] = None):
        calls.append(("colors", {"only": only}))
        return [c for c in world.realm.built["Color"] if only is None or c is only]

    colors.__annotations__ = {"only": typing.Optional[R(COLOR)], "return": typing.List[R(COLOR)]}
    resolver("paint_colors", owner=Host)(colors)

    def boom(self) -> int:
        raise RuntimeError("boom!")

    boom.__annotations__ = {"return": int}
    resolver("boom_none", owner=Host, error_handler=None)(boom)

    def boom2(self) -> int:
        raise RuntimeError("boom2!")

    boom2.__annotations__ = {"return": int}
    resolver("boom_raise", owner=Host)(boom2)

    def handler(error, obj, info, **kw):
        return -1

    handler.__annotations__ = {"return": int}

    def boom3(self) -> int:
        raise RuntimeError("boom3!")

    boom3.__annotations__ = {"return": int}
    resolver("boom_handled", owner=Host, error_handler=handler)(boom3)
    if misc:
        queries.append(make_fn("host", [], Host, lambda: Host(21)))

    Host2 = dataclasses.make_dataclass("Host2", [("base", int)])
    Host2.__module__ = world.realm.name

    def scaled(self, times: int = 1, label: str = "ab") -> int:
        calls.append(("scaled", {"times": times, "label": label}))
        return self.base * times

    scaled.__annotations__ = {"times": int, "label": str, "return": int}
    from apischema import schema as ap_schema2
    from apischema.conversions import Conversion as Conversion2
    from apischema.metadata import conversion as conv_md2

    resolver("scaled", owner=Host2, parameters_metadata={"times": ap_schema2(min=1, max=3), "label": ap_schema2(min_len=2)})(scaled)
    if misc:
        queries.append(make_fn("host2", [], Host2, lambda: Host2(5)))

    class Tok(OpaqueBase):
        pass

    tok_conv = Conversion2(Tok, source=str, target=Tok)
    if misc:
        queries.append(Query(make_fn("tok_len", [("tok", Tok, EMPTY)], bool, recorder("tok_len")), parameters_metadata={"tok": conv_md2(deserialization=tok_conv) | ap_schema2(min_len=2)}))

    def raising() -> int:
        raise RuntimeError("op failed")

    raising.__annotations__ = {"return": int}
    if misc:
        queries.append(Query(raising, alias="raising_none", error_handler=None))
        queries.append(Query(raising, alias="raising_default"))

    # -- build --------------------------------------------------------------------------------------
    kw: Dict[str, Any] = {}
    if cfg.aliaser_kw is not DEFAULT:
        kw["aliaser"] = cfg.aliaser_kw
    if cfg.enum_kw is not DEFAULT:
        kw["enum_aliaser"] = cfg.enum_kw
    if cfg.id_names:
        kw["id_types"] = {world.realm.built[n] for n in cfg.id_names}
    if cfg.id_encoding:
        kw["id_encoding"] = (b64d, b64e)
    impl_names: List[str] = ["Square", "Circle"] if misc else []
    for _, td in out_list:
        for nm in _ifaces_in(oracle, td):
            for sname in [x.name for x in EXTRAS[nm].subs]:
                if sname not in impl_names:
                    impl_names.append(sname)
    extra_types = [world.realm.built[n] for n in impl_names]
    # every operation must be supported on its own; one that is not is reported and left out of
    # the common schema (so that the others are still checked)
    descr = {op["name"]: f"{short(op['td'])}:{op['kind']}:default={op['default']!r}"[:200] + (":parameters_metadata" if op.get("md") else "") for op in arg_ops}
    descr.update({name: short(td) for name, td in out_ops})

    def fn_name(op):
        return getattr(op, "__name__", None) or getattr(op, "alias", None) or op.function.__name__

    def supported(op, root: str) -> bool:
        probe = [op] if root == "query" else [queries[0]]
        try:
            graphql_schema(query=probe, mutation=[op] if root == "mutation" else [], types=extra_types, **kw)
            return True
        except Exception as e:
            name = fn_name(op)
            mlog.case((cfg.name, "operation supported", name), True)
            mlog.fail(f"schema-build:{cfg.name}:{descr.get(name, name)}:{type(e).__name__}: {str(e)[:80]}", f"[{cfg.name}] graphql_schema with the single operation {name} ({descr.get(name, name)}) raised {type(e).__name__}: {str(e)[:200]}", {"config": cfg.name, "operation": name, "what": descr.get(name, name)}, observed=repr(e)[:400], expected="a schema", functions_involved=["graphql_schema", "OutputSchemaBuilder._resolver", "InputSchemaBuilder._field"])
            return False

    queries = [q for q in queries if supported(q, "query")]
    mutations = [m for m in mutations if supported(m, "mutation")]
    alive = {fn_name(o) for o in queries + mutations}
    out_ops = [(n, td) for n, td in out_ops if n in alive]
    arg_ops = [op for op in arg_ops if op["name"] in alive]
    has_multi = "multi_params" in alive
    if not queries:
        return  # nothing left to build a schema from (already reported)
    try:
        schema = graphql_schema(query=queries, mutation=mutations, types=extra_types, **kw)
        verrs = graphql.validate_schema(schema)
    except Exception as e:
        mlog.fail(f"schema-build-all:{cfg.name}:{group}:{type(e).__name__}: {str(e)[:80]}", f"graphql_schema({cfg.name} / {group}) raised {type(e).__name__}: {str(e)[:300]}", {"config": cfg.name, "group": group}, observed=repr(e)[:500], functions_involved=["graphql_schema", "OutputSchemaBuilder", "InputSchemaBuilder"])
        return
    mlog.case((cfg.name, group, "validate_schema"), True, sample={"config": cfg.name, "element": "validate_schema"})
    if verrs:
        mlog.fail(f"validate-schema:{cfg.name}:{group}:{str(verrs[0])[:80]}", f"graphql.validate_schema({cfg.name}) -> {[str(e) for e in verrs][:3]}", {"config": cfg.name}, observed=[str(e) for e in verrs][:5], expected=[], functions_involved=["graphql_schema"])

    mlog.case((cfg.name, group, "print_schema"), True, sample={"config": cfg.name, "element": "print_schema"})
    try:
        sdl = graphql.print_schema(schema)
        graphql.build_schema(sdl)
    except Exception as e:
        mlog.fail(f"print-schema:{cfg.name}:{group}:{type(e).__name__}: {str(e)[:80]}", f"[{cfg.name} / {group}] graphql.print_schema / build_schema of the generated schema raised {type(e).__name__}: {str(e)[:200]}", {"config": cfg.name, "group": group}, observed=repr(e)[:300], expected="SDL that parses", functions_involved=["graphql_schema", "OutputSchemaBuilder._resolver", "InputSchemaBuilder._field"])

    def alias_tag(ann, default) -> str:
        """marks (in signatures) the defaults whose serialization depends on the aliaser"""
        a = outcome_ok(lambda: serialize(ann, default, aliaser=cfg.aliaser or (lambda s: s)))
        b = outcome_ok(lambda: serialize(ann, default))
        return " [alias-sensitive default]" if a[0] and b[0] and a[1] != b[1] else ""

    # -- mirror ---------------------------------------------------------------------------------------
    def expect(element: str, observed, expected, involved=("OutputSchemaBuilder",)):
        mlog.case((cfg.name, group, element), True, sample={"config": cfg.name, "element": element, "expected": str(expected)[:80]})
        if observed != expected:
            mlog.fail(f"mirror:{cfg.name}:{group}:{element}", f"[{cfg.name} / {group}] {element}: schema has {observed!r}, the model gives {expected!r}", {"config": cfg.name, "element": element}, observed=repr(observed)[:400], expected=repr(expected)[:400], functions_involved=list(involved))

    qt, mt = schema.query_type, schema.mutation_type
    expected_named: Dict[str, Any] = {}
    for name, td in out_ops:
        gname = cfg.al(name)
        fld = qt.fields.get(gname)
        expect(f"Query.{name}: name", fld is not None, True)
        if fld is not None:
            expect(f"Query.{name}: type of {short(td)}", str(fld.type), oracle.type_str(td, "out"))
        _names_of_objects(oracle, td, "out", expected_named)
    for op in arg_ops:
        root = mt if op["root"] == "mutation" else qt
        fld = root.fields.get(cfg.al(op["name"]))
        expect(f"{op['root']}.{op['name']}: name", fld is not None, True, ("OutputSchemaBuilder._resolver",))
        if fld is None:
            continue
        arg = fld.args.get(cfg.al("some_arg"))
        expect(f"{op['name']}: argument names", sorted(fld.args), [cfg.al("some_arg")], ("OutputSchemaBuilder._resolver",))
        if arg is None:
            continue
        ts = oracle.type_str(op["td"], "in")
        if op["nullable"] and ts.endswith("!"):
            ts = ts[:-1]
        expect(f"{op['name']}: argument type of {short(op['td'])} ({op['kind']})", str(arg.type), ts, ("OutputSchemaBuilder._resolver", "InputSchemaBuilder"))
        if op["kind"] in ("default", "optional_default") and op["default"] is not None:
            exp_default = outcome_ok(lambda: serialize(op["ann"], op["default"], check_type=True, fall_back_on_any=False, aliaser=cfg.aliaser or (lambda s: s)))
            if exp_default[0]:
                expect(f"{op['name']}: argument default of {short(op['td'])}{alias_tag(op['ann'], op['default'])}", _plain(arg.default_value), _plain(exp_default[1]), ("OutputSchemaBuilder._resolver",))
        else:
            expect(f"{op['name']}: no argument default for {short(op['td'])}", arg.default_value is graphql.Undefined, True, ("OutputSchemaBuilder._resolver",))
        _names_of_objects(oracle, op["td"], "in", expected_named)
    # the hand-written operations
    if misc:
        f_multi = qt.fields.get(cfg.al("multi_params")) if has_multi else None
        if has_multi:
            expect("Query.multi_params: argument names", sorted(f_multi.args) if f_multi else None, sorted(cfg.al(n) for n in ("first_one", "second_one", "third_one")), ("OutputSchemaBuilder._resolver",))
        if f_multi:
            expect("Query.multi_params: argument types", [str(f_multi.args[cfg.al(n)].type) for n in ("first_one", "second_one", "third_one") if cfg.al(n) in f_multi.args], ["Int!", "String", "NTInput!"], ("OutputSchemaBuilder._resolver",))
            third = f_multi.args.get(cfg.al("third_one"))
            if third is not None:
                expect("Query.multi_params: object default" + alias_tag(R(P.NT), world.realm.built["NT"](a=1)), _plain(third.default_value), {cfg.al("a"): 1, cfg.al("b"): "x"}, ("OutputSchemaBuilder._resolver",))
        _names_of_objects(oracle, P.NT, "in", expected_named)
        _names_of_objects(oracle, PT, "in", expected_named)
        pd = qt.fields.get(cfg.al("pt_default"))
        expect("Query.pt_default: argument default" + alias_tag(R(PT), world.realm.built["Pt"]()), {k: (str(a.type), _plain(a.default_value)) for k, a in pd.args.items()} if pd else None, {cfg.al("some_pt"): ("PtInput!", {cfg.al("x_coord"): 1, cfg.al("y_coord"): 2})}, ("OutputSchemaBuilder._resolver",))
        if "object_default" in alive:
            _names_of_objects(oracle, P.A, "in", expected_named)
            od = qt.fields.get(cfg.al("object_default"))
            expect("Query.object_default: argument", {k: (str(a.type), _plain(a.default_value)) for k, a in od.args.items()} if od else None, {cfg.al("flt"): ("AInput!", {cfg.al("a"): 1, cfg.al("b"): "x"})}, ("OutputSchemaBuilder._resolver",))
        host_t = schema.type_map.get("Host")
        expect("type Host: fields", sorted(host_t.fields) if host_t else None, sorted(cfg.al(n) for n in ("base", "double", "paint_colors", "boom_none", "boom_raise", "boom_handled")), ("OutputSchemaBuilder.object",))
        if host_t:
            types = {n: str(host_t.fields[cfg.al(n)].type) for n in ("base", "double", "paint_colors", "boom_none", "boom_raise", "boom_handled") if cfg.al(n) in host_t.fields}
            expect("type Host: field types (error_handler=None makes the field nullable)", types, {"base": "Int!", "double": "Int!", "paint_colors": "[Color!]!", "boom_none": "Int", "boom_raise": "Int!", "boom_handled": "Int!"}, ("OutputSchemaBuilder._resolver",))
            dbl = host_t.fields.get(cfg.al("double"))
            if dbl is not None:
                expect("Host.double: arguments", {k: (str(a.type), a.default_value) for k, a in dbl.args.items()}, {cfg.al("times"): ("Int!", 2)}, ("OutputSchemaBuilder._resolver",))
        expect("Query.raising_*: types", [str(qt.fields[cfg.al(n)].type) if cfg.al(n) in qt.fields else None for n in ("raising_none", "raising_default")], ["Int", "Int!"], ("OutputSchemaBuilder._resolver",))
        expected_named["Host"] = ("object-host", None)
        expected_named["Host2"] = ("object-host", None)
        h2 = schema.type_map.get("Host2")
        expect("type Host2: resolver with parameters_metadata", {k: {a: str(x.type) for a, x in f.args.items()} for k, f in h2.fields.items()} if h2 else None, {cfg.al("base"): {}, cfg.al("scaled"): {cfg.al("times"): "Int!", cfg.al("label"): "String!"}}, ("OutputSchemaBuilder._resolver",))
        tk = qt.fields.get(cfg.al("tok_len"))
        expect("Query.tok_len: parameter converted through parameters_metadata", {a: str(x.type) for a, x in tk.args.items()} if tk else None, {cfg.al("tok"): "String!"}, ("OutputSchemaBuilder._resolver",))
        expected_named["Color"] = ("enum", COLOR)
    for _nm in impl_names:
        _names_of_objects(oracle, world.desc(_nm), "out", expected_named)
        for _i in sub_interfaces(_nm):
            _names_of_objects(oracle, Ref(_i), "out", expected_named)
    # named types: kinds, fields, members
    for gname, (kind, t) in sorted(expected_named.items()):
        got = schema.type_map.get(gname)
        if got is None:
            expect(f"named type {gname}: present", False, True)
            continue
        if kind == "object":
            expect(f"type {gname}: kind", type(got).__name__, "GraphQLObjectType")
            if isinstance(got, graphql.GraphQLObjectType):
                expect(f"type {gname}: fields", {k: str(f.type) for k, f in got.fields.items()}, {n: oracle.type_str(f.t, "out") for n, f, _ in oracle.fields(t)}, ("OutputSchemaBuilder.object", "OutputSchemaBuilder._field"))
        elif kind == "object-in":
            expect(f"input {gname}: kind", type(got).__name__, "GraphQLInputObjectType", ("InputSchemaBuilder.object",))
            if isinstance(got, graphql.GraphQLInputObjectType):
                exp_fields = {}
                exp_defaults = {}
                for n, f, owner in oracle.fields(t):
                    ts = oracle.type_str(oracle.in_field_type(f), "in")
                    has, dv = oracle.default_of(owner, f)
                    if has:
                        exp_defaults[n] = _plain(dv)
                    elif (f.has_default or f.factory is not None) and owner.kind != "typeddict" and not (f.factory is None and (f.default is None or f.default == "$Undefined")) and ts.endswith("!"):
                        ts = ts[:-1]  # unserialisable default
                    if owner.kind == "typeddict" and not f.td_required and ts.endswith("!"):
                        ts = ts[:-1]
                    exp_fields[n] = ts
                expect(f"input {gname}: fields", {k: str(f.type) for k, f in got.fields.items()}, exp_fields, ("InputSchemaBuilder.object", "InputSchemaBuilder._field"))
                expect(f"input {gname}: defaults", {k: _plain(f.default_value) for k, f in got.fields.items() if f.default_value is not graphql.Undefined}, exp_defaults, ("InputSchemaBuilder._field",))
        elif kind == "enum":
            expect(f"enum {gname}: kind", type(got).__name__, "GraphQLEnumType", ("SchemaBuilder.enum",))
            if isinstance(got, graphql.GraphQLEnumType):
                expect(f"enum {gname}: values", {k: getattr(v.value, "name", v.value) for k, v in got.values.items()}, {cfg.enum_aliaser(n): n for n, _ in t.members}, ("SchemaBuilder.enum",))
        elif kind == "enum-lit":
            expect(f"enum {gname}: kind", type(got).__name__, "GraphQLEnumType", ("SchemaBuilder.literal",))
            if isinstance(got, graphql.GraphQLEnumType):
                expect(f"enum {gname}: values", {k: v.value for k, v in got.values.items()}, {cfg.enum_aliaser(v): v for v in t.values}, ("SchemaBuilder.literal",))
        elif kind == "scalar":
            expect(f"scalar {gname}: kind", type(got).__name__, "GraphQLScalarType", ("SchemaBuilder.primitive",))
        elif kind == "union":
            expect(f"union {gname}: kind", type(got).__name__, "GraphQLUnionType", ("OutputSchemaBuilder._visited_union",))
            if isinstance(got, graphql.GraphQLUnionType):
                expect(f"union {gname}: members", [m.name for m in got.types], [m.name for m in t], ("OutputSchemaBuilder._visited_union",))
        elif kind == "interface":
            expect(f"interface {gname}: kind", type(got).__name__, "GraphQLInterfaceType", ("OutputSchemaBuilder.object",))
            if isinstance(got, graphql.GraphQLInterfaceType):
                expect(f"interface {gname}: fields", {k: str(f.type) for k, f in got.fields.items()}, {n: oracle.type_str(f.t, "out") for n, f, _ in oracle.fields(t.base)}, ("OutputSchemaBuilder.object",))
                expect(f"interface {gname}: implements", sorted(i.name for i in got.interfaces), sorted(iface_ancestors(gname)), ("OutputSchemaBuilder.object", "get_interfaces"))
                for s in t.subs:
                    st = schema.type_map.get(s.name)
                    if st is not None:  # (only the implementations given to the schema)
                        expect(f"type {s.name}: implements", sorted(i.name for i in getattr(st, "interfaces", ())), sub_interfaces(s.name), ("OutputSchemaBuilder.object", "get_interfaces"))
    builtin = {"Int", "Float", "String", "Boolean", "ID", "Query", "Mutation"}
    for _nm in impl_names:
        _names_of_objects(oracle, world.desc(_nm), "out", expected_named)
        for _i in sub_interfaces(_nm):
            _names_of_objects(oracle, Ref(_i), "out", expected_named)
    unexpected = sorted(n for n in schema.type_map if not n.startswith("__") and n not in builtin and n not in expected_named)
    expect("no unexpected named type", unexpected, [])

    # -- execution of the output operations -------------------------------------------------------
    plain_alias = cfg.aliaser or (lambda s: s)
    for name, td in out_ops:
        sel = oracle.selection(td)
        query = "{ " + cfg.al(name) + sel + " }"
        for v in values_of(world, td, tier):
            holder[name] = v
            try:
                exp = oracle.output(td, v)
            except Exception as e:
                report.tool_error(f"graphql oracle cannot compute the output of {short(td)} for {v!r}: {e!r}")
                continue
            res = graphql.graphql_sync(schema, query)
            elog.case((cfg.name, short(td), repr(v)), True, sample={"config": cfg.name, "type": short(td), "value": repr(v), "query": query[:120]})
            got = res.data.get(cfg.al(name)) if res.data else None
            if res.errors or not _json_eq(got, exp):
                elog.fail(
                    f"exec-output:{cfg.name}:{group}:{short(td)}:{v!r}" + (":" + res.errors[0].message[:70] if res.errors else ""),
                    f"[{cfg.name} / {group}] query {query[:160]} with the resolver returning {v!r} -> data {got!r} errors {[e.message for e in res.errors or []][:2]}; expected {exp!r}",
                    {"config": cfg.name, "type": short(td), "value": repr(v), "query": query},
                    observed=repr((got, [e.message for e in res.errors or []]))[:600],
                    expected=repr(exp)[:600],
                    functions_involved=["OutputSchemaBuilder._field", "resolver_resolve", "partial_serialization_method_factory"],
                )
                continue
            # link with serialize(T, v, aliaser=...) where the two must coincide literally
            if _literal_comparable(oracle, td):
                ser = outcome_ok(lambda: serialize(world.real(td), v, aliaser=plain_alias))
                if ser[0] and not _json_eq(_limit(oracle, td, ser[1]), exp):
                    elog.fail(f"exec-vs-serialize:{cfg.name}:{short(td)}:{v!r}", f"[{cfg.name}] {short(td)}: GraphQL data {got!r} differs from serialize(T, v, aliaser) = {ser[1]!r}", {"config": cfg.name, "type": short(td), "value": repr(v)}, observed=repr(got)[:500], expected=repr(ser[1])[:500], functions_involved=["OutputSchemaBuilder._field", "resolver_resolve"])
    if misc:
        # resolver methods, error handlers
        hq = "{ " + cfg.al("host") + " { " + " ".join([cfg.al("base"), cfg.al("double"), "d3: " + cfg.al("double") + "(" + cfg.al("times") + ": 3)", cfg.al("paint_colors"), "g: " + cfg.al("paint_colors") + "(" + cfg.al("only") + ": " + cfg.enum_aliaser("G") + ")", cfg.al("boom_none"), cfg.al("boom_handled")]) + " } }"
        del calls[:]
        res = graphql.graphql_sync(schema, hq)
        exp = {cfg.al("base"): 21, cfg.al("double"): 42, "d3": 63, cfg.al("paint_colors"): [cfg.enum_aliaser("R"), cfg.enum_aliaser("G")], "g": [cfg.enum_aliaser("G")], cfg.al("boom_none"): None, cfg.al("boom_handled"): -1}
        elog.case((cfg.name, "host resolvers"), True, sample={"config": cfg.name, "query": hq})
        got = res.data.get(cfg.al("host")) if res.data else None
        Color = world.realm.built["Color"]
        exp_calls = [("double", {"times": 2}), ("double", {"times": 3}), ("colors", {"only": None}), ("colors", {"only": Color["G"]})]
        if res.errors or got != exp or sorted(map(repr, calls)) != sorted(map(repr, exp_calls)):
            elog.fail(f"exec-resolvers:{cfg.name}", f"[{cfg.name}] {hq} -> {got!r} errors {[e.message for e in res.errors or []][:2]} calls {calls!r}; expected {exp!r} with calls {exp_calls!r}", {"config": cfg.name, "query": hq}, observed=repr((got, calls))[:600], expected=repr((exp, exp_calls))[:600], functions_involved=["resolver_resolve", "OutputSchemaBuilder._resolver"])
        res = graphql.graphql_sync(schema, "{ " + cfg.al("host") + " { " + cfg.al("boom_raise") + " } }")
        elog.case((cfg.name, "raising resolver without handler"), True)
        if not res.errors or "boom2!" not in res.errors[0].message:
            elog.fail(f"exec-error-propagates:{cfg.name}", f"[{cfg.name}] a raising resolver without error_handler must give a GraphQL error; got data {res.data!r} errors {res.errors!r}", {"config": cfg.name}, observed=repr(res)[:400], expected="errors: boom2!", functions_involved=["resolver_resolve"])
        res = graphql.graphql_sync(schema, "{ " + cfg.al("raising_none") + " }")
        elog.case((cfg.name, "raising operation, error_handler=None"), True)
        if res.errors or res.data != {cfg.al("raising_none"): None}:
            elog.fail(f"exec-error-none:{cfg.name}", f"[{cfg.name}] Query(raising, error_handler=None) must give null without error; got {res.data!r} / {res.errors!r}", {"config": cfg.name}, observed=repr(res)[:400], expected="null", functions_involved=["resolver_resolve", "operation_resolver"])
        res = graphql.graphql_sync(schema, "{ " + cfg.al("raising_default") + " }")
        if not res.errors or "op failed" not in res.errors[0].message:
            elog.fail(f"exec-error-default:{cfg.name}", f"[{cfg.name}] Query(raising) must give a GraphQL error; got {res.data!r} / {res.errors!r}", {"config": cfg.name}, observed=repr(res)[:400], expected="errors: op failed", functions_involved=["resolver_resolve", "operation_resolver"])

    # -- arguments -------------------------------------------------------------------------------------
    P.set_sample_aliaser(cfg.aliaser)
    try:
        for op in arg_ops:
            root = mt if op["root"] == "mutation" else qt
            fld = root.fields.get(cfg.al(op["name"]))
            if fld is None or cfg.al("some_arg") not in fld.args:
                continue
            arg_type = str(fld.args[cfg.al("some_arg")].type)
            opname = cfg.al(op["name"])
            prefix = "mutation" if op["root"] == "mutation" else "query"
            q_var = f"{prefix}($v: {arg_type}) {{ {opname}({cfg.al('some_arg')}: $v) }}"
            q_absent = f"{prefix} {{ {opname} }}"
            td, tp = op["td"], world.real(op["td"])
            pool = P.data_pool(Ann(td, op["md"]) if op.get("md") else td, tier, rng) if not is_extra(td) else extra_pool(td)
            pool = pool[: ((24 if op.get("md") else 14) if tier == "quick" else 50)]
            dkw = {"schema": op["schema"]} if op.get("md") else {}
            sent = set()
            for d in pool:
                try:
                    g = oracle.to_gql(td, copy.deepcopy(d))
                    wellformed = True
                except NotGraphQL:
                    g, wellformed = d, False
                except Exception:
                    continue
                if g is None:
                    continue  # explicit null: below
                key = repr(g)
                if key in sent:
                    continue
                sent.add(key)
                # graphql-core materialises the declared defaults of absent input fields
                exp = outcome_ok(lambda: deserialize(tp, oracle.fill(td, copy.deepcopy(d)), aliaser=plain_alias, **dkw))
                del calls[:]
                try:
                    res = graphql.graphql_sync(schema, q_var, variable_values={"v": g})
                except Exception as e:
                    alog.fail(f"arg-crash:{cfg.name}:{short(td)}:{op['kind']}:{d!r}", f"[{cfg.name}] executing {q_var} with {g!r} raised {e!r}", {"config": cfg.name, "type": short(td), "kind": op["kind"], "datum": repr(d)}, observed=repr(e)[:300], functions_involved=["resolver_resolve"])
                    continue
                alog.case((cfg.name, short(td), op["kind"], repr(d)), wellformed, sample={"config": cfg.name, "type": short(td), "default": op["kind"], "datum": d, "variable": g})
                sig = f"{cfg.name}:{short(td)}{'+parameters_metadata(' + str(dict(op['md'].kw)) + ')' if op.get('md') else ''}:{op['kind']}:{d!r}"
                case = {"config": cfg.name, "type": short(td), "kind": op["kind"], "datum": repr(d), "variable": repr(g), "query": q_var}
                if not wellformed:
                    # graphql-core decides (it coerces 1.0 to Int, wraps single values into
                    # lists, stringifies IDs...): only the absence of a crash is required
                    continue
                if exp[0]:
                    if res.errors or len(calls) != 1 or not _arg_eq(calls[0][1].get("some_arg"), exp[1]):
                        alog.fail(f"arg-valid:{sig}", f"[{cfg.name}] {short(td)} ({op['kind']}): variable {g!r}: deserialize accepts it as {exp[1]!r}; GraphQL gave errors {[e.message for e in res.errors or []][:2]} and calls {calls!r}", case, observed=repr((res.errors, calls))[:500], expected=repr(exp[1])[:300], functions_involved=["resolver_resolve", "deserialization_method"])
                else:
                    if not res.errors or calls:
                        alog.fail(f"arg-invalid:{sig}", f"[{cfg.name}] {short(td)} ({op['kind']}): variable {g!r}: deserialize rejects it ({str(exp[1])[:120]}); GraphQL gave errors {[e.message for e in res.errors or []][:2]} and the resolver was called {len(calls)} time(s): {calls!r}", case, observed=repr((res.errors, calls))[:500], expected="errors, no call", functions_involved=["resolver_resolve", "deserialization_method"])
            # absent argument -> Python default; explicit null
            if op["kind"] != "required":
                del calls[:]
                res = graphql.graphql_sync(schema, q_absent)
                alog.case((cfg.name, short(td), op["kind"], "<absent>"), True)
                ok = not res.errors and len(calls) == 1 and ("some_arg" not in calls[0][1] or _arg_eq(calls[0][1]["some_arg"], op["default"]) or calls[0][1]["some_arg"] is op["default"])
                if not ok:
                    alog.fail(f"arg-absent:{cfg.name}:{short(td)}:{op['kind']}{alias_tag(op['ann'], op['default']) if op['kind'] in ('default', 'optional_default') else ''}", f"[{cfg.name}] {short(td)} ({op['kind']}): absent argument must leave the Python default {op['default']!r}; errors {[e.message for e in res.errors or []][:2]} calls {calls!r}", {"config": cfg.name, "type": short(td), "kind": op["kind"]}, observed=repr((res.errors, calls))[:400], expected=repr(op["default"])[:200], functions_involved=["resolver_resolve"])
            if op["kind"] in ("optional_none", "optional_default", "undefined") and not arg_type.endswith("!"):
                del calls[:]
                res = graphql.graphql_sync(schema, q_var, variable_values={"v": None})
                alog.case((cfg.name, short(td), op["kind"], "<null>"), True)
                if res.errors or len(calls) != 1 or calls[0][1].get("some_arg", "missing") is not None:
                    alog.fail(f"arg-null:{cfg.name}:{short(td)}:{op['kind']}", f"[{cfg.name}] {short(td)} ({op['kind']}): explicit null on an Optional parameter must give None; errors {[e.message for e in res.errors or []][:2]} calls {calls!r}", {"config": cfg.name, "type": short(td), "kind": op["kind"]}, observed=repr((res.errors, calls))[:400], expected="some_arg=None", functions_involved=["resolver_resolve"])
            if op["kind"] == "unserialisable" and not arg_type.endswith("!"):
                del calls[:]
                res = graphql.graphql_sync(schema, q_var, variable_values={"v": None})
                alog.case((cfg.name, short(td), op["kind"], "<null>"), True)
                # nullable only in the schema: null means "not given", the default is used
                if not isinstance(td, Opt) and (res.errors or len(calls) != 1 or "some_arg" in calls[0][1] and calls[0][1]["some_arg"] is not op["default"]):
                    alog.fail(f"arg-null-unserialisable:{cfg.name}:{short(td)}", f"[{cfg.name}] {short(td)} (unserialisable default): null stands for 'not given'; errors {[e.message for e in res.errors or []][:2]} calls {calls!r}", {"config": cfg.name, "type": short(td), "kind": op["kind"]}, observed=repr((res.errors, calls))[:400], expected="default kept", functions_involved=["resolver_resolve"])
        if misc:
            del calls[:]
            q = f"{{ {cfg.al('pt_default')} }}"
            res = graphql.graphql_sync(schema, q)
            alog.case((cfg.name, "pt_default absent"), True, sample={"config": cfg.name, "query": q})
            Pt = world.realm.built["Pt"]
            if res.errors or len(calls) != 1 or calls[0][1].get("some_pt", Pt()) != Pt():
                alog.fail(f"arg-absent-object-default:{cfg.name}:pt_default" + alias_tag(R(PT), world.realm.built["Pt"]()), f"[{cfg.name}] {q}: the omitted argument has the default Pt(x_coord=1, y_coord=2); errors {[e.message for e in res.errors or []][:2]} calls {calls!r}", {"config": cfg.name, "query": q}, observed=repr((res.errors, calls))[:500], expected="one call with the default", functions_involved=["resolver_resolve", "OutputSchemaBuilder._resolver"])
            del calls[:]
            q = f"{{ {cfg.al('pt_default')}({cfg.al('some_pt')}: {{{cfg.al('x_coord')}: 5}}) }}"
            res = graphql.graphql_sync(schema, q)
            alog.case((cfg.name, "pt_default given"), True, sample={"config": cfg.name, "query": q})
            if res.errors or len(calls) != 1 or calls[0][1].get("some_pt") != Pt(x_coord=5):
                alog.fail(f"arg-object:{cfg.name}:pt_default", f"[{cfg.name}] {q}: errors {[e.message for e in res.errors or []][:2]} calls {calls!r}", {"config": cfg.name, "query": q}, observed=repr((res.errors, calls))[:500], expected="Pt(x_coord=5, y_coord=2)", functions_involved=["resolver_resolve"])
        if misc:
            # resolver method / operation whose constraints and conversion come from
            # parameters_metadata only: as deserialize(type, value, schema=..., conversion=...)
            h2q = lambda args: "{ " + cfg.al("host2") + " { " + cfg.al("scaled") + (("(" + args + ")") if args else "") + " } }"  # noqa: E731
            for times, label in [(None, None), (1, None), (3, "abc"), (0, None), (4, None), (7, "ab"), (2, "a"), (2, "")]:
                args = ", ".join(([f"{cfg.al('times')}: {times}"] if times is not None else []) + ([f'{cfg.al("label")}: "{label}"'] if label is not None else []))
                del calls[:]
                res = graphql.graphql_sync(schema, h2q(args))
                valid = (times is None or 1 <= times <= 3) and (label is None or len(label) >= 2)
                alog.case((cfg.name, "Host2.scaled", args), True, sample={"config": cfg.name, "query": h2q(args)})
                exp_call = ("scaled", {"times": 1 if times is None else times, "label": "ab" if label is None else label})
                if valid and (res.errors or calls != [exp_call]) or not valid and (not res.errors or calls):
                    alog.fail(f"arg-resolver-metadata:{cfg.name}:scaled({args})", f"[{cfg.name}] {h2q(args)} with parameters_metadata times: schema(min=1, max=3), label: schema(min_len=2): errors {[e.message for e in res.errors or []][:2]} calls {calls!r}; expected {'the call ' + repr(exp_call) if valid else 'an error and no call'}", {"config": cfg.name, "query": h2q(args)}, observed=repr((res.errors, calls))[:500], expected=repr(exp_call) if valid else "errors, no call", functions_involved=["resolver_resolve", "deserialization_method"])
            for text in ["abc", "ab", "a", ""]:
                del calls[:]
                q = f'{{ {cfg.al("tok_len")}({cfg.al("tok")}: "{text}") }}'
                res = graphql.graphql_sync(schema, q)
                # exactly as deserialize(type, value, conversion=..., schema=...) would
                valid = outcome_ok(lambda: deserialize(Tok, text, conversion=tok_conv, schema=ap_schema2(min_len=2)))[0]
                alog.case((cfg.name, "tok_len", text), True, sample={"config": cfg.name, "query": q})
                okc = len(calls) == 1 and isinstance(calls[0][1].get("tok"), OpaqueBase) and calls[0][1]["tok"].payload == text
                if valid and (res.errors or not okc) or not valid and (not res.errors or calls):
                    alog.fail(f"arg-conversion-metadata:{cfg.name}:tok_len({text!r})", f"[{cfg.name}] {q} (parameter converted from str and constrained by min_len=2 through parameters_metadata): errors {[e.message for e in res.errors or []][:2]} calls {calls!r}", {"config": cfg.name, "query": q}, observed=repr((res.errors, calls))[:500], expected="Tok(text)" if valid else "errors, no call", functions_involved=["resolver_resolve", "deserialization_method"])
        # several parameters: aliases of parameter names, object default, info
        if not has_multi:
            return
        del calls[:]
        q = f"{{ {cfg.al('multi_params')}({cfg.al('first_one')}: 4, {cfg.al('second_one')}: \"s\") }}"
        res = graphql.graphql_sync(schema, q)
        alog.case((cfg.name, "multi_params"), True, sample={"config": cfg.name, "query": q})
        A = world.realm.built["NT"]
        ok = not res.errors and len(calls) == 1 and calls[0][1].get("first_one") == 4 and calls[0][1].get("second_one") == "s" and calls[0][1].get("third_one", A(a=1)) == A(a=1) and isinstance(calls[0][1].get("info"), graphql.GraphQLResolveInfo)
        if not ok:
            alog.fail(f"arg-multi:{cfg.name}" + alias_tag(R(P.NT), world.realm.built["NT"](a=1)), f"[{cfg.name}] {q} -> errors {[e.message for e in res.errors or []][:2]} calls {calls!r}", {"config": cfg.name, "query": q}, observed=repr((res.errors, calls))[:500], expected="first_one=4, second_one='s', third_one default, info injected", functions_involved=["resolver_resolve"])
        del calls[:]
        q = f"{{ {cfg.al('multi_params')}({cfg.al('first_one')}: 4, {cfg.al('third_one')}: {{{cfg.al('a')}: 5, {cfg.al('b')}: 7}}) }}"
        res = graphql.graphql_sync(schema, q)
        alog.case((cfg.name, "multi_params invalid nested"), True)
        if not res.errors or calls:
            alog.fail(f"arg-multi-invalid:{cfg.name}", f"[{cfg.name}] {q}: b must be a string; errors {res.errors!r} calls {calls!r}", {"config": cfg.name, "query": q}, observed=repr((res.errors, calls))[:500], expected="errors, no call", functions_involved=["resolver_resolve"])
    finally:
        P.set_sample_aliaser(None)


def extra_pool(td) -> List[Any]:
    x = EXTRAS[td.name]
    if isinstance(x, IdT):
        return ["i1", "", "a b", 1, None, ["x"]]
    if isinstance(x, Conv):
        return P.valid_samples(x.target)[:3] + P.mutants(P.valid_samples(x.target)[0], 6) + [None, "zz", -1]
    return []


def outcome_ok(f) -> Tuple[bool, Any]:
    try:
        return (True, f())
    except Exception as e:
        return (False, f"{type(e).__name__}: {e}")


def _plain(x):
    """graphql default values / serialized data as plain JSON (enum members by name)"""
    if isinstance(x, enum.Enum):
        return ("enum", x.name)
    if isinstance(x, dict):
        return {k: _plain(v) for k, v in x.items()}
    if isinstance(x, (list, tuple)):
        return [_plain(v) for v in x]
    return x


def _json_eq(a, b) -> bool:
    if isinstance(a, dict) and isinstance(b, dict):
        return a.keys() == b.keys() and all(_json_eq(a[k], b[k]) for k in a)
    if isinstance(a, list) and isinstance(b, list):
        return len(a) == len(b) and all(_json_eq(x, y) for x, y in zip(a, b))
    if isinstance(a, bool) or isinstance(b, bool):
        return a is b
    if isinstance(a, (int, float)) and isinstance(b, (int, float)):
        return a == b
    return type(a) is type(b) and a == b


def _arg_eq(a, b) -> bool:
    if isinstance(a, OpaqueBase) or isinstance(b, OpaqueBase):
        return a == b
    return deep_eq(a, b)


def _literal_comparable(oracle: Oracle, td) -> bool:
    """serialize(T, v, aliaser) and the GraphQL data coincide literally: no enum (by value vs by
    name), Undefined, ID encoding, conditional omission, union (__typename), depth cut"""
    t = oracle.resolve(td)
    if oracle.is_id(td):
        return False
    if isinstance(t, (Prim,)):
        return True
    if isinstance(t, (Opt, Ann, Coll)):
        return _literal_comparable(oracle, t.t)
    if isinstance(t, NewT):
        return not isinstance(oracle.resolve(t.t), Lit) and _literal_comparable(oracle, t.t)
    if isinstance(t, Conv):
        return _literal_comparable(oracle, t.target)
    if isinstance(t, Obj):
        if t.name in ("Node", "P", "Q"):
            return False
        for f in t.fields:
            if f.none_as_undefined or f.skip_ser_default or f.skip_ser_if_falsy or f.pattern is not None or f.additional:
                return False
            if not _literal_comparable(oracle, f.t):
                return False
        return True
    return False


def _limit(oracle: Oracle, td, ser):
    return ser
