"""C08 -- options that are optimisations never change results (B: bounded; the 2^5
PassThroughOptions flag vectors are enumerated completely, the types are bounded).

Pairwise run-time equivalences on the real API (relational oracles, straight from the statement):

* `deser_no_copy`      : deserialization_method(T, no_copy=True) vs no_copy=False over the C01 type /
                         datum pools x option sets: identical values (same classes) and identical
                         error lists; with no_copy=False the result shares no mutable container
                         (list / dict / set / instance __dict__) with the input; the input is never
                         modified, whatever no_copy.
* `deser_override_ctor`: settings.deserialization.override_dataclass_constructors on vs off: identical
                         outcomes, the instance __dict__ is never an input dict; over the pools and
                         over hand-written dataclasses probing the `raw dataclass` predicate
                         (__post_init__, slots, hand-written __init__ / __new__ / __setattr__, frozen,
                         InitVar, init=False, inheritance, metaclass, kw_only, default_factory).
* `method_vs_function` : deserialization_method(T, **kw)(d) == deserialize(T, d, **kw) and
                         serialization_method(T, **kw)(v) == serialize(T, v, **kw).
* `ser_no_copy_check_type`: serialize with no_copy=True vs False (equal data, no shared mutable container
                         when False, value never modified) and check_type=True vs False on well-typed
                         values (the reference images of accepted data), x option sets.
* `ser_pass_through`   : all 2^5 PassThroughOptions flag vectors x type sets {(), classes, predicate}:
                         serialize(T, v, pass_through=p) completed by serialization_default(...) (applied,
                         like a json `default=` hook, to every object that is not JSON data) equals
                         serialize(T, v); what is left untouched is only what p names.
* `settings_vs_arguments`: every option above given through the global settings (left to default in the
                         call) vs as per-call arguments, incl. cross cases where the deserialization and
                         serialization settings differ; same oracles (identical outcomes, no sharing when
                         the effective no_copy is False); settings restored afterwards.
* `deser_pass_through` : deserialize(..., pass_through=classes / predicate): identical outcomes on JSON
                         data (valid and invalid); data holding instances of the named classes give
                         the result of the JSON form, the instances being returned as they are.
"""
from __future__ import annotations

import collections
import copy
import dataclasses
import datetime as dt
import enum
import itertools
import random
import typing
import uuid
from typing import Any, Dict, List, Optional, Tuple

from . import deser_e2e as E
from . import model as M
from . import pools as P
from .model import Ann, AnyT, Coll, Disc, Enm, Fld, Lit, Mapp, NewT, Obj, Opt, Prim, Ref, Tup, Uni
from .opt_common import EXT_TYPES, ExtRef, any_node, call, denan, ext_ref_deserialize, ext_samples, has_obj, jsonable, mutable_containers, new_realm, rs, same_outcome, shared_containers, short
from .roundtrip import EXTRA_OBJS, EXTRA_TYPES, _ser_classes

DESER_OPTS: Dict[str, dict] = {
    "default": {},
    "additional": {"additional_properties": True},
    "fallback": {"fall_back_on_default": True},
    "camel": {"aliaser": E.camel},
    "coerce": {"coerce": True},
}
SER_OPTS: Dict[str, dict] = {
    "default": {},
    "camel": {"aliaser": E.camel},
    "exclude_defaults": {"exclude_defaults": True},
    "exclude_none": {"exclude_none": True},
    "additional": {"additional_properties": True},
}


# serialization-side features of the C04 value space (skip / none_as_undefined); relational oracles only
SK = Obj("dataclass", "SK", (Fld("a", P.INT), Fld("b", Opt(P.INT), has_default=True, default=None, none_as_undefined=True), Fld("c", P.STR, has_default=True, default="d", skip_ser_default=True), Fld("xs", Coll("list", P.INT), factory="list", skip_ser_if_falsy=True)))
SKH = Obj("dataclass", "SKH", (Fld("sk", SK), Fld("sks", Coll("list", SK), factory="list"), Fld("t", Tup((P.INT, SK)), has_default=True, default=None)))
SER_EXTRA_OBJS = (SK,)
SER_EXTRA_TYPES: List[Any] = [SK, Coll("list", SK), Mapp(P.STR, SK), Opt(SK)]


def pool_for(tier: str) -> List[Any]:
    return P.type_pool(tier) + EXTRA_TYPES + EXT_TYPES + SER_EXTRA_TYPES


def has_any(td, realm) -> bool:
    return any_node(td, lambda t: isinstance(t, AnyT), realm)


def has_typeddict(td, realm) -> bool:
    return any_node(td, lambda t: isinstance(t, Obj) and t.kind == "typeddict", realm)


def _deser_involved(meth) -> List[str]:
    try:
        return E.method_classes(getattr(meth, "__self__", None))
    except Exception:
        return []


def _ser_involved(meth) -> List[str]:
    try:
        return sorted(set(_ser_classes(getattr(meth, "__self__", None))))
    except Exception:
        return []


def ids_under_any(td, d, realm, opts: M.Opts, out=None) -> set:
    """ids of the mutable containers of the datum that sit at (or below) a position the type
    description declares as Any (or, for a TypedDict under additional_properties, an undeclared key)"""
    out = out if out is not None else set()
    if isinstance(td, AnyT):
        out.update(mutable_containers(d).keys())
    elif isinstance(td, (Ann, NewT, Opt)):
        ids_under_any(td.t, d, realm, opts, out)
    elif isinstance(td, Ref):
        ids_under_any(realm.descs[td.name], d, realm, opts, out)
    elif isinstance(td, Uni):
        for a in td.alts:
            ids_under_any(a, d, realm, opts, out)
    elif isinstance(td, Disc):
        for a in td.alts:
            ids_under_any(a, d, realm, opts, out)
    elif isinstance(td, Coll):
        if isinstance(d, list):
            for x in d:
                ids_under_any(td.t, x, realm, opts, out)
    elif isinstance(td, Tup):
        if isinstance(d, list):
            for t, x in zip(td.elts, d):
                ids_under_any(t, x, realm, opts, out)
    elif isinstance(td, Mapp):
        if isinstance(d, dict):
            for x in d.values():
                ids_under_any(td.v, x, realm, opts, out)
    elif isinstance(td, Obj):
        if isinstance(d, dict):
            declared = set()
            for f in td.fields:
                if f.flatten:
                    ids_under_any(f.t, d, realm, opts, out)
                elif f.pattern is not None or f.additional:
                    for x in d.values():
                        ids_under_any(f.t.v if isinstance(f.t, Mapp) else f.t, x, realm, opts, out)
                else:
                    a = M.ext_name(td, f, opts)
                    declared.add(a)
                    if a in d:
                        ids_under_any(f.t, d[a], realm, opts, out)
            if td.kind == "typeddict" and opts.additional_properties:
                for k, x in d.items():
                    if k not in declared:
                        out.update(mutable_containers(x).keys())
    return out


def instance_dicts(x) -> Dict[int, Any]:
    out: Dict[int, Any] = {}
    seen = set()

    def rec(y):
        if id(y) in seen:
            return
        seen.add(id(y))
        if isinstance(y, dict):
            for k, v in y.items():
                rec(v)
        elif isinstance(y, (list, tuple, set, frozenset)):
            for v in y:
                rec(v)
        elif dataclasses.is_dataclass(y) and not isinstance(y, type):
            d = getattr(y, "__dict__", None)
            if d is not None:
                out[id(d)] = d
            for f in dataclasses.fields(y):
                rec(getattr(y, f.name, None))

    rec(x)
    return out


def input_dicts(x) -> Dict[int, Any]:
    return {i: c for i, c in mutable_containers(x).items() if isinstance(c, dict)}


def key_value_mutants(d, limit: int = 24) -> List[Any]:
    """invalid data with several violations in one item: at every object / mapping of the datum a key
    is replaced by other keys ('' / one letter / upper case / suffixed / non-string) while its value is
    replaced by a value of another class (so that key and value of the same item are both invalid)"""
    out: List[Any] = []
    bad_values = [[], None, "s", 1.5, True, {"k": []}]

    def rec(x, rebuild):
        if len(out) >= limit:
            return
        if isinstance(x, dict):
            for i, k in enumerate(list(x)[:3]):
                rest = {kk: vv for kk, vv in x.items() if kk != k}
                new_keys = ["", str(k)[:1], str(k).upper() + "!", 1] if isinstance(k, str) else ["k"]
                for j, nk in enumerate(new_keys):
                    bv = bad_values[(i + j) % len(bad_values)]
                    if type(bv) is type(x[k]):
                        bv = bad_values[(i + j + 1) % len(bad_values)]
                    out.append(rebuild({**rest, nk: copy.deepcopy(bv)}))
                    out.append(rebuild({**x, nk: copy.deepcopy(bv)}))
                rec(x[k], lambda v, k=k: rebuild({**x, k: v}))
        elif isinstance(x, list):
            for i in range(min(len(x), 2)):
                rec(x[i], lambda v, i=i: rebuild(x[:i] + [v] + x[i + 1 :]))

    rec(d, lambda v: v)
    return out[:limit]


def data_for(td, tier, rng, aliaser=None) -> List[Any]:
    P.set_sample_aliaser(aliaser)
    try:
        base = (ext_samples(td) if aliaser is None else []) + P.data_pool(td, tier, rng)
        seen = {repr(x) + str(P._typesig(x)) for x in base}
        for s in (ext_samples(td) if aliaser is None else []) + P.valid_samples(td)[:4] + [{"a": 1}, {"ab": {"a": 1}}]:
            for m in key_value_mutants(copy.deepcopy(s), 24 if tier == "quick" else 60):
                k = repr(m) + str(P._typesig(m))
                if k not in seen:
                    seen.add(k)
                    base.append(m)
        return base
    finally:
        P.set_sample_aliaser(None)


# ---------------------------------------------------------------------------------------------


def run(report, tier: str, seed: int):
    realm = new_realm("opt", EXTRA_OBJS + SER_EXTRA_OBJS)
    try:
        run_deser_no_copy(report, tier, seed, realm)
        run_override_ctor(report, tier, seed, realm)
        run_method_vs_function(report, tier, seed, realm)
        run_ser_options(report, tier, seed, realm)
        run_ser_pass_through(report, tier, seed, realm)
        run_deser_pass_through(report, tier, seed, realm)
        run_settings_vs_arguments(report, tier, seed, realm)
    finally:
        realm.dispose()


def _realize(report, td, realm):
    try:
        return M.realize(td, realm)
    except Exception as e:
        report.tool_error(f"cannot realise {short(td)}: {e!r}")
        return None


def run_deser_no_copy(report, tier, seed, realm):
    from apischema.deserialization import deserialization_method

    rng = random.Random(seed)
    pool = pool_for(tier)
    log = report.driver("deser_no_copy", bound=f"{len(pool)} type descriptions x option sets {list(DESER_OPTS)} x per-type datum pools (valid samples, boundary mutants, key-and-value mutants of every object / mapping item, atoms, seeded random values; valid and invalid) x no_copy in {{True, False}}")
    log.rule("case = (type, option set, datum) run with no_copy=True and no_copy=False; distinct by the triple; non-trivial when the datum is a container or the type is not a bare primitive")
    for td in pool:
        tp = _realize(report, td, realm)
        if tp is None:
            continue
        anyish = has_any(td, realm)
        for optname, kw in DESER_OPTS.items():
            if optname in ("additional", "fallback", "camel") and not has_obj(td, realm):
                continue
            try:
                m_t = deserialization_method(tp, no_copy=True, **kw)
                m_f = deserialization_method(tp, no_copy=False, **kw)
            except Exception as e:
                log.fail(f"compile:{short(td)}:{optname}:{type(e).__name__}", f"deserialization_method({short(td)}, {optname}) raised {e!r}", {"type": short(td), "options": optname}, observed=repr(e), functions_involved=[])
                continue
            extras_kept = optname == "additional" and has_typeddict(td, realm)
            involved = None
            for d in data_for(td, tier, rng, kw.get("aliaser")):
                before = copy.deepcopy(d)
                d_f = copy.deepcopy(d)
                nontrivial = isinstance(d, (list, dict)) or not isinstance(td, Prim)
                log.case((short(td), optname, repr(d), str(P._typesig(d))), nontrivial, sample={"type": short(td), "options": optname, "datum": d} if nontrivial else None)
                a = call(m_t, d)
                b = call(m_f, d_f)

                def fail(kind, summary, observed=None, expected=None):
                    nonlocal involved
                    if involved is None:
                        involved = sorted(set(_deser_involved(m_t) + _deser_involved(m_f)))
                    log.fail(f"{kind}:{short(td)}:{optname}:{before!r}", f"{kind}: deserialize({short(td)}, {before!r}, {optname}): {summary}", {"type": short(td), "options": optname, "datum": repr(before)}, observed=rs(observed, 600), expected=rs(expected, 600), functions_involved=involved)

                if a[0] == "crash" or b[0] == "crash":
                    if a[0] != b[0] or a[1] != b[1]:
                        fail("no_copy-differs", f"no_copy=True gives {rs(a, 200)}, no_copy=False gives {rs(b, 200)}", a, b)
                    continue
                if not E.deep_eq(before, d):
                    fail("input-modified-no_copy=True", f"the input was changed to {rs(d, 200)}", d, before)
                if not E.deep_eq(before, d_f):
                    fail("input-modified-no_copy=False", f"the input was changed to {rs(d_f, 200)}", d_f, before)
                if not same_outcome(a, b):
                    fail("no_copy-differs", f"no_copy=True gives {rs(a, 200)}, no_copy=False gives {rs(b, 200)}", a, b)
                    continue
                if b[0] == "ok":
                    shared = shared_containers(b[1], d_f)
                    if shared:
                        anyids = ids_under_any(td, d_f, realm, M.Opts(additional_properties=kw.get("additional_properties", False), aliaser=kw.get("aliaser"))) if (anyish or extras_kept) else set()
                        where = "-under-Any" if all(id(c) in anyids for c in shared) else ""
                        fail("shares-container-no_copy=False" + where, f"the result {rs(b[1], 200)} shares the mutable container(s) {rs(shared, 200)} with the input", shared, [])
                if a[0] == "ok":
                    bad = [c for i, c in instance_dicts(a[1]).items() if i in input_dicts(d)]
                    if bad:
                        fail("instance-dict-is-input", f"an instance __dict__ of the result is the input dict {rs(bad, 200)}", bad, [])
    return log


# ---------------------------------------------------------------------------------------------
# override_dataclass_constructors


def _special_classes(realm) -> List[Tuple[str, Any, List[Any]]]:
    """(name, class, data) probing every conjunct of the `raw dataclass` predicate"""
    ns: Dict[str, Any] = {}
    src = '''
import dataclasses
from dataclasses import dataclass, field, InitVar
from typing import Any, ClassVar, Dict, List, Optional

@dataclass
class Plain:
    a: int
    b: str = "x"
    c: List[int] = field(default_factory=list)
    d: Optional[Dict[str, int]] = None

@dataclass
class WithPostInit:
    a: int
    b: int = 1
    def __post_init__(self):
        self.b = self.b + self.a

@dataclass
class WithInitFalse:
    a: int
    total: int = field(init=False, default=7)

@dataclass
class WithInitVar:
    a: int
    scale: InitVar[int] = 2
    def __post_init__(self, scale):
        self.a = self.a * scale

@dataclass(init=False)
class HandInit:
    a: int
    b: int = 0
    def __init__(self, a, b=0):
        self.a = a * 2
        self.b = b - 1

class SubHand(Plain):
    def __init__(self, a, b="x", c=None, d=None):
        super().__init__(a * 3, b + "!", c if c is not None else [], d)

@dataclass
class HandInitKw:
    a: int
    b: int = 0
    def __init__(self, **kwargs):
        self.a = kwargs["a"] + 100
        self.b = kwargs.get("b", 5)

@dataclass
class HandNew:
    a: int
    b: int = 3
    def __new__(cls, *args, **kwargs):
        obj = super().__new__(cls)
        obj.created = True
        return obj

@dataclass
class HandSetattr:
    a: int
    b: str = "x"
    def __setattr__(self, name, value):
        object.__setattr__(self, name, value * 2)

@dataclass(frozen=True)
class Frozen:
    a: int
    b: str = "x"
    c: tuple = ()

@dataclass(frozen=True)
class FrozenPost:
    a: int
    b: int = 0
    def __post_init__(self):
        object.__setattr__(self, "b", self.a + 1)

@dataclass(slots=True)
class Slotted:
    a: int
    b: str = "x"

class Meta(type):
    def __call__(cls, *args, **kwargs):
        obj = super().__call__(*args, **kwargs)
        obj.via_meta = True
        return obj

@dataclass
class WithMeta(metaclass=Meta):
    a: int
    b: int = 0

@dataclass
class Base:
    a: int
    b: str = "base"

@dataclass
class Child(Base):
    c: float = 1.5
    d: List[str] = field(default_factory=lambda: ["d"])

@dataclass
class ChildOfPost(WithPostInit):
    c: int = 0

@dataclass(kw_only=True)
class KwOnly:
    a: int
    b: int = 2

@dataclass
class WithClassVar:
    a: int
    K: ClassVar[int] = 3
    b: int = K

@dataclass
class SelfField:
    self: int
    other: int = 0

@dataclass
class Holder:
    plain: Plain
    post: WithPostInit
    slotted: Optional[Slotted] = None
    many: List[Frozen] = field(default_factory=list)

@dataclass(eq=False)
class NoEq:
    a: int
    b: int = 0

@dataclass
class WithProps:
    a: int
    _b: int = 0
    @property
    def double(self):
        return self.a * 2
'''
    mod = realm.module
    exec(compile(src, f"<{realm.name}.special>", "exec"), mod.__dict__)
    out = []
    names = ["Plain", "SubHand", "WithPostInit", "WithInitFalse", "WithInitVar", "HandInit", "HandInitKw", "HandNew", "HandSetattr", "Frozen", "FrozenPost", "Slotted", "WithMeta", "Base", "Child", "ChildOfPost", "KwOnly", "WithClassVar", "SelfField", "Holder", "NoEq", "WithProps"]
    for n in names:
        cls = getattr(mod, n)
        cls.__module__ = realm.name
        flds = [f for f in dataclasses.fields(cls) if f.init]
        full: Dict[str, Any] = {}
        for f in flds:
            full[f.name] = _sample_for(f.type if not isinstance(f.type, dataclasses.InitVar) else f.type.type, mod)
        required = {f.name: full[f.name] for f in flds if f.default is dataclasses.MISSING and f.default_factory is dataclasses.MISSING}
        data = [full, required, {}, {**full, "zzz": 1}, {k: "bad" for k in full}, 3, None, [full]]
        if n == "WithInitVar":
            data += [{"a": 3, "scale": 5}, {"a": 3}]
        if n == "Holder":
            data += [{"plain": {"a": 1}, "post": {"a": 2, "b": 3}, "slotted": {"a": 4}, "many": [{"a": 5}, {"a": 6, "b": "y", "c": []}]}, {"plain": {"a": "x"}, "post": {}}]
        out.append((n, cls, data))
    return out


def _sample_for(tp, mod):
    if tp is int:
        return 3
    if tp is str:
        return "s"
    if tp is float:
        return 2.5
    if tp is tuple:
        return []
    origin = typing.get_origin(tp)
    args = typing.get_args(tp)
    if origin is list:
        return [_sample_for(args[0], mod), _sample_for(args[0], mod)]
    if origin is dict:
        return {"k": _sample_for(args[1], mod)}
    if origin is typing.Union:
        return _sample_for(args[0], mod)
    if dataclasses.is_dataclass(tp):
        return {f.name: _sample_for(f.type, mod) for f in dataclasses.fields(tp) if f.init and f.default is dataclasses.MISSING and f.default_factory is dataclasses.MISSING}
    return 1


def state_of(x):
    """the observable state of a value: classes, dataclass fields, *and* every instance attribute"""
    if dataclasses.is_dataclass(x) and not isinstance(x, type):
        attrs = {}
        for f in dataclasses.fields(x):
            attrs[f.name] = state_of(getattr(x, f.name, "<unset>"))
        d = getattr(x, "__dict__", None)
        if d is not None:
            for k, v in d.items():
                attrs.setdefault(k, state_of(v))
        return (type(x).__qualname__, sorted(attrs.items(), key=lambda kv: kv[0]))
    if isinstance(x, (list, tuple)):
        return (type(x).__name__, [state_of(y) for y in x])
    if isinstance(x, (set, frozenset)):
        return (type(x).__name__, sorted((state_of(y) for y in x), key=repr))
    if isinstance(x, dict):
        return ("dict", [(repr(k), state_of(v)) for k, v in x.items()])
    if isinstance(x, float) and x != x:
        return ("float", "nan")
    return (type(x).__name__, repr(x))


def run_override_ctor(report, tier, seed, realm):
    from apischema import cache as ap_cache
    from apischema import settings
    from apischema.deserialization import deserialization_method

    rng = random.Random(seed + 2)
    pool = [td for td in pool_for(tier) if has_obj(td, realm)]
    specials = _special_classes(realm)
    log = report.driver(
        "deser_override_ctor",
        bound=f"{len(pool)} object-holding type descriptions x option sets {{default, additional, fallback, camel}} x datum pools x no_copy in {{True, False}}, plus {len(specials)} hand-written dataclasses (post_init, InitVar, init=False, hand-written __init__ / __new__ / __setattr__, frozen, slots, metaclass, inheritance, kw_only, ClassVar, field named self, nested) x 8+ data each; each with settings.deserialization.override_dataclass_constructors off and on",
    )
    log.rule("case = (type, options, no_copy, datum) evaluated under both settings: identical outcome (classes, dataclass fields and every other instance attribute; identical error lists); no instance __dict__ is an input dict; distinct by the tuple")
    cases: List[Tuple[str, Any, str, dict, Any]] = []
    for td in pool:
        tp = _realize(report, td, realm)
        if tp is None:
            continue
        for optname in ("default", "additional", "fallback", "camel"):
            kw = DESER_OPTS[optname]
            data = data_for(td, tier, rng, kw.get("aliaser"))
            if optname != "default":
                data = data[: max(12, len(data) // 4)]
            for d in data:
                for nc in (True, False):
                    cases.append((short(td), tp, f"{optname},no_copy={nc}", {**kw, "no_copy": nc}, d))
    for name, cls, data in specials:
        for d in data:
            for nc in (True, False):
                for optname in ("default", "additional"):
                    cases.append((name, cls, f"{optname},no_copy={nc}", {**DESER_OPTS[optname], "no_copy": nc}, d))
    prev = settings.deserialization.override_dataclass_constructors
    results: Dict[bool, List[Any]] = {}
    try:
        for flag in (False, True):
            settings.deserialization.override_dataclass_constructors = flag
            ap_cache.reset()
            res = []
            for tname, tp, optname, kw, d in cases:
                d2 = copy.deepcopy(d)
                try:
                    meth = deserialization_method(tp, **kw)
                except Exception as e:
                    res.append((("crash", f"compile {type(e).__name__}: {e}"), None, d2, None))
                    continue
                r = call(meth, d2)
                bad = []
                if r[0] == "ok":
                    ind = input_dicts(d2)
                    bad = [c for i, c in instance_dicts(r[1]).items() if i in ind]
                res.append((r, bad, d2, meth))
            results[flag] = res
    finally:
        settings.deserialization.override_dataclass_constructors = prev
        ap_cache.reset()
    for (tname, tp, optname, kw, d), off, on in zip(cases, results[False], results[True]):
        log.case((tname, optname, repr(d), str(P._typesig(d))), True, sample={"type": tname, "options": optname, "datum": d} if isinstance(d, dict) and on[0][0] == "ok" else None)

        def fail(kind, summary, observed=None, expected=None):
            log.fail(f"{kind}:{tname}:{optname}:{d!r}", f"{kind}: deserialize({tname}, {d!r}, {optname}): {summary}", {"type": tname, "options": optname, "datum": repr(d)}, observed=rs(observed, 600), expected=rs(expected, 600), functions_involved=sorted(set(_deser_involved(on[3]) + ["FieldsConstructor", "is_raw_dataclass"])))

        a, b = off[0], on[0]
        same = a[0] == b[0] and (state_of(a[1]) == state_of(b[1]) if a[0] == "ok" else a[1] == b[1])
        if not same:
            fail("override-ctor-differs", f"override_dataclass_constructors=False gives {rs(a, 250)} {rs(state_of(a[1]) if a[0] == 'ok' else '', 200)}, True gives {rs(b, 250)} {rs(state_of(b[1]) if b[0] == 'ok' else '', 200)}", b, a)
        for flag, r in ((False, off), (True, on)):
            if r[1]:
                fail(f"instance-dict-is-input-override={flag}", f"an instance __dict__ of the result is the input dict {rs(r[1], 200)}", r[1], [])
            if not E.deep_eq(d, r[2]):
                fail(f"input-modified-override={flag}", f"the input was changed to {rs(r[2], 200)}", r[2], d)
    return log


# ---------------------------------------------------------------------------------------------


def values_of(td, realm, tier, rng, mopts=None) -> List[Any]:
    """well-typed values: the reference images of the accepted data of the pools (distinct)"""
    mopts = mopts or M.Opts()
    out, seen = [], set()
    for d in data_for(td, tier, rng):
        exp = ext_ref_deserialize(td, copy.deepcopy(d), realm, mopts)
        if exp[0] != "ok":
            continue
        k = repr(exp[1]) + type(exp[1]).__name__
        if k not in seen:
            seen.add(k)
            out.append(exp[1])
    return out


def run_method_vs_function(report, tier, seed, realm):
    from apischema import deserialize, serialize
    from apischema.deserialization import deserialization_method
    from apischema.serialization import serialization_method

    rng = random.Random(seed + 3)
    pool = pool_for(tier)
    log = report.driver("method_vs_function", bound=f"{len(pool)} type descriptions x deserialization option sets {list(DESER_OPTS)} (+ no_copy=False) x <= {12 if tier == 'quick' else 60} data each, and serialization option sets {list(SER_OPTS)} (+ no_copy=False, check_type=True) x the values")
    log.rule("case = (type, options, datum or value): the precomputed method and the function give identical outcomes (values with classes / error lists); distinct by the triple")
    n = 12 if tier == "quick" else 60
    for td in pool:
        tp = _realize(report, td, realm)
        if tp is None:
            continue
        for optname, kw0 in list(DESER_OPTS.items()) + [("no_copy=False", {"no_copy": False})]:
            if optname in ("additional", "fallback", "camel") and not has_obj(td, realm):
                continue
            kw = dict(kw0)
            data = data_for(td, "quick", rng, kw.get("aliaser"))
            rng.shuffle(data)
            try:
                meth = deserialization_method(tp, **kw)
            except Exception:
                continue  # reported by deser_no_copy
            for d in data[:n]:
                a = call(meth, copy.deepcopy(d))
                b = call(deserialize, tp, copy.deepcopy(d), **kw)
                log.case(("deser", short(td), optname, repr(d)), True)
                if not same_outcome(a, b):
                    log.fail(f"method-vs-function:{short(td)}:{optname}:{d!r}", f"deserialization_method({short(td)}, {optname})({d!r}) = {rs(a, 200)} but deserialize(...) = {rs(b, 200)}", {"type": short(td), "options": optname, "datum": repr(d)}, observed=rs(a), expected=rs(b), functions_involved=_deser_involved(meth))
        values = values_of(td, realm, "quick", rng)[:n]
        for optname, kw0 in list(SER_OPTS.items()) + [("no_copy=False", {"no_copy": False}), ("check_type", {"check_type": True})]:
            if optname in ("camel", "exclude_defaults", "exclude_none", "additional") and not has_obj(td, realm):
                continue
            try:
                meth = serialization_method(tp, **kw0)
            except Exception:
                continue  # not serializable: C04's business
            for v in values:
                a = call(meth, v)
                b = call(serialize, tp, v, **kw0)
                log.case(("ser", short(td), optname, repr(v)), True)
                if not same_outcome(a, b):
                    log.fail(f"method-vs-function-ser:{short(td)}:{optname}:{v!r}", f"serialization_method({short(td)}, {optname})({v!r}) = {rs(a, 200)} but serialize(...) = {rs(b, 200)}", {"type": short(td), "options": optname, "value": repr(v)}, observed=rs(a), expected=rs(b), functions_involved=_ser_involved(meth))
    return log


def run_ser_options(report, tier, seed, realm):
    from apischema.serialization import serialization_method

    rng = random.Random(seed + 4)
    pool = pool_for(tier)
    log = report.driver("ser_no_copy_check_type", bound=f"({len(pool)} type descriptions + the hand-written types of ser_pass_through: UUID / date / tuple / dataclass / enum / Any / dynamic conversions) x option sets {list(SER_OPTS)} x the reference images of all accepted data of the datum pools x {{no_copy True / False, check_type False / True}}")
    log.rule("case = (type, option set, value): serialize with no_copy=True, with no_copy=False and with check_type=True; distinct by the triple; non-trivial when the value is a container / object")
    targets: List[Any] = []
    for td in pool:
        tp = _realize(report, td, realm)
        if tp is not None:
            targets.append((short(td), tp, values_of(td, realm, tier, rng), has_any(td, realm), has_obj(td, realm), {}))
    for h in hand_types(realm):
        targets.append((h[0], h[1], h[2], h[3], True, h[4] if len(h) > 4 else {}))
    for tname, tp, values, anyish, objish, extra_kw in targets:
        for optname, kw0 in SER_OPTS.items():
            if optname != "default" and not objish:
                continue
            kw = {**kw0, **extra_kw}
            try:
                m_t = serialization_method(tp, no_copy=True, **kw)
                m_f = serialization_method(tp, no_copy=False, **kw)
                m_ct = serialization_method(tp, no_copy=True, check_type=True, **kw)
                m_ctf = serialization_method(tp, no_copy=False, check_type=True, **kw)
            except Exception:
                continue  # not serializable (C04's findings)
            involved = None
            for v in values:
                before = copy.deepcopy(v)
                nontrivial = isinstance(v, (list, dict, tuple, set, frozenset)) or dataclasses.is_dataclass(v)
                log.case((tname, optname, repr(v), type(v).__name__), nontrivial, sample={"type": tname, "options": optname, "value": repr(v)} if nontrivial else None)

                def fail(kind, summary, observed=None, expected=None):
                    nonlocal involved
                    if involved is None:
                        involved = sorted(set(_ser_involved(m_t) + _ser_involved(m_f) + _ser_involved(m_ct)))
                    log.fail(f"{kind}:{tname}:{optname}:{before!r}", f"{kind}: serialize({tname}, {before!r}, {optname}): {summary}", {"type": tname, "options": optname, "value": repr(before)}, observed=rs(observed, 600), expected=rs(expected, 600), functions_involved=involved)

                a = call(m_t, v)
                if not E.deep_eq(denan(before), denan(v)):
                    fail("value-modified-no_copy=True", f"the value was changed to {rs(v, 200)}", v, before)
                    v = copy.deepcopy(before)
                b = call(m_f, v)
                if not E.deep_eq(denan(before), denan(v)):
                    fail("value-modified-no_copy=False", f"the value was changed to {rs(v, 200)}", v, before)
                    v = copy.deepcopy(before)
                if not same_outcome(a, b):
                    fail("ser-no_copy-differs", f"no_copy=True gives {rs(a, 200)}, no_copy=False gives {rs(b, 200)}", a, b)
                elif b[0] == "ok":
                    shared = shared_containers(b[1], v)
                    if shared:
                        fail("ser-shares-container-no_copy=False" + ("-under-Any" if anyish else ""), f"the result {rs(b[1], 200)} shares the mutable container(s) {rs(shared, 200)} with the value", shared, [])
                if a[0] != "ok":
                    continue  # serialization of a well-typed value failing: C04's business
                for name, m, base in (("check_type=True,no_copy=True", m_ct, a), ("check_type=True,no_copy=False", m_ctf, b)):
                    c = call(m, v)
                    if not same_outcome(base, c):
                        fail(f"check_type-differs", f"{name} gives {rs(c, 200)}, check_type=False gives {rs(base, 200)} for a well-typed value", c, base)
    return log


# ---------------------------------------------------------------------------------------------
# PassThroughOptions


def plain(x, default=None, keys=True):
    """what a JSON library makes of data, calling `default` on every object it does not know (like
    json.dumps(default=...), but building data and also applied to keys)"""
    t = type(x)
    if x is None or t in (bool, int, float, str):
        return x
    if isinstance(x, enum.Enum) and not isinstance(x, (int, str, float)):
        if default is None:
            return x
        return plain(default(x), default)
    if isinstance(x, bool):
        return bool(x)
    if isinstance(x, int):
        return int(x)
    if isinstance(x, float):
        return float(x)
    if isinstance(x, str):
        return str.__str__(x) if not isinstance(x, enum.Enum) else x.value
    if t in (list, tuple):
        return [plain(y, default) for y in x]
    if t is dict:
        return {plain(k, default): plain(v, default) for k, v in x.items()}
    if default is None:
        return x
    return plain(default(x), default)


def untouched(x, out=None) -> List[Any]:
    """the objects of serialized data that are not JSON data (left untouched by pass-through)"""
    out = out if out is not None else []
    t = type(x)
    if x is None or t in (bool, int, float, str):
        return out
    if t is list:
        for y in x:
            untouched(y, out)
        return out
    if t is dict:
        for k, v in x.items():
            untouched(k, out)
            untouched(v, out)
        return out
    out.append(x)
    if t is tuple or isinstance(x, (collections.deque,)):
        for y in x:
            untouched(y, out)
    elif isinstance(x, collections.abc.Mapping):
        for k, v in x.items():
            untouched(k, out)
            untouched(v, out)
    elif dataclasses.is_dataclass(x):
        for f in dataclasses.fields(x):
            untouched(getattr(x, f.name, None), out)
    return out


def allowed_untouched(obj, p, type_pred, any_in_type: bool) -> bool:
    if isinstance(obj, (int, str, float)):
        return True  # subclasses of primitives (and Enum subclasses inheriting them): documented identity
    if type_pred(type(obj)):
        return True
    if p.any and any_in_type:
        return True
    if isinstance(obj, enum.Enum):
        return p.enums
    if isinstance(obj, tuple) and not (dataclasses.is_dataclass(obj)):
        return p.tuple or p.collections
    if dataclasses.is_dataclass(obj):
        return p.dataclasses
    if isinstance(obj, (set, frozenset)):
        return False
    if isinstance(obj, (collections.abc.Collection,)):
        return p.collections
    return False


def hand_types(realm) -> List[Any]:
    if not hasattr(realm, "_hand_types"):
        realm._hand_types = _hand_ser_types(realm)
    return realm._hand_types


def _hand_ser_types(realm) -> List[Any]:
    """(name, type, values, holds Any[, extra serialize kwargs]) with standard-library types for the `types` sets"""
    A = realm.built["A"]
    Color = realm.built["Color"]
    u1, u2 = uuid.UUID(int=1), uuid.UUID(int=2**100 + 7)
    d1, d2 = dt.date(2020, 1, 2), dt.date(1999, 12, 31)
    SV = dataclasses.make_dataclass(
        "SV",
        [("id", uuid.UUID), ("day", dt.date, dataclasses.field(default=d1)), ("tags", typing.Tuple[str, ...], dataclasses.field(default=())), ("color", Color, dataclasses.field(default=Color.R)), ("inner", A, dataclasses.field(default_factory=lambda: A(1))), ("anyv", typing.Any, dataclasses.field(default=None)), ("ids", typing.List[uuid.UUID], dataclasses.field(default_factory=list))],
    )
    SV.__module__ = realm.name
    setattr(realm.module, "SV", SV)
    SimpleDC = dataclasses.make_dataclass("SimpleDC", [("x", int), ("y", str, dataclasses.field(default="y")), ("zs", typing.List[int], dataclasses.field(default_factory=list))])
    SimpleDC.__module__ = realm.name
    setattr(realm.module, "SimpleDC", SimpleDC)
    DCT = dataclasses.make_dataclass("DCT", [("pair", typing.Tuple[int, str]), ("simple", SimpleDC), ("when", typing.Optional[dt.date], dataclasses.field(default=None))])
    DCT.__module__ = realm.name
    setattr(realm.module, "DCT", DCT)
    # dynamic conversions (field metadata and the `conversion=` argument) on types the options name:
    # they belong to the `remaining options`, the result must not depend on pass_through either
    from apischema.conversions import Conversion
    from apischema.metadata import conversion as conv_md

    def to_hex(u: uuid.UUID) -> str:
        return u.hex

    def to_ordinal(d: dt.date) -> int:
        return d.toordinal()

    def a_to_int(a: A) -> int:  # type: ignore
        return a.a

    def color_name(c: Color) -> str:  # type: ignore
        return c.name

    def tup_to_str(t: typing.Tuple[int, int]) -> str:
        return f"{t[0]}x{t[1]}"

    a_to_int.__annotations__ = {"a": A, "return": int}
    color_name.__annotations__ = {"c": Color, "return": str}
    Conv = dataclasses.make_dataclass(
        "Conv",
        [
            ("plain", uuid.UUID),
            ("compact", uuid.UUID, dataclasses.field(metadata=conv_md(serialization=to_hex))),
            ("day", dt.date, dataclasses.field(default=d1, metadata=conv_md(serialization=to_ordinal))),
            ("inner", A, dataclasses.field(default_factory=lambda: A(7), metadata=conv_md(serialization=a_to_int))),
            ("color", Color, dataclasses.field(default=Color.G, metadata=conv_md(serialization=color_name))),
            ("size", typing.Tuple[int, int], dataclasses.field(default=(1, 2), metadata=conv_md(serialization=tup_to_str))),
            ("days", typing.List[dt.date], dataclasses.field(default_factory=list)),
        ],
    )
    Conv.__module__ = realm.name
    setattr(realm.module, "Conv", Conv)
    src = '''
import dataclasses, datetime, typing, uuid
from apischema import serialized

@dataclasses.dataclass
class WithSerialized:
    items: typing.List[int]
    owner: A
    when: typing.Optional[datetime.date] = None

    @serialized
    @property
    def total(self) -> int:
        return sum(self.items)

    @serialized
    def doubled(self) -> typing.List[int]:
        return [2 * i for i in self.items]

    @serialized("ownerTuple")
    def owner_tuple(self) -> typing.Tuple[int, str]:
        return (self.owner.a, self.owner.b)

    @serialized
    def stamp(self) -> typing.Optional[uuid.UUID]:
        return uuid.UUID(int=len(self.items)) if self.items else None
'''
    exec(compile(src, f"<{realm.name}.serialized>", "exec"), realm.module.__dict__)
    WithSerialized = realm.module.WithSerialized
    WithSerialized.__module__ = realm.name
    ws_values = [WithSerialized([], A(1)), WithSerialized([1, 2], A(2, "o"), d1)]
    return [
        ("WithSerialized", WithSerialized, ws_values, False),
        ("List[WithSerialized]", typing.List[WithSerialized], [ws_values], False),
        ("Conv", Conv, [Conv(u1, u1), Conv(u2, u1, d2, A(3, "q"), Color.R, (3, 4), [d1, d2])], False),
        ("List[Conv]", typing.List[Conv], [[Conv(u1, u2)]], False),
        ("UUID/conversion=to_hex", uuid.UUID, [u1, u2], False, {"conversion": to_hex}),
        ("date/conversion=to_ordinal", dt.date, [d1], False, {"conversion": to_ordinal}),
        ("A/conversion=a_to_int", A, [A(5)], False, {"conversion": a_to_int}),
        ("Color/conversion=color_name", Color, [Color.R], False, {"conversion": color_name}),
        ("Tuple[int,int]/conversion=tup_to_str", typing.Tuple[int, int], [(5, 6)], False, {"conversion": tup_to_str}),
        ("List[UUID]", typing.List[uuid.UUID], [[], [u1, u2]], False),
        ("Dict[str,date]", typing.Dict[str, dt.date], [{}, {"a": d1, "b": d2}], False),
        ("Dict[UUID,int]", typing.Dict[uuid.UUID, int], [{u1: 1}], False),
        ("Tuple[UUID,int]", typing.Tuple[uuid.UUID, int], [(u1, 1)], False),
        ("Tuple[date,...]", typing.Tuple[dt.date, ...], [(), (d1, d2)], False),
        ("Optional[date]", typing.Optional[dt.date], [None, d1], False),
        ("Union[UUID,int]", typing.Union[uuid.UUID, int], [u1, 3], False),
        ("Sequence[UUID]", typing.Sequence[uuid.UUID], [[u1], (u1, u2)], False),
        ("Collection[int]", typing.Collection[int], [[1, 2], (1, 2), collections.deque([3])], False),
        ("Mapping[str,Tuple[int,date]]", typing.Mapping[str, typing.Tuple[int, dt.date]], [{"k": (1, d1)}], False),
        ("Set[UUID]", typing.Set[uuid.UUID], [{u1}], False),
        ("FrozenSet[Color]", typing.FrozenSet[Color], [frozenset({Color.R})], False),
        ("SV", SV, [SV(u1), SV(u2, d2, ("a", "b"), Color.G, A(2, "z"), {"k": [1, (2, 3)]}, [u1]), SV(u1, anyv=SV(u2)), SV(u1, anyv=[u2, Color.R, (1,)])], True),
        ("List[SV]", typing.List[SV], [[SV(u1), SV(u2, tags=("t",))]], True),
        ("SimpleDC", SimpleDC, [SimpleDC(1), SimpleDC(2, "b", [1, 2])], False),
        ("List[SimpleDC]", typing.List[SimpleDC], [[SimpleDC(1), SimpleDC(2, "b", [3])]], False),
        ("DCT", DCT, [DCT((1, "a"), SimpleDC(1)), DCT((2, "b"), SimpleDC(2, "q", [1]), d2)], False),
        ("Any", typing.Any, [u1, [u1, d1], {"k": (1, 2)}, SimpleDC(1), Color.R, {1, 2}], True),
        ("List[Any]", typing.List[typing.Any], [[1, "a", u1, (1, 2), SimpleDC(3)]], True),
    ]


def run_ser_pass_through(report, tier, seed, realm):
    from apischema import PassThroughOptions, serialization_default
    from apischema.serialization import serialization_method

    rng = random.Random(seed + 5)
    pool = pool_for(tier)
    flags = list(itertools.product((False, True), repeat=5))
    typesets: List[Tuple[str, Any]] = [("types=()", ()), ("types=(UUID,)", (uuid.UUID,)), ("types=(UUID,date,A)", None), ("types=predicate", None)]
    hand = hand_types(realm)
    hand_names = {h[0] for h in hand}
    A = realm.built["A"]
    typesets[2] = ("types=(UUID,date,A)", (uuid.UUID, dt.date, A))
    typesets[3] = ("types=predicate", lambda t: t in (dt.date, realm.built["Color"]))
    nvals = 4 if tier == "quick" else 12
    log = report.driver(
        "ser_pass_through",
        bound=f"all {len(flags)} PassThroughOptions flag vectors (any, collections, dataclasses, enums, tuple) x {len(typesets)} `types` sets ((), classes, classes incl. a dataclass, predicate) x ({len(pool)} type descriptions x <= {nvals} values + {len(hand)} hand-written types holding UUID / date / tuple / dataclass / enum / Any) x {{default options, camelCase aliaser, exclude_defaults}}",
        label="B",
    )
    log.rule("case = (type, options, flag vector, types set, value): serialize with pass_through completed by serialization_default equals serialize without; untouched objects only of the kinds named; the flag vectors are enumerated completely, types and values are bounded; non-trivial when the pass-through output differs from the plain one or holds an untouched object")

    def pred_of(ts):
        if callable(ts):
            return ts
        return lambda t: t in ts

    targets: List[Any] = []
    for td in pool:
        tp = _realize(report, td, realm)
        if tp is None:
            continue
        vals = values_of(td, realm, "quick", rng)
        rng.shuffle(vals)
        targets.append((short(td), tp, vals[:nvals], has_any(td, realm)))
    targets += hand
    flat_names = {short(td) for td in pool if any_node(td, lambda t: isinstance(t, Obj) and any(f.flatten for f in t.fields), realm)}
    for tname, tp, vals, anyish, *rest in targets:
        if not vals:
            continue
        flat = tname in flat_names
        extra_kw = rest[0] if rest else {}
        names_classes = "name='A'" in tname or "Color" in tname
        for optname, kw0 in (("default", {}), ("camel", {"aliaser": E.camel}), ("exclude_defaults", {"exclude_defaults": True})):
            kw = {**kw0, **extra_kw}
            dkw = dict(kw0)
            if optname != "default" and not any(dataclasses.is_dataclass(v) or isinstance(v, (list, dict, tuple)) for v in vals):
                continue
            try:
                base_m = serialization_method(tp, **kw)
            except Exception:
                continue  # not serializable: C04's findings
            default = serialization_default(**dkw)
            bases = [call(base_m, v) for v in vals]
            for fl in flags:
                for tsname, ts in typesets:
                    if tier == "quick" and tname not in hand_names and ((ts or optname != "default") and sum(fl) not in (0, 1, 5) or (ts and sum(fl) == 1 and not names_classes)):
                        continue  # quick tier: the pool types meet the type sets / non-default options with 0 / 1 / 5 flags only; all 32 vectors with default options, and everything for the hand-written types
                    p = PassThroughOptions(any=fl[0], collections=fl[1], dataclasses=fl[2], enums=fl[3], tuple=fl[4], types=ts)
                    pname = "flags=" + ("".join(n for n, f in zip(("A", "C", "D", "E", "T"), fl) if f) or "-")
                    try:
                        m = serialization_method(tp, pass_through=p, **kw)
                    except Exception as e:
                        log.fail(f"pt-compile:{tname}:{optname}:{pname}:{tsname}", f"serialization_method({tname}, pass_through={pname}/{tsname}) raised {e!r} although it compiles without pass_through", {"type": tname, "options": optname, "pass_through": pname, "types": tsname}, observed=repr(e), functions_involved=["SerializationMethodVisitor"])
                        continue
                    tpred = pred_of(ts)
                    for v, base in zip(vals, bases):
                        if base[0] != "ok":
                            continue
                        before = copy.deepcopy(v)
                        r = call(m, v)
                        nontrivial = r[0] != "ok" or bool(untouched(r[1]))
                        log.case((tname, optname, pname, tsname, repr(v)), nontrivial, sample={"type": tname, "options": optname, "pass_through": pname, "types": tsname, "value": repr(v), "output": repr(r[1])} if nontrivial and len(repr(v)) < 200 else None)

                        def fail(kind, summary, observed=None, expected=None):
                            log.fail(f"{kind}:{tname}:{optname}:{pname}:{tsname}:{before!r}", f"{kind}: serialize({tname}, {before!r}, {optname}, pass_through {pname} {tsname}): {summary}", {"type": tname, "options": optname, "pass_through": pname, "types": tsname, "value": repr(before)}, observed=rs(observed, 600), expected=rs(expected, 600), functions_involved=_ser_involved(m) + ["PassThroughOptions", "serialization_default"])

                        if r[0] != "ok":
                            fail("pt-fails" + ("-flatten" if flat else "") + "-" + (str(r[1]).split(":")[0] if r[0] == "crash" else "ValidationError"), f"fails with {rs(r[1], 200)} although serialize without pass_through gives {rs(base[1], 200)}", r, base)
                            continue
                        if not E.deep_eq(denan(before), denan(v)):
                            fail("pt-value-modified", f"the value was changed to {rs(v, 200)}", v, before)
                        try:
                            completed = plain(r[1], default)
                        except Exception as e:
                            fail("pt-default-fails", f"serialization_default fails on the untouched output {rs(r[1], 200)}: {type(e).__name__}: {e}", repr(e), base[1])
                            continue
                        want = plain(base[1], default)
                        if not E.deep_eq(denan(completed), denan(want)):
                            fail("pt-differs", f"completed by serialization_default the output {rs(r[1], 200)} gives {rs(completed, 200)}, not {rs(want, 200)}", completed, want)
                            continue
                        bad = [o for o in untouched(r[1]) if not allowed_untouched(o, p, tpred, anyish)]
                        if bad:
                            fail("pt-untouched-not-named", f"the output {rs(r[1], 200)} leaves {rs(bad, 200)} untouched, which the options do not name", bad, [])
    return log


# ---------------------------------------------------------------------------------------------
# deserialization pass_through


def run_deser_pass_through(report, tier, seed, realm):
    from apischema import deserialize
    from apischema.deserialization import deserialization_method

    rng = random.Random(seed + 6)
    pool = pool_for(tier)
    A, Color, Cat = realm.built["A"], realm.built["Color"], realm.built["Cat"]
    sets: List[Tuple[str, Any]] = [("(A,Color,UUID)", (A, Color, uuid.UUID)), ("predicate", lambda t: t in (A, Cat, dt.date, bytes)), ("[bytes]", [bytes])]
    log = report.driver("deser_pass_through", bound=f"{len(pool)} type descriptions x {len(sets)} pass_through sets (classes incl. a dataclass and an Enum, predicate, list) x <= {15 if tier == 'quick' else 60} JSON data each (valid and invalid) x no_copy; plus hand-written types holding UUID / date / bytes / dataclass / Enum positions fed with already-built instances")
    log.rule("case = (type, pass_through set, datum): JSON data give the identical outcome with and without pass_through; a datum holding instances of the named classes gives the outcome of its JSON form, with the instances themselves in the result")
    n = 15 if tier == "quick" else 60
    for td in pool:
        tp = _realize(report, td, realm)
        if tp is None:
            continue
        data = data_for(td, "quick", rng)
        valid = [d for d in data if ext_ref_deserialize(td, copy.deepcopy(d), realm, M.Opts())[0] == "ok"][: n // 3]
        rng.shuffle(data)
        data = valid + data[:n]
        for nc in (True, False):
            try:
                base_m = deserialization_method(tp, no_copy=nc)
            except Exception:
                continue
            for sname, ps in sets:
                try:
                    m = deserialization_method(tp, no_copy=nc, pass_through=ps)
                except Exception as e:
                    log.fail(f"dpt-compile:{short(td)}:{sname}", f"deserialization_method({short(td)}, pass_through={sname}) raised {e!r}", {"type": short(td), "pass_through": sname}, observed=repr(e), functions_involved=["DeserializationMethodVisitor"])
                    continue
                for d in data:
                    a = call(base_m, copy.deepcopy(d))
                    b = call(m, copy.deepcopy(d))
                    log.case((short(td), sname, nc, repr(d)), True)
                    if not same_outcome(a, b):
                        log.fail(f"dpt-differs:{short(td)}:{sname},no_copy={nc}:{d!r}", f"deserialize({short(td)}, {d!r}, pass_through={sname}, no_copy={nc}) = {rs(b, 200)} but without pass_through {rs(a, 200)}", {"type": short(td), "pass_through": sname, "datum": repr(d)}, observed=rs(b), expected=rs(a), functions_involved=_deser_involved(m) + ["TypeCheckMethod"])
    # instances at the positions of the named classes
    u1 = uuid.UUID(int=5)
    d1 = dt.date(2021, 3, 4)
    a1 = A(4, "four")
    Holder = dataclasses.make_dataclass("PTHolder", [("id", uuid.UUID), ("day", typing.Optional[dt.date], dataclasses.field(default=None)), ("a", A, dataclasses.field(default_factory=lambda: A(0))), ("color", Color, dataclasses.field(default=Color.R)), ("blob", bytes, dataclasses.field(default=b"")), ("many", typing.List[A], dataclasses.field(default_factory=list))])
    Holder.__module__ = realm.name
    setattr(realm.module, "PTHolder", Holder)
    ps_all = (A, Color, uuid.UUID, dt.date, bytes)
    cases = [
        ("UUID", uuid.UUID, u1, str(u1)),
        ("date", dt.date, d1, "2021-03-04"),
        ("bytes", bytes, b"ab", "YWI="),
        ("A", A, a1, {"a": 4, "b": "four"}),
        ("Color", Color, Color.G, 2),
        ("List[UUID]", typing.List[uuid.UUID], [u1, str(u1)], [str(u1), str(u1)]),
        ("Dict[str,A]", typing.Dict[str, A], {"k": a1, "l": {"a": 1}}, {"k": {"a": 4, "b": "four"}, "l": {"a": 1}}),
        ("Optional[date]", typing.Optional[dt.date], d1, "2021-03-04"),
        ("Tuple[A,Color]", typing.Tuple[A, Color], [a1, Color.R], [{"a": 4, "b": "four"}, 1]),
        ("Union[int,A]", typing.Union[int, A], a1, {"a": 4, "b": "four"}),
        ("PTHolder", Holder, {"id": u1, "day": d1, "a": a1, "color": Color.G, "blob": b"ab", "many": [a1, {"a": 2}]}, {"id": str(u1), "day": "2021-03-04", "a": {"a": 4, "b": "four"}, "color": 2, "blob": "YWI=", "many": [{"a": 4, "b": "four"}, {"a": 2}]}),
        ("PTHolder", Holder, {"id": u1, "a": {"a": "bad"}, "color": Color.G, "many": [a1, {"a": None}]}, {"id": str(u1), "a": {"a": "bad"}, "color": 2, "many": [{"a": 4, "b": "four"}, {"a": None}]}),
        ("Set[Color]", typing.Set[Color], [Color.R, 2], [1, 2]),
    ]
    for tname, tp, d_inst, d_json in cases:
        for nc in (True, False):
            for sname, ps in (("classes", ps_all), ("predicate", lambda t: t in ps_all)):
                want = call(deserialize, tp, copy.deepcopy(d_json), no_copy=nc)
                d_in = _shallow_rebuild(d_inst)
                got = call(deserialize, tp, d_in, no_copy=nc, pass_through=ps)
                log.case((tname, sname, nc, repr(d_inst)), True, sample={"type": tname, "pass_through": sname, "datum": repr(d_inst)})
                if not same_outcome(want, got):
                    log.fail(f"dpt-instances-differ:{tname}:{sname},no_copy={nc}:{d_inst!r}", f"deserialize({tname}, {d_inst!r}, pass_through={sname}, no_copy={nc}) = {rs(got, 250)} but the JSON form {d_json!r} gives {rs(want, 250)}", {"type": tname, "pass_through": sname, "datum": repr(d_inst)}, observed=rs(got), expected=rs(want), functions_involved=["TypeCheckMethod"])
                elif got[0] == "ok":
                    lost = [o for o in _instances(d_inst, ps_all) if not _contains_identical(got[1], o)]
                    if lost:
                        log.fail(f"dpt-instance-not-untouched:{tname}:{sname},no_copy={nc}:{d_inst!r}", f"deserialize({tname}, {d_inst!r}, pass_through={sname}): the instances {rs(lost, 200)} were not returned as they are", {"type": tname, "pass_through": sname, "datum": repr(d_inst)}, observed=rs(got), expected=rs(lost), functions_involved=["TypeCheckMethod"])
    return log


def _shallow_rebuild(x):
    """fresh containers, the same leaf / instance objects"""
    if type(x) is list:
        return [_shallow_rebuild(y) for y in x]
    if type(x) is dict:
        return {k: _shallow_rebuild(v) for k, v in x.items()}
    return x


def _instances(x, classes) -> List[Any]:
    out = []
    if type(x) is list:
        for y in x:
            out += _instances(y, classes)
    elif type(x) is dict:
        for y in x.values():
            out += _instances(y, classes)
    elif isinstance(x, classes) and not isinstance(x, (enum.Enum, bytes, uuid.UUID, dt.date)):
        out.append(x)  # immutable values may legitimately be re-created equal; mutable instances must be the same object
    return out


def _contains_identical(x, o) -> bool:
    if x is o:
        return True
    if isinstance(x, (list, tuple, set, frozenset)):
        return any(_contains_identical(y, o) for y in x)
    if isinstance(x, dict):
        return any(_contains_identical(y, o) for y in x.values())
    if dataclasses.is_dataclass(x) and not isinstance(x, type):
        return any(_contains_identical(getattr(x, f.name, None), o) for f in dataclasses.fields(x))
    return False


# ---------------------------------------------------------------------------------------------
# every optimisation option as a global setting left to default vs as a per-call argument


def _settings_configs(realm):
    """(name, {(section, attribute): value}, explicit deserialize kwargs, explicit serialize kwargs):
    the per-call arguments are what the settings must amount to for each direction -- a setting of
    one direction must not leak into the other one (cross cases)"""
    from apischema import PassThroughOptions

    A, Color = realm.built["A"], realm.built["Color"]
    dpt = (A, Color, uuid.UUID)
    dpt_pred = lambda t: t in (A, dt.date, bytes)  # noqa: E731
    spt = PassThroughOptions(tuple=True, enums=True, types=(uuid.UUID,))
    spt2 = PassThroughOptions(any=True, collections=True, dataclasses=True)
    D, S = "deserialization", "serialization"
    return [
        ("deser.no_copy=False", {(D, "no_copy"): False}, {"no_copy": False}, {"no_copy": True}),
        ("ser.no_copy=False", {(S, "no_copy"): False}, {"no_copy": True}, {"no_copy": False}),
        ("deser.no_copy=False,ser.no_copy=False", {(D, "no_copy"): False, (S, "no_copy"): False}, {"no_copy": False}, {"no_copy": False}),
        ("deser.no_copy=True,ser.no_copy=False,ser.check_type=True", {(D, "no_copy"): True, (S, "no_copy"): False, (S, "check_type"): True}, {"no_copy": True}, {"no_copy": False, "check_type": True}),
        ("ser.check_type=True", {(S, "check_type"): True}, {}, {"check_type": True}),
        ("deser.pass_through=classes", {(D, "pass_through"): dpt}, {"pass_through": dpt}, {}),
        ("deser.pass_through=predicate,deser.no_copy=False", {(D, "pass_through"): dpt_pred, (D, "no_copy"): False}, {"pass_through": dpt_pred, "no_copy": False}, {}),
        ("ser.pass_through=TE+UUID", {(S, "pass_through"): spt}, {}, {"pass_through": spt}),
        ("ser.pass_through=ACD,deser.pass_through=classes,ser.no_copy=False", {(S, "pass_through"): spt2, (D, "pass_through"): dpt, (S, "no_copy"): False}, {"pass_through": dpt}, {"pass_through": spt2, "no_copy": False}),
        ("ser.exclude_defaults=True", {(S, "exclude_defaults"): True}, {}, {"exclude_defaults": True}),
        ("ser.exclude_none=True,ser.exclude_unset=False", {(S, "exclude_none"): True, (S, "exclude_unset"): False}, {}, {"exclude_none": True, "exclude_unset": False}),
        ("deser.fall_back_on_default=True,deser.coerce=True,deser.no_copy=False", {(D, "fall_back_on_default"): True, (D, "coerce"): True, (D, "no_copy"): False}, {"fall_back_on_default": True, "coerce": True, "no_copy": False}, {}),
        ("additional_properties=True,deser.no_copy=False,ser.no_copy=False", {(None, "additional_properties"): True, (D, "no_copy"): False, (S, "no_copy"): False}, {"additional_properties": True, "no_copy": False}, {"additional_properties": True, "no_copy": False}),
    ]


def run_settings_vs_arguments(report, tier, seed, realm):
    from apischema import cache as ap_cache
    from apischema import deserialize, serialize, settings
    from apischema.deserialization import deserialization_method
    from apischema.serialization import serialization_method

    rng = random.Random(seed + 7)
    pool = pool_for(tier)
    configs = _settings_configs(realm)
    nd, nv = (8, 4) if tier == "quick" else (30, 12)
    log = report.driver(
        "settings_vs_arguments",
        bound=f"{len(configs)} assignments of the global settings (deserialization.no_copy / pass_through / coerce / fall_back_on_default, serialization.no_copy / check_type / pass_through / exclude_defaults / exclude_none / exclude_unset, additional_properties; alone and in cross combinations where the two directions differ) x ({len(pool)} type descriptions + hand-written types with UUID / date / dataclass / enum / tuple / Any) x <= {nd} data (valid and invalid, plus data holding instances) and <= {nv} values each x {{function, precomputed method}}",
    )
    log.rule("case = (settings assignment, type, datum or value, function / method): the call made WITHOUT the option arguments under the assigned settings gives the identical outcome as the call made under the default settings WITH the equivalent per-call arguments; when the effective deserialization (serialization) no_copy is False the result shares no mutable container with the input; the input is never modified; all settings are restored afterwards")
    # targets
    A, Color = realm.built["A"], realm.built["Color"]
    u1, a1 = uuid.UUID(int=9), A(4, "four")
    dtargets: List[Tuple[str, Any, List[Any]]] = []
    starget: List[Tuple[str, Any, List[Any], dict]] = []
    for td in pool:
        tp = _realize(report, td, realm)
        if tp is None:
            continue
        data = data_for(td, "quick", rng)
        valid = [d for d in data if ext_ref_deserialize(td, copy.deepcopy(d), realm, M.Opts())[0] == "ok"]
        rng.shuffle(data)
        dtargets.append((short(td), tp, valid[: nd // 2] + data[: nd // 2]))
        vals = values_of(td, realm, "quick", rng)
        rng.shuffle(vals)
        starget.append((short(td), tp, vals[:nv], {}))
    dtargets += [
        ("List[UUID]", typing.List[uuid.UUID], [[str(u1)], [u1, str(u1)], ["bad"]]),
        ("Dict[str,A]", typing.Dict[str, A], [{"k": {"a": 1}}, {"k": a1, "l": {"a": 2, "b": "z"}}, {"k": {"a": "x"}}]),
        ("Tuple[A,Color]", typing.Tuple[A, Color], [[{"a": 1}, 1], [a1, Color.G], [a1, 7]]),
        ("Dict[str,List[Dict[str,int]]]", typing.Dict[str, typing.List[typing.Dict[str, int]]], [{"k": [{"a": 1}, {}]}, {"k": [{"a": "x"}]}]),
    ]
    for h in hand_types(realm):
        starget.append((h[0], h[1], h[2][:nv], h[4] if len(h) > 4 else {}))

    def deser_runs(kw):
        out = []
        for tname, tp, data in dtargets:
            try:
                meth = deserialization_method(tp, **kw)
            except Exception as e:
                out.append([("crash", f"compile {type(e).__name__}: {e}")] * (2 * len(data)))
                continue
            row = []
            for d in data:
                for how in ("function", "method"):
                    d2 = _shallow_rebuild_deep(d)
                    before = _shallow_rebuild_deep(d2)
                    r = call(deserialize, tp, d2, **kw) if how == "function" else call(meth, d2)
                    shared = shared_containers(r[1], d2) if r[0] == "ok" else []
                    row.append((r, shared, state_of(before) == state_of(d2)))
            out.append(row)
        return out

    def ser_runs(kw):
        out = []
        for tname, tp, vals, extra in starget:
            k = {**kw, **extra}
            try:
                meth = serialization_method(tp, **k)
            except Exception as e:
                out.append([("crash", f"compile {type(e).__name__}: {e}")] * (2 * len(vals)))
                continue
            row = []
            for v in vals:
                for how in ("function", "method"):
                    before = copy.deepcopy(v)
                    r = call(serialize, tp, v, **k) if how == "function" else call(meth, v)
                    shared = shared_containers(r[1], v) if r[0] == "ok" else []
                    row.append((r, shared, E.deep_eq(denan(before), denan(v))))
            out.append(row)
        return out

    touched = sorted({k for _, assign, _, _ in configs for k in assign}, key=repr)

    def section(sec):
        return settings if sec is None else getattr(settings, sec)

    saved = {k: getattr(section(k[0]), k[1]) for k in touched}
    reported: Dict[Any, int] = {}
    try:
        ap_cache.reset()
        expected = [(deser_runs(dkw), ser_runs(skw)) for _, _, dkw, skw in configs]
        for (cname, assign, dkw, skw), (exp_d, exp_s) in zip(configs, expected):
            try:
                for (sec, attr), val in assign.items():
                    setattr(section(sec), attr, val)
                ap_cache.reset()
                got_d, got_s = deser_runs({}), ser_runs({})
            finally:
                for k in touched:
                    setattr(section(k[0]), k[1], saved[k])
                ap_cache.reset()
            eff_d = dkw.get("no_copy", True)
            eff_s = skw.get("no_copy", True)
            for direction, targets, exp, got, eff, kw in (("deserialize", dtargets, exp_d, got_d, eff_d, dkw), ("serialize", starget, exp_s, got_s, eff_s, skw)):
                for tgt, erow, grow in zip(targets, exp, got):
                    tname, inputs = tgt[0], tgt[2]
                    labels = [(x, how) for x in inputs for how in ("function", "method")]
                    for (x, how), e, g in zip(labels, erow, grow):
                        log.case((cname, direction, tname, how, repr(x)), True, sample={"settings": cname, "call": f"{direction} ({how})", "type": tname, "input": repr(x)} if how == "method" and isinstance(x, (list, dict)) else None)
                        if isinstance(e, tuple) and len(e) == 2 and e[0] == "crash":
                            e = (e, [], True)
                        if isinstance(g, tuple) and len(g) == 2 and g[0] == "crash":
                            g = (g, [], True)

                        def fail(kind, summary, observed=None, expected=None):
                            # a broken default shows on thousands of cases: keep the first ones of each
                            # (kind, settings, direction), count the rest
                            key = (kind, cname, direction)
                            reported[key] = reported.get(key, 0) + 1
                            if reported[key] > 12:
                                log.stats["violations"] += 1
                                return
                            log.fail(f"{kind}:{cname}:{direction}:{how}:{tname}:{x!r}", f"{kind}: settings {cname}; {direction}({tname}, {x!r}) by {how} without option arguments: {summary}", {"settings": cname, "call": direction, "how": how, "type": tname, "input": repr(x), "equivalent_arguments": repr(kw)}, observed=rs(observed, 600), expected=rs(expected, 600), functions_involved=["deserialization_method", "serialization_method", "settings"])

                        same = g[0][0] == e[0][0] and (state_of(denan(g[0][1])) == state_of(denan(e[0][1])) if g[0][0] == "ok" else g[0][1] == e[0][1])
                        if not same:
                            fail("setting-vs-argument-differs", f"gives {rs(g[0], 250)}, but the per-call arguments {kw!r} under the default settings give {rs(e[0], 250)}", g[0], e[0])
                        # what pass-through names is left untouched by definition: instances held by the
                        # data (deserialization), collections / dataclasses / Any (serialization)
                        pt = kw.get("pass_through")
                        untouched_allowed = (direction == "deserialize" and pt is not None and not jsonable(x)) or (direction == "serialize" and pt is not None and (pt.any or pt.collections or pt.dataclasses))
                        if not eff and g[1] and not untouched_allowed:
                            fail("setting-no_copy=False-shares-container", f"the effective no_copy is False but the result {rs(g[0][1], 200)} shares {rs(g[1], 200)} with the input", g[1], [])
                        if not g[2]:
                            fail("setting-input-modified", "the input was modified", None, None)
    finally:
        for k in touched:
            setattr(section(k[0]), k[1], saved[k])
        ap_cache.reset()
    return log


def _shallow_rebuild_deep(x):
    """fresh lists / dicts at every level, the same leaf and instance objects"""
    if type(x) is list:
        return [_shallow_rebuild_deep(y) for y in x]
    if type(x) is dict:
        return {k: _shallow_rebuild_deep(v) for k, v in x.items()}
    return x
