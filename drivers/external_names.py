"""C11 driver -- a field has one external name across every view.

For generated object types (field names / aliases from a pool with snake_case, camelCase,
keywords and `$`-prefixed strings x class aliaser x alias(override=False) x dynamic aliaser given
per call / through settings.aliaser / settings.camel_case; nested, list-nested, flattened, generic,
NamedTuple, TypedDict, dependent_required, validators) the external name
``drivers.model.ext_name`` = dyn(class_aliaser(alias or name)) must be, at once,

  * the key consumed by ``deserialize`` (and no other spelling of the field is),
  * the key produced by ``serialize``,
  * the entries of ``properties`` / ``required`` / ``dependentRequired`` of both JSON schemas,
  * the component of ``errors[].loc`` (missing, ill-typed, dependent-required, errors yielded by a
    validator with ``get_alias(self).f``, errors of a field validator),
  * the GraphQL output field, input field and argument names under ``graphql_schema(aliaser=...)``
    (and the keys used when executing a query).

The oracle is the statement (A.5); it never asks apischema for an alias.  Label B.
"""
from __future__ import annotations

import importlib
import os
import random
import re
import shutil
import sys
import tempfile
from dataclasses import dataclass
from typing import Any, Callable, Dict, List, Optional, Tuple

from . import model as M

# ---------------------------------------------------------------------------
# descriptions


@dataclass(frozen=True)
class CF:
    name: str
    alias: Optional[str] = None
    no_override: bool = False
    required: bool = True
    role: str = "int"  # int | tvar | nested | list | flat | box (a generic object parametrised: Sub[int])
    sub: Optional["CT"] = None

    def sig(self) -> str:
        s = self.name
        if self.alias is not None:
            s += f"={self.alias}"
        if self.no_override:
            s += "!"
        if not self.required:
            s += "?"
        if self.role != "int":
            s += f":{self.role}"
        if self.sub is not None:
            s += f"<{self.sub.sig()}>"
        return s


@dataclass(frozen=True)
class CT:
    name: str
    kind: str  # dataclass | namedtuple | typeddict
    fields: Tuple[CF, ...]
    class_aliaser: Optional[str] = None
    generic: bool = False
    dep_required: Tuple[Tuple[str, Tuple[str, ...]], ...] = ()
    validators: Tuple[Tuple[str, str], ...] = ()  # (style, field): yield_alias | field | field_yield | yield_astr

    def sig(self) -> str:
        s = f"{self.kind[0]}:{self.name}"
        if self.generic:
            s += "[T]"
        if self.class_aliaser:
            s += f"@{self.class_aliaser}"
        s += "(" + ",".join(f.sig() for f in self.fields) + ")"
        if self.dep_required:
            s += "dep" + repr(self.dep_required).replace(" ", "")
        if self.validators:
            s += "val" + repr(self.validators).replace(" ", "")
        return s

    def f(self, name: str) -> CF:
        return next(x for x in self.fields if x.name == name)


def to_model(t: CT) -> M.Obj:
    return M.Obj(
        t.kind,
        t.name,
        tuple(M.Fld(f.name, M.Prim("int"), alias=f.alias, no_override_alias=f.no_override, has_default=not f.required) for f in t.fields),
        class_aliaser=t.class_aliaser,
    )


def ext(t: CT, f: CF, dyn: Optional[Callable[[str], str]]) -> str:
    o = to_model(t)
    return M.ext_name(o, next(x for x in o.fields if x.name == f.name), M.Opts(aliaser=dyn))


def closure(t: CT) -> List[CT]:
    out: List[CT] = []

    def rec(x: CT):
        for f in x.fields:
            if f.sub is not None:
                rec(f.sub)
        if all(y.name != x.name for y in out):
            out.append(x)

    rec(t)
    return out


# ---------------------------------------------------------------------------
# source generation

PRELUDE = '''
from dataclasses import dataclass, field
from typing import Generic, List, NamedTuple, TypedDict, TypeVar

from apischema import ValidationError, alias, dependent_required, schema, validator
from apischema.graphql import Query
from apischema.metadata import flatten
from apischema.objects import AliasedStr, get_alias
from apischema.typing import Annotated

T = TypeVar("T")
OBJ = {}
GOT = []


def _upper(s):
    return s.upper()


def _prefix(s):
    return "px_" + s

'''

CLASS_ALIASER_SRC = {"upper": "_upper", "prefix": "_prefix"}
assert set(CLASS_ALIASER_SRC) == set(M.CLASS_ALIASERS)


def _ftype(f: CF) -> str:
    if f.role == "int":
        return "int"
    if f.role == "tvar":
        return "T"
    assert f.sub is not None
    inner = f.sub.name + ("[int]" if f.sub.generic else "")
    return f"List[{inner}]" if f.role == "list" else inner


def _annotated(f: CF) -> str:
    """field type of a NamedTuple / TypedDict member: the alias metadata goes into Annotated"""
    tp = _ftype(f)
    if f.alias is not None:
        return f"Annotated[{tp}, alias({f.alias!r}" + (", override=False)]" if f.no_override else ")]")
    if f.no_override:
        return f"Annotated[{tp}, alias(override=False)]"
    return tp


def default_of(t: CT, f: CF) -> int:
    return 200 + t.fields.index(f)


def class_source(t: CT) -> List[str]:
    out: List[str] = []
    if t.kind == "dataclass":
        if t.class_aliaser:
            out.append(f"@alias({CLASS_ALIASER_SRC[t.class_aliaser]})")
        out.append("@dataclass")
        out.append(f"class {t.name}{'(Generic[T])' if t.generic else ''}:")
        for f in t.fields:
            md = []
            if f.alias is not None:
                md.append(f"alias({f.alias!r}" + (", override=False)" if f.no_override else ")"))
            elif f.no_override:
                md.append("alias(override=False)")
            if f.role == "flat":
                md.append("flatten")
            args = []
            if not f.required:
                args.append(f"default={default_of(t, f)}")
            if md:
                args.append("metadata=" + " | ".join(md))
            out.append(f"    {f.name}: {_ftype(f)} = field({', '.join(args)})")
        out.append("")
        for k, (style, fname) in enumerate(t.validators):
            n = f"check_{k}_{fname}"
            if style == "yield_alias":
                out += ["    @validator", f"    def {n}(self):", f"        if self.{fname} == 13:", f'            yield get_alias(self).{fname}, "unlucky"', ""]
            elif style == "yield_astr":
                out += ["    @validator", f"    def {n}(self):", f"        if self.{fname} == 15:", '            yield (AliasedStr("raw_key"), 0), "unlucky"', ""]
            elif style == "field":
                out += [f"    @validator({fname})", f"    def {n}(self):", f"        if self.{fname} == 14:", '            raise ValidationError("fourteen")', ""]
            elif style == "field_yield":
                other = next((g.name for g in t.fields if g.name != fname and g.role in ("int", "tvar")), fname)
                out += [f"    @validator({fname})", f"    def {n}(self):", f"        if self.{fname} == 16:", f'            yield get_alias(self).{other}, "fourteen"', ""]
            elif style == "discard_yield":
                out += [f"    @validator(discard={discard_target(t, fname)})", f"    def {n}(self):", f"        if self.{fname} in {ALL_TRIGGERS!r}:", f'            yield get_alias(self).{fname}, "discarding"', ""]
            elif style == "yield_path2":
                other = next((g.name for g in t.fields if g.name != fname and g.role in ("int", "tvar")), fname)
                out += ["    @validator", f"    def {n}(self):", f"        if self.{fname} == 17:", f'            yield (get_alias(self).{fname}, 3, get_alias(self).{other}), "deep"', ""]
            else:
                raise ValueError(style)
    elif t.kind == "namedtuple":
        if t.class_aliaser:
            out.append(f"@alias({CLASS_ALIASER_SRC[t.class_aliaser]})")
        out.append(f"class {t.name}(NamedTuple):")
        for f in t.fields:
            out.append(f"    {f.name}: {_annotated(f)}" + ("" if f.required else f" = {default_of(t, f)}"))
        out.append("")
    elif t.kind == "typeddict":
        out.append(f"{t.name} = TypedDict({t.name!r}, {{" + ", ".join(f"{f.name!r}: {_annotated(f)}" for f in t.fields) + "})")
        if t.class_aliaser:
            out.append(f"alias({CLASS_ALIASER_SRC[t.class_aliaser]})({t.name})")
        out.append("")
    if t.dep_required:
        out.append("dependent_required({" + ", ".join(f"{k!r}: {list(v)!r}" for k, v in t.dep_required) + f"}}, owner={t.name})")
        out.append("")
    return out


TRIGGER = {"yield_alias": 13, "field": 14, "yield_astr": 15, "field_yield": 16, "yield_path2": 17, "discard_yield": 18}
# a discarding validator fails on every trigger value (so that it fails together with later validators)
ALL_TRIGGERS = (13, 14, 15, 16, 17, 18)


def discard_target(t: CT, fname: str) -> str:
    """the field discarded by a discard_yield validator on `fname`: the last plain field nobody
    reads in a validator (else the last other plain field, else the field itself)"""
    read = {n for _, n in t.validators}
    plain = [f.name for f in t.fields if f.role in ("int", "tvar") and f.name != fname]
    free = [n for n in plain if n not in read]
    return (free or plain or [fname])[-1]


PARAM_ALIASES = ["class", "otherArg", "from_value", "snake_param"]


def param_alias(t: CT) -> str:
    return PARAM_ALIASES[sum(map(ord, t.name)) % len(PARAM_ALIASES)]


def module_source(t: CT) -> str:
    out = [PRELUDE]
    for c in closure(t):
        out += class_source(c)
    if graphql_capable(t):
        out += [
            f"def get_{t.name}() -> {t.name}:",
            f'    return OBJ["{t.name}"]',
            "",
            f"def put_{t.name}(arg: {t.name}, some_param: Annotated[int, schema(min=0)] = 0, plain: int = 1) -> str:",
            "    GOT.append((arg, some_param, plain))",
            '    return "ok"',
            "",
            f'QUERIES = [get_{t.name}, Query(put_{t.name}, parameters_metadata={{"plain": alias({param_alias(t)!r})}})]',
            "",
        ]
    return "\n".join(out) + "\n"


def named_objects(t: CT) -> List[CT]:
    """the object types that appear as GraphQL types of their own (a flattened object is merged
    into its parent)"""
    out: List[CT] = []

    def rec(x: CT):
        if all(y.name != x.name for y in out):
            out.append(x)
        for _, f in flat_fields(x):
            if f.sub is not None:
                rec(f.sub)

    rec(t)
    return out


def graphql_capable(t: CT) -> bool:
    # left to C19: a flattened object that itself has object-typed fields is resolved through the
    # flattening wrapper of its parent ("... object has no attribute ...") when a GraphQL query is executed
    flat_with_children = any(f.role == "flat" and any(g.sub is not None for g in f.sub.fields) for c in closure(t) for f in c.fields)  # type: ignore
    return all(c.kind != "typeddict" and not c.generic for c in closure(t)) and not flat_with_children


# ---------------------------------------------------------------------------
# expected views (from the statement)


def value_of(t: CT, f: CF, depth: int) -> int:
    return 100 + 10 * depth + t.fields.index(f)


def flat_fields(t: CT) -> List[Tuple[CT, CF]]:
    """the (owner, field) pairs whose external names live at the level of `t` (flattening)"""
    out = []
    for f in t.fields:
        if f.role == "flat":
            out += flat_fields(f.sub)  # type: ignore
        else:
            out.append((t, f))
    return out


def build_datum(t: CT, dyn, depth: int = 0, leaf=None, only_required: bool = False, extras: Optional[dict] = None) -> dict:
    d: Dict[str, Any] = {}
    if extras and t.kind == "typeddict":
        d.update(extras)
    for f in t.fields:
        if only_required and not f.required:
            continue
        if f.role == "flat":
            d.update(build_datum(f.sub, dyn, depth + 1, leaf, only_required, extras))  # type: ignore
            continue
        k = ext(t, f, dyn)
        if f.role in ("int", "tvar"):
            d[k] = value_of(t, f, depth) if leaf is None else leaf
        elif f.role in ("nested", "box"):
            d[k] = build_datum(f.sub, dyn, depth + 1, leaf, only_required, extras)  # type: ignore
        elif f.role == "list":
            d[k] = [build_datum(f.sub, dyn, depth + 1, leaf, only_required, extras)]  # type: ignore
    return d


def leaf_locs(t: CT, dyn, prefix: tuple = ()) -> List[tuple]:
    out = []
    for f in t.fields:
        if f.role == "flat":
            out += leaf_locs(f.sub, dyn, prefix)  # type: ignore
            continue
        k = ext(t, f, dyn)
        if f.role in ("int", "tvar"):
            out.append(prefix + (k,))
        elif f.role in ("nested", "box"):
            out += leaf_locs(f.sub, dyn, prefix + (k,))  # type: ignore
        else:
            out += leaf_locs(f.sub, dyn, prefix + (k, 0))  # type: ignore
    return out


def required_locs(t: CT, dyn) -> List[tuple]:
    """locations of the `missing property` errors of the empty object"""
    out = []
    for f in t.fields:
        if f.role == "flat":
            out += required_locs(f.sub, dyn)  # type: ignore
        elif f.required:
            out.append((ext(t, f, dyn),))
    return out


def make_obj(t: CT, mod, depth: int = 0, only_required: bool = False, extras: Optional[dict] = None):
    vals: Dict[str, Any] = {}
    if extras and t.kind == "typeddict":
        vals.update(extras)
    for f in t.fields:
        if only_required and not f.required:
            continue
        if f.role in ("int", "tvar"):
            vals[f.name] = value_of(t, f, depth)
        elif f.role == "list":
            vals[f.name] = [make_obj(f.sub, mod, depth + 1, only_required, extras)]  # type: ignore
        else:
            vals[f.name] = make_obj(f.sub, mod, depth + 1, only_required, extras)  # type: ignore
    return vals if t.kind == "typeddict" else getattr(mod, t.name)(**vals)


def image(t: CT, obj, depth: int = 0) -> Any:
    """python-name keyed picture of a value (to compare a deserialized object with the expected one)"""
    if t.kind == "typeddict":
        if not isinstance(obj, dict):
            return ("not-a-dict", repr(obj))
        get = lambda n: obj.get(n, "<unset>")  # noqa: E731
    else:
        if type(obj).__name__ != t.name:
            return ("wrong-class", type(obj).__name__)
        get = lambda n: getattr(obj, n, "<unset>")  # noqa: E731
    out = {}
    if t.kind == "typeddict":
        undeclared = {k: v for k, v in obj.items() if k not in {f.name for f in t.fields}}
        if undeclared:
            out["<undeclared keys>"] = undeclared
    for f in t.fields:
        v = get(f.name)
        if f.role in ("int", "tvar") or v == "<unset>":
            out[f.name] = v
        elif f.role == "list":
            out[f.name] = [image(f.sub, x, depth + 1) for x in v] if isinstance(v, (list, tuple)) else repr(v)  # type: ignore
        else:
            out[f.name] = image(f.sub, v, depth + 1)  # type: ignore
    return out


def expected_image(t: CT, depth: int = 0, only_required: bool = False, extras: Optional[dict] = None) -> Any:
    out: Dict[str, Any] = {}
    if extras and t.kind == "typeddict":
        out["<undeclared keys>"] = dict(extras)
    for f in t.fields:
        if only_required and not f.required:
            if t.kind == "typeddict":
                continue
            out[f.name] = default_of(t, f)
        elif f.role in ("int", "tvar"):
            out[f.name] = value_of(t, f, depth)
        elif f.role == "list":
            out[f.name] = [expected_image(f.sub, depth + 1, only_required, extras)]  # type: ignore
        else:
            out[f.name] = expected_image(f.sub, depth + 1, only_required, extras)  # type: ignore
    return out


GQL_NAME = re.compile(r"^(?!__)[_A-Za-z][_0-9A-Za-z]*$")


def names_ok(t: CT, dyn, graphql: bool = False) -> Optional[str]:
    """None when the external names are pairwise distinct at every object level (else why not)"""
    for c in closure(t):
        ns = [ext(o, f, dyn) for o, f in flat_fields(c)]
        if len(set(ns)) != len(ns):
            return f"external names collide in {c.name}: {ns}"
        if graphql and not all(GQL_NAME.match(n) for n in ns):
            return f"not GraphQL names: {ns}"
    return None


# ---------------------------------------------------------------------------
# type generation

PY_NAMES = ["some_name", "a_b", "camelName", "x", "value1", "snake_case_long", "second_name", "y2"]
ALIAS_POOL = [None, "other_name", "otherName", "class", "from", "type", "$ref", "$id", "$dollar_name", "Upper_Case", "with space"]
CLASS_ALIASERS = [None, "upper", "prefix"]


def _single(i: int, ca, al, no: bool) -> CT:
    extra = CF(PY_NAMES[(i + 3) % len(PY_NAMES)], required=i % 2 == 0)
    main = CF(PY_NAMES[i % len(PY_NAMES)], al, no, required=i % 3 != 0)
    fields = (main, extra) if i % 2 else (main,)
    if fields[0].required is False and len(fields) > 1 and fields[1].required:
        fields = (fields[1], fields[0])
    return CT(f"A{i}", "dataclass", fields, ca)


def _order(fields: List[CF]) -> Tuple[CF, ...]:
    """required fields first (dataclass rule)"""
    return tuple([f for f in fields if f.required] + [f for f in fields if not f.required])


def systematic_types() -> List[CT]:
    out: List[CT] = []
    i = 0
    # A: one aliased field x class aliaser x override
    for ca in CLASS_ALIASERS:
        for al in ALIAS_POOL:
            for no in (False, True):
                out.append(_single(i, ca, al, no))
                i += 1
    # C: nested / list / flattened x outer class aliaser x inner class aliaser
    for oca in CLASS_ALIASERS:
        for ica in CLASS_ALIASERS:
            for role in ("nested", "list", "flat"):
                al_in = ALIAS_POOL[(i * 3 + 1) % len(ALIAS_POOL)]
                al_out = ALIAS_POOL[(i * 5 + 2) % len(ALIAS_POOL)]
                sub = CT(f"I{i}", "dataclass", _order([CF("deep_name", al_in, no_override=i % 4 == 1), CF("in_b", required=False)]), ica)
                fields = [CF("own_name", al_out, no_override=i % 4 == 2), CF("child_obj", None if role == "flat" else ALIAS_POOL[(i + 1) % 6], False, True, role, sub)]
                out.append(CT(f"C{i}", "dataclass", _order(fields), oca))
                i += 1
    # D: generic classes, observed through the parametrised alias (directly and as a field type)
    for ca in CLASS_ALIASERS:
        for al, no in ((None, False), ("other_name", False), ("otherName", True), ("$ref", False)):
            box = CT(f"Box{i}", "dataclass", _order([CF("box_content", al, no, True, "tvar"), CF("box_size", required=False)]), ca, generic=True)
            out.append(box)
            i += 1
            out.append(CT(f"D{i}", "dataclass", (CF("the_box", ALIAS_POOL[i % 4], False, True, "box", box), CF("plain_one")), CLASS_ALIASERS[i % 3]))
            i += 1
    # E: NamedTuple / TypedDict (no field metadata) x class aliaser; TypedDict keys may be keywords
    for ca in CLASS_ALIASERS:
        out.append(CT(f"N{i}", "namedtuple", (CF("a_b"), CF("camelName"), CF("snake_case_long", required=False)), ca))
        i += 1
        out.append(CT(f"TD{i}", "typeddict", (CF("a_b"), CF("class"), CF("camelName")), ca))
        i += 1
        sub = CT(f"NI{i}", "namedtuple", (CF("deep_name"),), CLASS_ALIASERS[(i + 1) % 3])
        out.append(CT(f"N{i}", "namedtuple", (CF("some_name"), CF("child_obj", role="nested", sub=sub)), ca))
        i += 1
        # members aliased through Annotated[..., alias(...)] (with / without override)
        for al, no in (("other_name", False), ("otherName", True), ("class", False), ("$id", False), (None, True)):
            out.append(CT(f"TD{i}", "typeddict", (CF("first_name", al, no), CF("a_b", ALIAS_POOL[i % len(ALIAS_POOL)], i % 3 == 0), CF("import")), ca))
            i += 1
            out.append(CT(f"N{i}", "namedtuple", (CF("first_name", al, no), CF("a_b", ALIAS_POOL[(i + 4) % len(ALIAS_POOL)], i % 3 == 1, required=False)), ca))
            i += 1
        tsub = CT(f"TDI{i}", "typeddict", (CF("deep_name", "deepAlias"), CF("x")), CLASS_ALIASERS[(i + 1) % 3])
        out.append(CT(f"TD{i}", "typeddict", (CF("some_name", "other_name"), CF("child_obj", "kid", False, True, "nested", tsub), CF("kids", None, False, True, "list", tsub)), ca))
        i += 1
    # F: validators yielding a field path / field validators
    for ca in CLASS_ALIASERS:
        for al in (None, "other_name", "otherName", "class", "$ref"):
            for no in (False, True):
                fields = _order([CF("some_name", al, no), CF("second_name", ALIAS_POOL[(i + 2) % len(ALIAS_POOL)], i % 3 == 0, required=i % 2 == 0), CF("third_one", ALIAS_POOL[(i + 5) % len(ALIAS_POOL)] if i % 2 else None, required=False)])
                vals = (("yield_alias", "some_name"), ("field", "second_name"), ("field_yield" if i % 2 else "yield_astr", "some_name"), ("yield_path2", "second_name"))
                if i % 3 != 2:
                    # an earlier validator that fails and discards a field nobody else reads: the later ones still run
                    vals = (("discard_yield", "third_one" if i % 3 else "some_name"),) + vals
                t = CT(f"F{i}", "dataclass", fields, ca, validators=vals)
                if i % 5 == 0:
                    t = CT(f"FO{i}", "dataclass", (CF("own_name", ALIAS_POOL[i % 5]), CF("child_obj", "kid_alias", i % 2 == 0, True, "nested", t)), CLASS_ALIASERS[(i + 1) % 3])
                out.append(t)
                i += 1
    # G: dependent_required
    for ca in CLASS_ALIASERS:
        for al in (None, "other_name", "$addr", "class"):
            for no in (False, True):
                fields = (CF("plain_one"), CF("credit_card", al, no, required=False), CF("billing_address", ALIAS_POOL[(i + 1) % len(ALIAS_POOL)], i % 3 == 1, required=False), CF("third_one", required=False))
                dep = (("credit_card", ("billing_address",)),) if i % 2 else (("credit_card", ("billing_address", "third_one")), ("third_one", ("billing_address",)))
                out.append(CT(f"G{i}", "dataclass", fields, ca, dep_required=dep))
                i += 1
    return out


def random_types(rng: random.Random, count: int) -> List[CT]:
    out = []
    for i in range(count):

        def obj(name: str, depth: int, in_flat: bool = False) -> CT:
            n = rng.randint(1, 4)
            names = rng.sample(PY_NAMES, n)
            fields = []
            for j, nm in enumerate(names):
                role = "int"
                sub = None
                if depth < 2 and rng.random() < 0.3:
                    # (a flattened object that itself flattens another one is left out: the JSON schema
                    # builder refuses it -- "Flattened field ... must have an object type")
                    role = rng.choice(("nested", "list") if in_flat else ("nested", "list", "flat"))
                    sub = obj(f"{name}_{j}", depth + 1, role == "flat")
                al = rng.choice(ALIAS_POOL) if role != "flat" else None
                fields.append(CF(nm, al, role != "flat" and rng.random() < 0.3, role != "int" or rng.random() < 0.6, role, sub))
            vals: Tuple[Tuple[str, str], ...] = ()
            ints = [f.name for f in fields if f.role == "int"]
            if ints and rng.random() < 0.5:
                vals = tuple((rng.choice(("yield_alias", "field", "field_yield", "yield_astr", "yield_path2", "discard_yield")), rng.choice(ints)) for _ in range(rng.randint(1, 3)))
            dep: Tuple[Tuple[str, Tuple[str, ...]], ...] = ()
            opt = [f.name for f in fields if not f.required and f.role == "int"]
            if len(opt) >= 2 and rng.random() < 0.5:
                dep = ((opt[0], (opt[1],)),)
            return CT(name, "dataclass", _order(fields), rng.choice(CLASS_ALIASERS), dep_required=dep, validators=vals)

        out.append(obj(f"R{i}", 0))
    return out


# ---------------------------------------------------------------------------
# dynamic aliaser modes


def _camel(s: str) -> str:
    return re.sub(r"_([a-z0-9])", lambda m: m.group(1).upper(), s)


def _custom(s: str) -> str:
    return s + "_c"


MODES = [
    # name, per-call aliaser, settings action
    ("identity", None, None),
    ("param-camel", _camel, None),
    ("param-custom", _custom, None),
    ("settings.aliaser=custom", None, "aliaser"),
    ("settings.camel_case", None, "camel_case"),
]


# ---------------------------------------------------------------------------
# the driver


def run(report, tier: str, seed: int):
    import apischema
    from apischema import settings

    rng = random.Random(seed)
    types = systematic_types() + random_types(rng, 40 if tier == "quick" else 600)
    log = report.driver(
        "external_names",
        bound=f"{len(types)} generated object types (systematic: 1-2 fields with every alias of the pool {ALIAS_POOL} x class aliaser {CLASS_ALIASERS} x override; nested / list / flattened x outer x inner class aliaser; generic Box[T] observed as Box[int] and as a field; NamedTuple / TypedDict; validators; dependent_required; + seeded random types with <= 4 fields, depth <= 2) x aliaser modes {[m[0] for m in MODES]} x views (deserialize accept / reject other spellings, serialize, both JSON schemas, error locations, GraphQL type map + execution)",
    )
    log.rule("case = (type, aliaser mode, view, input); the expected key everywhere is dyn(class_aliaser(alias or name)) computed by drivers.model.ext_name from the description; (type, mode) pairs whose external names collide are skipped (the statement presupposes distinct names), GraphQL views only for valid GraphQL names; all cases exercise an object type (non-trivial)")
    tmp = tempfile.mkdtemp(prefix="c11types_")
    tag = f"c11m_{os.getpid()}_{seed}"
    sys.path.insert(0, tmp)
    loaded: List[str] = []
    saved_aliaser = settings.aliaser
    try:
        mods: Dict[str, Any] = {}
        for t in types:
            modname = f"{tag}_{t.name}"
            with open(os.path.join(tmp, modname + ".py"), "w") as fh:
                fh.write(module_source(t))
            importlib.invalidate_caches()
            try:
                mods[t.name] = importlib.import_module(modname)
                loaded.append(modname)
            except BaseException as e:  # noqa: BLE001
                log.case((t.sig(), "define"), True)
                log.fail(f"define:{t.sig()}:{type(e).__name__}", f"defining {t.sig()} raised {e!r}", {"type": t.sig(), "source": module_source(t)}, observed=repr(e), functions_involved=["alias"])
        for mode, param, action in MODES:
            try:
                dyn = _enter_mode(log, mode, param, action)
                for t in types:
                    if t.name not in mods:
                        continue
                    why = names_ok(t, dyn)
                    if why is not None:
                        log.stats["skipped_colliding_names"] = log.stats.get("skipped_colliding_names", 0) + 1
                        continue
                    Views(log, t, mods[t.name], mode, param, dyn, tier).run_all()
            finally:
                settings.aliaser = saved_aliaser
                apischema.cache.reset()
    finally:
        settings.aliaser = saved_aliaser
        for m in loaded:
            sys.modules.pop(m, None)
        try:
            sys.path.remove(tmp)
        except ValueError:
            pass
        shutil.rmtree(tmp, ignore_errors=True)
    return log


def _enter_mode(log, mode: str, param, action) -> Optional[Callable[[str], str]]:
    import apischema
    from apischema import settings

    if action == "aliaser":
        settings.aliaser = _custom
        dyn: Optional[Callable[[str], str]] = _custom
    elif action == "camel_case":
        settings.camel_case = True
        dyn = settings.aliaser  # the documented meaning of the switch: the library's camelCase aliaser
        if dyn("some_name_x") != "someNameX" or not settings.camel_case:
            log.fail("settings.camel_case:not-camel", f"settings.camel_case = True gives aliaser('some_name_x') = {dyn('some_name_x')!r}", {"mode": mode}, functions_involved=["MetaSettings"])
    else:
        dyn = param
    apischema.cache.reset()
    return dyn


def replay(rp: dict) -> int:
    """re-run every view of the (type, aliaser mode) of a replay file"""
    import json

    import apischema
    from apischema import settings
    from vf.core import Report

    case = rp.get("case", {})
    print(json.dumps({k: rp.get(k) for k in ("property", "signature", "summary")}, indent=1))
    if "spec" not in case:
        print("no generated type in this replay file: see case")
        return 1
    t = eval(case["spec"], {"CT": CT, "CF": CF})  # noqa: S307 -- our own repr
    report = Report(rp.get("property", "C11"), "thorough", 0, "exploration")
    log = report.driver("replay", "one (type, mode)")
    tmp = tempfile.mkdtemp(prefix="c11replay_")
    modname = f"c11rp_{os.getpid()}_{t.name}"
    sys.path.insert(0, tmp)
    saved = settings.aliaser
    try:
        with open(os.path.join(tmp, modname + ".py"), "w") as fh:
            fh.write(module_source(t))
        importlib.invalidate_caches()
        mod = importlib.import_module(modname)
        mode, param, action = next(m for m in MODES if m[0] == case["mode"])
        dyn = _enter_mode(log, mode, param, action)
        Views(log, t, mod, mode, param, dyn, "thorough").run_all()
    finally:
        settings.aliaser = saved
        apischema.cache.reset()
        sys.modules.pop(modname, None)
        sys.path.remove(tmp)
        shutil.rmtree(tmp, ignore_errors=True)
    for v in report.violations:
        print(("KNOWN-FINDING " if v.known else "STILL FAILING ") + v.summary[:600])
    return 1 if any(v.known is None for v in report.violations) else 0


class Views:
    def __init__(self, log, t: CT, mod, mode: str, param, dyn, tier: str = "quick"):
        self.log, self.t, self.mod, self.mode, self.param, self.dyn, self.tier = log, t, mod, mode, param, dyn, tier
        self.kw = {"aliaser": param} if param is not None else {}
        self.tp = getattr(mod, t.name)
        if t.generic:
            self.tp = self.tp[int]

    # -- plumbing -------------------------------------------------------------------
    def case(self, view: str, inp: Any):
        self.log.case((self.t.sig(), self.mode, view, repr(inp)), True, sample={"type": self.t.sig(), "mode": self.mode, "view": view, "input": inp if isinstance(inp, (dict, list, str, int, type(None))) else repr(inp)})

    def fail(self, view: str, detail: str, summary: str, inp: Any, observed: Any, expected: Any, involved: List[str]):
        self.log.fail(
            f"{view}:{self.t.sig()}:{self.mode}:{detail}",
            f"{view}: {self.t.sig()} under aliaser mode {self.mode}: {summary}",
            {"type": self.t.sig(), "mode": self.mode, "view": view, "input": repr(inp), "spec": repr(self.t), "source": module_source(self.t)},
            observed=repr(observed)[:800],
            expected=repr(expected)[:800],
            functions_involved=involved,
        )

    def deser(self, datum, **more) -> Tuple[str, Any]:
        from apischema import ValidationError, deserialize

        try:
            return ("ok", deserialize(self.tp, datum, **self.kw, **more))
        except ValidationError as e:
            try:
                return ("err", sorted(((tuple(x["loc"]), x["err"]) for x in e.errors), key=repr))
            except Exception as e2:  # noqa: BLE001
                return ("crash", f"errors not computable: {e2!r}")
        except Exception as e:  # noqa: BLE001
            return ("crash", f"{type(e).__name__}: {e}")

    def run_all(self):
        for v in (self.v_deserialize, self.v_other_spellings, self.v_serialize, self.v_schemas, self.v_error_locs, self.v_dependent_required, self.v_validators, self.v_graphql):
            try:
                v()
            except Exception as e:  # noqa: BLE001
                import traceback

                self.case(v.__name__, "crash")
                self.fail(v.__name__, f"crash:{type(e).__name__}", f"the view raised {e!r} ({traceback.format_exc()[-400:]})", None, repr(e), "no exception", ["alias"])

    DES = ["ObjectMethod", "SimpleObjectMethod", "DeserializationMethodVisitor", "ObjectVisitor"]

    # -- the key consumed by deserialize ---------------------------------------------
    def v_deserialize(self):
        t, dyn = self.t, self.dyn
        for only_req in (False, True):
            for more in ({}, {"additional_properties": True}, {"no_copy": False}, {"coerce": True, "fall_back_on_default": True}):
                datum = build_datum(t, dyn, only_required=only_req)
                self.case("deserialize", (datum, more))
                got = self.deser(datum, **more)
                exp = expected_image(t, only_required=only_req)
                if got[0] != "ok":
                    self.fail("deserialize", f"rejected:{datum!r}:{more}", f"the datum keyed by the external names {datum!r} is rejected (options {more}): {got[1]!r}", datum, got, ("ok", exp), self.DES)
                elif image(t, got[1]) != exp:
                    self.fail("deserialize", f"image:{datum!r}:{more}", f"the datum {datum!r} gives {image(t, got[1])!r} (options {more}), expected {exp!r}", datum, image(t, got[1]), exp, self.DES)

        if any(c.kind == "typeddict" for c in closure(t)):
            # additional_properties=True: a TypedDict keeps the undeclared keys, the declared ones are
            # still consumed under their external names (and stored under the Python names only)
            extras = {"zz_extra": [1, 2], "Other Extra": 5}
            datum = build_datum(t, dyn, extras=extras)
            self.case("deserialize", (datum, "additional"))
            got = self.deser(datum, additional_properties=True)
            exp = expected_image(t, extras=extras)
            if got[0] != "ok" or image(t, got[1]) != exp:
                self.fail("deserialize", f"additional:{datum!r}", f"deserialize({datum!r}, additional_properties=True) gives {got[1] if got[0] != 'ok' else image(t, got[1])!r}, expected {exp!r}", datum, got, exp, self.DES)

    def v_other_spellings(self):
        """any other spelling of a field's name is not the key: unexpected + (if required) missing"""
        t, dyn = self.t, self.dyn
        E = M.messages()
        level = {ext(o, f, dyn) for o, f in flat_fields(t)}
        for f in t.fields:
            if f.role == "flat":
                continue
            good = ext(t, f, dyn)
            base = f.alias if f.alias is not None else f.name
            ca = M.CLASS_ALIASERS[t.class_aliaser](base) if t.class_aliaser else base
            spellings = {f.name, base, ca, (dyn or (lambda s: s))(base), (dyn or (lambda s: s))(f.name), M.CLASS_ALIASERS["upper"](base), M.CLASS_ALIASERS["prefix"](base)}
            for sp in sorted(spellings - level):
                datum = build_datum(t, dyn)
                val = datum.pop(good)
                datum[sp] = val
                self.case("deserialize-other-spelling", datum)
                exp = [((sp,), E.unexpected_property)]
                requiring = sorted(ext(t, t.f(k), dyn) for k, reqs in t.dep_required if f.name in reqs and k != f.name)
                if f.required:
                    exp.append(((good,), E.missing_property))
                elif requiring:
                    exp.append(((good,), E.missing_property + f" (required by {requiring})"))
                got = self.deser(datum)
                if got != ("err", sorted(exp, key=repr)):
                    self.fail("deserialize-other-spelling", f"{f.name}:{sp}", f"field {f.name} (external name {good!r}) given as {sp!r}: got {got!r}, expected errors {sorted(exp, key=repr)!r}", datum, got, ("err", sorted(exp, key=repr)), self.DES)

    # -- the key produced by serialize -------------------------------------------------
    def v_serialize(self):
        from apischema import serialize

        t, dyn = self.t, self.dyn
        obj = make_obj(t, self.mod)
        exp = build_datum(t, dyn)
        # the values differ from the defaults and are not None: the exclude_* options drop nothing
        for more in ({}, {"exclude_defaults": True}, {"exclude_none": True, "check_type": True}, {"no_copy": False, "exclude_unset": False}):
            self.case("serialize", (repr(obj), more))
            try:
                got = serialize(self.tp, obj, **self.kw, **more)
            except Exception as e:  # noqa: BLE001
                got = f"{type(e).__name__}: {e}"
            if got != exp:
                self.fail("serialize", f"keys:{more}", f"serialize({obj!r}, {more}) = {got!r}, expected the external names {exp!r}", repr(obj), got, exp, ["ObjectMethod", "SerializationMethodVisitor", "ObjectVisitor"])
        # additional_properties=True: a TypedDict keeps its undeclared keys as they are (docs:
        # "without aliasing"); every declared field still appears once, under its external name
        extras = {"zz_extra": [1, 2], "Other Extra": 5}
        for with_extras in (False, True):
            if with_extras and not any(c.kind == "typeddict" for c in closure(t)):
                continue
            obj2 = make_obj(t, self.mod, extras=extras if with_extras else None)
            exp2 = build_datum(t, dyn, extras=extras if with_extras else None)
            more = {"additional_properties": True}
            self.case("serialize", (repr(obj2), more))
            try:
                got = serialize(self.tp, obj2, **self.kw, **more)
            except Exception as e:  # noqa: BLE001
                got = f"{type(e).__name__}: {e}"
            if got != exp2:
                self.fail("serialize", f"additional:{with_extras}", f"serialize({obj2!r}, additional_properties=True) = {got!r}, expected each field once under its external name (+ the undeclared keys of a TypedDict) {exp2!r}", repr(obj2), got, exp2, ["ObjectAdditionalMethod", "SerializationMethodVisitor", "ObjectVisitor"])

    # -- properties / required / dependentRequired of both schemas --------------------------
    def v_schemas(self):
        from apischema.json_schema import JsonSchemaVersion, deserialization_schema, serialization_schema

        for which, fn in (("deserialization_schema", deserialization_schema), ("serialization_schema", serialization_schema)):
            variants: List[Any] = [None, True, "draft-07", "draft-2019-09"]
            if self.tier == "quick":
                # the default dialect always; $ref-everything when there are nested objects; the
                # draft-07 spelling (`dependencies`) when there is a dependent_required
                variants = [None] + ([True] if len(closure(self.t)) > 1 else []) + (["draft-07"] if any(c.dep_required for c in closure(self.t)) else [])
            for all_refs in variants:
                kw = dict(self.kw)
                if all_refs is True:
                    kw["all_refs"] = True
                elif all_refs == "draft-07":
                    kw["version"] = JsonSchemaVersion.DRAFT_7
                elif all_refs == "draft-2019-09":
                    kw["version"] = JsonSchemaVersion.DRAFT_2019_09
                self.case(which, {"all_refs": all_refs})
                try:
                    sch = fn(self.tp, **kw)
                except Exception as e:  # noqa: BLE001
                    self.fail(which, f"raised:{type(e).__name__}", f"raised {e!r}", None, repr(e), "a schema", ["SchemaBuilder"])
                    continue
                problems: List[str] = []
                self._check_schema(sch, sch, self.t, which.startswith("deser"), "$", problems)
                if problems:
                    self.fail(which, f"all_refs={all_refs}:" + problems[0].split(" ")[0], "; ".join(problems[:4]), {"all_refs": all_refs}, sch, "properties / required / dependentRequired keyed by the external names", ["SchemaBuilder", "DeserializationSchemaBuilder", "SerializationSchemaBuilder", "ObjectVisitor"])

    def _resolve(self, node, root, depth=0):
        while isinstance(node, dict) and "$ref" in node and isinstance(node["$ref"], str) and node["$ref"].startswith("#/") and depth < 10:
            cur = root
            for part in node["$ref"][2:].split("/"):
                cur = cur[part.replace("~1", "/").replace("~0", "~")]
            node = cur
            depth += 1
        return node

    def _parts(self, node, root) -> List[dict]:
        node = self._resolve(node, root)
        if isinstance(node, dict) and "allOf" in node:
            out = []
            for p in node["allOf"]:
                out += self._parts(p, root)
            return out
        return [node]

    def _check_schema(self, node, root, t: CT, deser: bool, where: str, problems: List[str]):
        dyn = self.dyn
        parts = self._parts(node, root)
        props: Dict[str, Any] = {}
        required: List[str] = []
        depreq: Dict[str, Any] = {}
        for p in parts:
            if not isinstance(p, dict):
                problems.append(f"{where}:not-an-object-schema {p!r}")
                return
            props.update(p.get("properties", {}))
            required += list(p.get("required", []))
            depreq.update(p.get("dependentRequired", {}))
            # draft-07 spells dependentRequired `dependencies` (array form)
            depreq.update({k: v for k, v in p.get("dependencies", {}).items() if isinstance(v, list)})
        level = flat_fields(t)
        exp_props = {ext(o, f, dyn) for o, f in level}
        if set(props) != exp_props:
            problems.append(f"{where}:properties keys {sorted(props)} != external names {sorted(exp_props)}")
        exp_req = {ext(o, f, dyn) for o, f in level if f.required}
        if deser:
            if set(required) != exp_req or len(required) != len(set(required)):
                problems.append(f"{where}:required {sorted(required)} != external names of the required fields {sorted(exp_req)}")
        else:
            if not (exp_req <= set(required) <= exp_props):
                problems.append(f"{where}:required {sorted(required)} is not made of external names (required fields: {sorted(exp_req)}, properties: {sorted(exp_props)})")
        exp_dep: Dict[str, List[str]] = {}
        for o in {id(o): o for o, _ in level}.values():
            for k, reqs in o.dep_required:
                exp_dep.setdefault(ext(o, o.f(k), dyn), [])
                exp_dep[ext(o, o.f(k), dyn)] = sorted(set(exp_dep[ext(o, o.f(k), dyn)]) | {ext(o, o.f(r), dyn) for r in reqs})
        got_dep = {k: sorted(v) for k, v in depreq.items()}
        if got_dep != exp_dep:
            problems.append(f"{where}:dependentRequired {got_dep} != {exp_dep}")
        for o, f in level:
            k = ext(o, f, dyn)
            if f.sub is None or k not in props:
                continue
            sub = self._resolve(props[k], root)
            if f.role == "list":
                sub = self._resolve(sub.get("items", {}), root) if isinstance(sub, dict) else sub
            self._check_schema(sub, root, f.sub, deser, f"{where}.{k}", problems)

    # -- errors[].loc --------------------------------------------------------------------
    def v_error_locs(self):
        t, dyn = self.t, self.dyn
        E = M.messages()
        # every required property missing
        self.case("errors-missing", {})
        exp = sorted(((loc, E.missing_property) for loc in required_locs(t, dyn)), key=repr)
        got = self.deser({})
        if exp and got != ("err", exp):
            self.fail("errors-loc", "missing", f"deserialize({{}}) reports {got!r}, expected a missing property at the external name of each required field {exp!r}", {}, got, ("err", exp), self.DES)
        # every leaf ill-typed
        datum = build_datum(t, dyn, leaf="bad")
        self.case("errors-badtype", datum)
        exp = sorted(((loc, M.bad_type_msg("bad", int)) for loc in leaf_locs(t, dyn)), key=repr)
        got = self.deser(datum)
        if got != ("err", exp):
            self.fail("errors-loc", "badtype", f"deserialize({datum!r}) reports {got!r}, expected one type error at the external-name path of each leaf {exp!r}", datum, got, ("err", exp), self.DES)

    def _dep_cases(self, t: CT, prefix: tuple, wrap: Callable[[dict], dict]):
        dyn = self.dyn
        E = M.messages()
        required_by: Dict[str, List[str]] = {}
        for k, reqs in t.dep_required:
            for r in reqs:
                required_by.setdefault(r, []).append(k)
        for k, reqs in t.dep_required:
            # the requiring field present, the fields it requires absent
            inner = build_datum(t, dyn, only_required=True)
            inner[ext(t, t.f(k), dyn)] = 1
            exp = []
            for r in sorted({r for kk, rr in t.dep_required for r in rr}):
                requiring = sorted(ext(t, t.f(x), dyn) for x in required_by[r] if ext(t, t.f(x), dyn) in inner)
                if requiring and ext(t, t.f(r), dyn) not in inner:
                    exp.append((prefix + (ext(t, t.f(r), dyn),), E.missing_property + f" (required by {requiring})"))
            yield wrap(inner), sorted(exp, key=repr)

    def v_dependent_required(self):
        t = self.t
        if not t.dep_required:
            return
        for datum, exp in self._dep_cases(t, (), lambda d: d):
            self.case("errors-dependent-required", datum)
            got = self.deser(datum)
            if got != ("err", exp):
                self.fail("errors-loc", f"dependent-required:{datum!r}", f"deserialize({datum!r}) reports {got!r}, expected {exp!r}", datum, got, ("err", exp), self.DES)

    VAL = ["validate", "Validator", "apply_aliaser", "build_validation_error", "ObjectMethod"]

    def _validator_errors(self, t: CT, style: str, fname: str, prefix: tuple, dyn) -> List[Tuple[tuple, str]]:
        d = dyn or (lambda s: s)
        f = t.f(fname)
        other = next((g for g in t.fields if g.name != fname and g.role in ("int", "tvar")), f)
        if style == "yield_alias":
            return [(prefix + (ext(t, f, dyn),), "unlucky")]
        if style == "yield_astr":
            return [(prefix + (d("raw_key"), 0), "unlucky")]
        if style == "field":
            return [(prefix + (ext(t, f, dyn),), "fourteen")]
        if style == "yield_path2":
            return [(prefix + (ext(t, f, dyn), 3, ext(t, other, dyn)), "deep")]
        if style == "discard_yield":
            return [(prefix + (ext(t, f, dyn),), "discarding")]
        return [(prefix + (ext(t, f, dyn), ext(t, other, dyn)), "fourteen")]

    def _simulate(self, t: CT, values: Dict[str, int], prefix: tuple, dyn) -> List[Tuple[tuple, str]]:
        """the errors of the validators of `t` on structurally valid data (statement of C10: declaration
        order, a failing validator discards its discard= fields / its own field for a field validator,
        validators reading a discarded field are skipped, all others still run and their errors are
        merged), each located by external names"""
        errs: List[Tuple[tuple, str]] = []
        discarded: set = set()
        for style, fname in t.validators:
            if fname in discarded:
                continue
            v = values.get(fname)
            fires = v in ALL_TRIGGERS if style == "discard_yield" else v == TRIGGER[style]
            if not fires:
                continue
            errs += self._validator_errors(t, style, fname, prefix, dyn)
            if style in ("field", "field_yield"):
                discarded.add(fname)
            elif style == "discard_yield":
                discarded.add(discard_target(t, fname))
        return errs

    def _validator_cases(self, t: CT, prefix: tuple, path_to: List[Tuple[CT, CF]], dyn):
        """(datum, expected errors): each validator of `t` (reached through the fields path_to)
        triggered alone, then several validators triggered by the same datum"""
        assignments: List[Dict[str, int]] = [{fname: TRIGGER[style]} for style, fname in t.validators]
        by_field: Dict[str, List[int]] = {}
        for style, fname in t.validators:
            by_field.setdefault(fname, []).append(TRIGGER[style])
        if len(t.validators) > 1:
            for r in range(max(len(v) for v in by_field.values())):
                assignments.append({fname: trig[r % len(trig)] for fname, trig in by_field.items()})
        seen = []
        for a in assignments:
            if a in seen:
                continue
            seen.append(a)
            datum = build_datum(self.t, dyn)
            cur = datum
            for o, pf in path_to:
                cur = cur[ext(o, pf, dyn)]
            values = {f.name: cur[ext(t, f, dyn)] for f in t.fields if f.role in ("int", "tvar")}
            for fname, v in a.items():
                cur[ext(t, t.f(fname), dyn)] = v
                values[fname] = v
            yield datum, self._simulate(t, values, prefix, dyn)

    def v_validators(self):
        t, dyn = self.t, self.dyn
        todo: List[Tuple[CT, tuple, List[Tuple[CT, CF]]]] = [(t, (), [])]
        for f in t.fields:
            if f.role in ("nested", "box") and f.sub is not None and f.sub.validators:
                todo.append((f.sub, (ext(t, f, dyn),), [(t, f)]))
        for o, prefix, path in todo:
            for datum, exp in self._validator_cases(o, prefix, path, dyn):
                self.case("errors-validator", datum)
                got = self.deser(datum)
                if got != ("err", sorted(exp, key=repr)):
                    self.fail("errors-loc", f"validator:{datum!r}", f"deserialize({datum!r}) reports {got!r}, expected the validator's error under the external names {exp!r}", datum, got, ("err", exp), self.VAL)

    # -- GraphQL ---------------------------------------------------------------------------
    GQL = ["OutputSchemaBuilder", "InputSchemaBuilder", "resolver_resolve", "graphql_schema"]

    def v_graphql(self):
        t = self.t
        if not graphql_capable(t):
            return
        import graphql
        from apischema.graphql import graphql_schema

        variants: List[Tuple[str, dict, Optional[Callable[[str], str]]]] = []
        if self.param is not None:
            variants.append(("aliaser=param", {"aliaser": self.param}, self.param))
        else:
            variants.append(("aliaser=None", {"aliaser": None}, self.dyn))  # None: settings.aliaser
            if self.mode == "identity":
                variants.append(("aliaser=identity-function", {"aliaser": lambda s: s}, None))
                variants.append(("aliaser=default(camelCase)", {}, _camel))
        for vname, kw, dyn in variants:
            if names_ok(t, dyn, graphql=True) is not None:
                continue
            d = dyn or (lambda s: s)
            self.case("graphql-type-map", vname)
            self.mod.OBJ[t.name] = make_obj(t, self.mod)
            try:
                schema = graphql_schema(query=self.mod.QUERIES, **kw)
            except Exception as e:  # noqa: BLE001
                self.fail("graphql", f"{vname}:build:{type(e).__name__}", f"graphql_schema({vname}) raised {e!r}", vname, repr(e), "a schema", self.GQL)
                continue
            problems: List[str] = []
            for c in named_objects(t):
                expn = sorted(ext(o, f, dyn) for o, f in flat_fields(c))
                for tn in (c.name, c.name + "Input"):
                    gt = schema.type_map.get(tn)
                    if gt is None:
                        problems.append(f"type-map:no type {tn}")
                    elif sorted(gt.fields) != expn:
                        problems.append(f"type-map:{tn} has fields {sorted(gt.fields)}, external names are {expn}")
            q = schema.query_type.fields
            put, get = d(f"put_{t.name}"), d(f"get_{t.name}")
            exp_args = sorted([d("arg"), d("some_param"), d(param_alias(t))])
            if put not in q or get not in q:
                problems.append(f"type-map:query fields {sorted(q)} lack {put} / {get}")
            elif sorted(q[put].args) != exp_args:
                problems.append(f"type-map:arguments {sorted(q[put].args)} != {exp_args}")
            if problems:
                self.fail("graphql", f"{vname}:{problems[0].split(' ')[0]}", "; ".join(problems[:4]), vname, problems, "GraphQL names = aliaser(class_aliaser(alias or name))", self.GQL)
                continue
            # execution: the selection / the input object / the arguments are keyed by the same names
            sel = self._selection(t, dyn)
            query = f"{{ {get} {sel} }}"
            self.case("graphql-execute-output", query)
            res = graphql.graphql_sync(schema, query)
            expd = {get: build_datum(t, dyn)}
            if res.errors or res.data != expd:
                self.fail("graphql", f"{vname}:execute-output", f"query {query} gives data={res.data!r} errors={res.errors!r}, expected {expd!r}", query, (res.data, repr(res.errors)), expd, self.GQL)
            lit = self._literal(build_datum(t, dyn))
            query = f"{{ {put}({d('arg')}: {lit}, {d('some_param')}: 3, {d(param_alias(t))}: 4) }}"
            self.case("graphql-execute-input", query)
            self.mod.GOT.clear()
            res = graphql.graphql_sync(schema, query)
            got = [(image(t, a), s, p) for a, s, p in self.mod.GOT]
            expg = [(expected_image(t), 3, 4)]
            if res.errors or got != expg:
                self.fail("graphql", f"{vname}:execute-input", f"query {query}: resolver received {got!r} errors={res.errors!r}, expected {expg!r}", query, (got, repr(res.errors)), expg, self.GQL)
            # argument errors are located under the argument's external name
            query = f"{{ {put}({d('arg')}: {lit}, {d('some_param')}: -1) }}"
            self.case("graphql-argument-error", query)
            res = graphql.graphql_sync(schema, query)
            locs = self._error_locs(res)
            expl = [((d("some_param"),), "less than 0 (minimum)")]
            if locs != expl:
                self.fail("graphql", f"{vname}:argument-error-loc", f"query {query}: errors {locs!r} ({res.errors!r}), expected {expl!r}", query, locs, expl, self.GQL)
            for datum, exp in self._validator_cases(t, (d("arg"),), [], dyn):
                query = f"{{ {put}({d('arg')}: {self._literal(datum)}) }}"
                self.case("graphql-argument-error", query)
                res = graphql.graphql_sync(schema, query)
                locs = self._error_locs(res)
                if locs != sorted(exp, key=repr):
                    self.fail("graphql", f"{vname}:argument-validator-loc:{query}", f"query {query}: errors {locs!r} ({res.errors!r}), expected {exp!r}", query, locs, exp, self.GQL)

    def _error_locs(self, res):
        out = []
        for e in res.errors or []:
            oe = getattr(e, "original_error", None)
            arg = oe.args[0] if oe is not None and oe.args else None
            if isinstance(arg, list) and all(isinstance(x, dict) and "loc" in x for x in arg):
                out += [(tuple(x["loc"]), x["err"]) for x in arg]
            else:
                out.append(("not-a-located-error", str(e)))
        return sorted(out, key=repr)

    def _selection(self, t: CT, dyn) -> str:
        parts = []
        for o, f in flat_fields(t):
            k = ext(o, f, dyn)
            parts.append(k + (" " + self._selection(f.sub, dyn) if f.sub is not None else ""))
        return "{ " + " ".join(parts) + " }"

    def _literal(self, v) -> str:
        if isinstance(v, dict):
            return "{" + ", ".join(f"{k}: {self._literal(x)}" for k, x in v.items()) + "}"
        if isinstance(v, list):
            return "[" + ", ".join(self._literal(x) for x in v) + "]"
        return repr(v)
