"""C06 -- deserialize and deserialization_schema agree on what is valid (B).

case = (type, option set, datum).  The two sides are the real public API:
  deser side : apischema.deserialize(T, d, **opts) raises ValidationError or not
  schema side: jsonschema.Draft202012Validator(deserialization_schema(T, **opts)).is_valid(d)
(the independent validator is the oracle for the meaning of the schema).  The statement says the
two are equal on the common semantic domain, which is applied as a *filter on the cases*:
  * integer-valued floats are not generated (1.0 is an integer for JSON Schema),
  * every pattern of the pools is start-anchored (re.match == JSON Schema search),
  * `format` / `contentEncoding` are annotations: for types carrying one, strings other than
    well-formed ones are outside the domain,
  * array *uniqueness* is not compared at set-typed positions: `uniqueItems` is removed from the
    schema of a type with set positions (when the type also writes an explicit `unique` constraint
    the keyword cannot be attributed, and arrays with duplicates are left out instead); minItems /
    maxItems ARE compared there, on arrays whose duplicates put len(array) and len(set) on
    different sides of the bound (schema_common.dup_variants).
Integers beyond 2**53 are not compared for types with a multipleOf constraint (the validator
computes multipleOf in floating point: a limitation of the oracle, not of the statement).
"""

import copy
import random
from typing import Any, Dict, List, Tuple

from . import model as M
from . import pools as P
from . import schema_common as C
from .deser_e2e import camel, method_classes
from .schema_common import Native, tname

INT, FLOAT, STR, BOOL, NONE = P.INT, P.FLOAT, P.STR, P.BOOL, P.NONE
cons = M.cons

# ---------------------------------------------------------------------------
# additional descriptions (features of the statement's type space that pools.type_pool lacks)

R1 = M.Obj("dataclass", "R1", (M.Fld("a", INT, init=False, has_default=True, default=0), M.Fld("b", STR)))
R2 = M.Obj("dataclass", "R2", (M.Fld("a", M.Opt(INT), has_default=True, default=None, none_as_undefined=True), M.Fld("b", INT, has_default=True, default=1)))
R3 = M.Obj("dataclass", "R3", (M.Fld("t", M.Tup((INT, STR))), M.Fld("c", M.Lit((1,)), has_default=True, default=1), M.Fld("e", P.COLOR, has_default=True, default=None)))
R4 = M.Obj("dataclass", "R4", (M.Fld("k", M.Opt(P.NAME), has_default=True, default=None), M.Fld("m", M.Mapp(STR, M.Opt(INT)), factory="dict")))
R5 = M.Obj("dataclass", "R5", (M.Fld("xs", M.Ann(M.Coll("list", INT), cons(min_items=1)), cons=cons(max_items=2)), M.Fld("u", M.Uni((INT, STR)), has_default=True, default=0)))
R6 = M.Obj("typeddict", "R6", (M.Fld("a", INT), M.Fld("n", P.A, td_required=False)))
R7 = M.Obj("dataclass", "R7", (M.Fld("const", INT), M.Fld("items", M.Coll("list", INT), factory="list"), M.Fld("type", STR, has_default=True, default="t")))
R8 = M.Obj("dataclass", "R8", (M.Fld("p", P.POS), M.Fld("q", M.Ann(P.POS, cons(max=5)), has_default=True, default=0), M.Fld("ps", M.Coll("list", P.POS), factory="list")))
R9 = M.Obj("dataclass", "R9", (M.Fld("a", P.A), M.Fld("b", M.Opt(P.A), has_default=True, default=None), M.Fld("n", M.Opt(M.Ref("Node")), has_default=True, default=None)))


SETF = M.Obj("dataclass", "SetF", (M.Fld("tags", M.Coll("set", STR), cons=cons(max_items=2)), M.Fld("ids", M.Coll("abstractset", INT), cons=cons(min_items=2)), M.Fld("fz", M.Ann(M.Coll("frozenset", INT), cons(min_items=1)), cons=cons(max_items=3))))
WORM = M.Obj("dataclass", "Worm", (M.Fld("type", M.Lit(("worm",))), M.Fld("length", INT, has_default=True, default=1)))


# ---------------------------------------------------------------------------
# stacks of schemas: 3 and 4 levels on one position, constraint-carrying levels separated by
# annotation-only ones, the levels being nested Annotated, a NewType-level schema, a field-level
# schema (and the per-call schema= of the "schema" option set adds one more on top)

NOTES = (cons(description="d"), cons(title="t", deprecated=True), cons(examples=(1,)), cons(description="d2", title="t2"))
FAMILIES = {
    # base type, constraint levels (>= 3, mergeable in any order), boundary data
    "int": (INT, (cons(min=0), cons(max=10), cons(min=2, exc_max=9), cons(mult_of=2)), (-1, 0, 1, 2, 3, 8, 9, 10, 11, 12, "a", None)),
    "float": (FLOAT, (cons(exc_min=0), cons(max=2.5), cons(min=0.5)), (0, 0.25, 0.5, 1, 2.5, 2.75, 3, "a")),
    "str": (STR, (cons(min_len=1), cons(max_len=3), cons(pattern="^a"), cons(min_len=2, max_len=4)), ("", "a", "ab", "abc", "abcd", "abcde", "b", "bcd", 1)),
    "list": (M.Coll("list", INT), (cons(min_items=1), cons(max_items=2), cons(unique=True), cons(min_items=2, max_items=3)), ([], [1], [1, 2], [1, 1], [1, 2, 3], [1, 2, 3, 4], [1, 1, 1], ["a"], 1)),
    "dict": (M.Mapp(STR, INT), (cons(min_props=1), cons(max_props=2), cons(min_props=2, max_props=3)), ({}, {"a": 1}, {"a": 1, "b": 2}, {"a": 1, "b": 2, "c": 3}, {"a": 1, "b": 2, "c": 3, "d": 4}, {"a": "x"}, [])),
}
STACK_DATA: Dict[Any, List[Any]] = {}


def stack_descriptions(tier: str) -> List[Any]:
    import itertools

    out: List[Any] = []
    n = [0]

    def ann(base, levels):
        t = base
        for c in levels:
            t = M.Ann(t, c)
        return t

    for fam, (base, cs, data) in FAMILIES.items():
        a, b = cs[0], cs[1]
        orders3 = list(itertools.permutations((a, NOTES[0], b)))  # the annotation-only level at the bottom / middle / top
        orders3 += [(a, b, c) for c in cs[2:]] + [(cs[-1], NOTES[1], a), (b, NOTES[2] if fam in ("int",) else NOTES[3], cs[2])]
        orders4 = [(a, NOTES[0], b, NOTES[1]), (NOTES[0], a, NOTES[3], b), (a, b, NOTES[0], cs[2]), (b, NOTES[1], NOTES[0], a), (cs[2], a, NOTES[3], b)]
        if tier == "thorough":
            orders4 += list(itertools.permutations((a, NOTES[0], b, cs[2])))[:12]
        for k, levels in enumerate(orders3 + orders4):
            n[0] += 1
            variants = []
            # (1) nested Annotated only
            variants.append((ann(base, levels), lambda x: x))
            # (2) the innermost level registered on a NewType, the others Annotated around it
            nt = M.NewT(f"Stk{n[0]}N", base, levels[0])
            variants.append((ann(nt, levels[1:]), lambda x: x))
            # (3) the outermost level as the schema of a field, below a NewType + Annotated
            if k % 2 == 0 or tier == "thorough":
                nt2 = M.NewT(f"Stk{n[0]}F", base, levels[0])
                obj = M.Obj("dataclass", f"Stk{n[0]}O", (M.Fld("v", ann(nt2, levels[1:-1]), cons=levels[-1]), M.Fld("w", ann(base, levels), has_default=True, default=None)))
                variants.append((obj, lambda x: {"v": x}))
                variants.append((obj, lambda x, d=data: {"v": d[3], "w": x}))
            # (4) below a container: the stack describes the items / values
            if k % 3 == 0 or tier == "thorough":
                variants.append((M.Coll("list", ann(base, levels)), lambda x: [x]))
                variants.append((M.Mapp(STR, M.Opt(ann(base, levels))), lambda x: {"k": x}))
            for td, wrap in variants:
                if td not in STACK_DATA:
                    STACK_DATA[td] = []
                    out.append(td)
                STACK_DATA[td] += [wrap(x) for x in data]
    return out


def extra_descriptions(tier: str) -> List[Any]:
    out: List[Any] = [
        R1,
        R2,
        R3,
        R4,
        R5,
        R6,
        R7,
        R8,
        R9,
        M.Opt(M.Lit((1, 2))),
        M.Opt(M.Lit(("a",))),
        M.Uni((P.COLOR, STR)),
        M.Uni((M.Lit((1,)), NONE, STR)),
        M.Coll("list", M.Opt(P.COLOR)),
        M.Tup((M.Opt(P.NAME), INT)),
        M.Ann(M.Coll("list", M.AnyT()), cons(unique=True)),
        M.Ann(M.Tup((INT, INT)), cons(unique=True)),
        M.Coll("list", M.Tup((INT,))),
        M.Tup((M.Tup((INT, STR)), M.Coll("list", STR))),
        M.Mapp(M.Ann(STR, cons(pattern="^k")), INT),
        M.Mapp(M.Ann(STR, cons(pattern="^k")), P.A),
        M.Mapp(M.NewT("Key", STR, cons(pattern="^k")), INT),
        M.Mapp(STR, M.Mapp(STR, INT)),
        M.Ann(INT, cons(mult_of=3)),
        M.Ann(M.Ann(INT, cons(min=0, max=10)), cons(min=2, max=20)),
        M.Ann(M.Ann(INT, cons(mult_of=2)), cons(mult_of=3)),
        M.Ann(M.Ann(STR, cons(min_len=1, max_len=3)), cons(min_len=2, max_len=5)),
        M.Ann(P.NODE, cons(min_props=1, max_props=1)),
        M.Opt(M.Ann(STR, cons(pattern="^a"))),
        M.Uni((M.Ann(INT, cons(min=3)), M.Ann(STR, cons(min_len=2)))),
        M.Uni((M.Ann(INT, cons(min=3)), M.Ann(INT, cons(max=0)))),
        M.Uni((P.TD1, P.NT)),
        M.Coll("list", P.NODE),
        M.Tup((P.A, P.A)),
        *[M.Ann(M.Coll(k, t), c) for k in ("set", "abstractset", "frozenset") for t in (INT, STR) for c in (cons(min_items=2), cons(max_items=2), cons(min_items=2, max_items=3))],
        SETF,
        M.Coll("list", M.Ann(M.Coll("set", INT), cons(max_items=1))),
        M.Mapp(STR, M.Ann(M.Coll("frozenset", STR), cons(min_items=2))),
        M.Opt(M.Ann(M.Coll("abstractset", INT), cons(min_items=1, max_items=2))),
        M.Ann(M.Lit((1, 2)), cons(min=2)),
        M.Ann(P.NAME, cons(min_len=2)),
        M.Disc((P.BIRD, WORM), "type"),
        M.Coll("list", M.Disc((P.BIRD, WORM), "type")),
    ]
    if tier == "thorough":
        out += [M.Opt(x) for x in (R3, R5, R7, R8)] + [M.Coll("list", x) for x in (R1, R2, R4, R6, R9)] + [M.Mapp(STR, x) for x in (R3, R8)]
    return out


# ---------------------------------------------------------------------------
# natives: standard types and conversions to standard types (total converters only: a converter
# that rejects some values of its source type expresses a constraint the schema cannot carry)

UUID_S = "12345678-1234-5678-1234-567812345678"


def _std(tp_expr):
    def build(realm):
        import collections
        import datetime
        import decimal
        import ipaddress
        import pathlib
        import typing
        import uuid

        return eval(tp_expr, {"typing": typing, "uuid": uuid, "datetime": datetime, "decimal": decimal, "pathlib": pathlib, "ipaddress": ipaddress, "collections": collections}), {}

    return build


def _fresh(realm, name, ns_builder):
    """classes are created once per realm (registrations are global in apischema)"""
    key = "native:" + name
    if key not in realm.built:
        realm.built[key] = ns_builder()
    return realm.built[key]


def _hex_registered(realm):
    def mk():
        from dataclasses import dataclass

        from apischema import deserializer

        @dataclass
        class Hex:
            value: int

        Hex.__module__ = realm.name

        @deserializer
        def from_int(i: int) -> Hex:
            return Hex(i)

        return Hex

    return _fresh(realm, "Hex", mk), {}


def _multi_registered(realm):
    def mk():
        from dataclasses import dataclass
        from typing import List

        from apischema import deserializer

        @dataclass
        class Multi:
            value: Any

        Multi.__module__ = realm.name

        @deserializer
        def multi_from_int(i: int) -> Multi:
            return Multi(i)

        @deserializer
        def multi_from_strs(xs: List[str]) -> Multi:
            return Multi(xs)

        return Multi

    return _fresh(realm, "Multi", mk), {}


def _from_dataclass(realm):
    def mk():
        from dataclasses import dataclass, field
        from typing import List

        from apischema import deserializer

        @dataclass
        class PointDTO:
            x: int
            y: int = 0
            tags: List[str] = field(default_factory=list)

        @dataclass
        class Point:
            pair: tuple

        PointDTO.__module__ = Point.__module__ = realm.name

        @deserializer
        def from_dto(d: PointDTO) -> Point:
            return Point((d.x, d.y))

        return Point

    return _fresh(realm, "Point", mk), {}


def _dynamic(realm):
    def mk():
        from dataclasses import dataclass
        from typing import Tuple

        @dataclass
        class Seg:
            a: int
            b: int

        Seg.__module__ = realm.name

        def seg_from_pair(p: Tuple[int, int]) -> Seg:
            return Seg(*p)

        return Seg, seg_from_pair

    seg, conv = _fresh(realm, "Seg", mk)
    return seg, {"conversion": conv}


def _dynamic_nested(realm):
    def mk():
        from dataclasses import dataclass
        from typing import Dict, List, Optional

        @dataclass
        class Tag:
            s: str

        Tag.__module__ = realm.name

        def tag_from_str(s: str) -> Tag:
            return Tag(s)

        return Dict[str, List[Optional[Tag]]], tag_from_str

    tp, conv = _fresh(realm, "TagMap", mk)
    return tp, {"conversion": conv}


def _default_conv(realm):
    def mk():
        from dataclasses import dataclass
        from typing import List

        from apischema import settings

        @dataclass
        class Wrapped:
            v: int

        @dataclass
        class Holder:
            w: Wrapped
            ws: List[Wrapped]

        Wrapped.__module__ = Holder.__module__ = realm.name

        def wrapped_from_int(i: int) -> Wrapped:
            return Wrapped(i)

        builtin = settings.deserialization.default_conversion

        def default_conversion(tp):
            return wrapped_from_int if tp is Wrapped else builtin(tp)

        return Holder, default_conversion

    tp, dc = _fresh(realm, "Holder", mk)
    return tp, {"default_conversion": dc}


def _field_conv(realm):
    def mk():
        from dataclasses import dataclass, field
        from typing import List, Optional

        from apischema import schema
        from apischema.metadata import conversion

        @dataclass
        class Cents:
            n: int

        def cents_from_int(i: int) -> Cents:
            return Cents(i)

        def cents_from_strs(xs: List[str]) -> Cents:
            return Cents(len(xs))

        @dataclass
        class Price:
            amount: Cents = field(metadata=conversion(deserialization=cents_from_int) | schema(min=0))
            alt: Optional[Cents] = field(default=None, metadata=conversion(deserialization=cents_from_strs))

        Cents.__module__ = Price.__module__ = realm.name
        return Price

    return _fresh(realm, "Price", mk), {}


def _generic(realm):
    def mk():
        from dataclasses import dataclass, field
        from typing import Generic, List, Optional, TypeVar

        T = TypeVar("T")

        @dataclass
        class Box(Generic[T]):
            item: T
            more: List[T] = field(default_factory=list)
            opt: Optional[T] = None

        Box.__module__ = realm.name
        return Box

    box = _fresh(realm, "Box", mk)
    return box[int], {}


def _generic_nested(realm):
    box, _ = _generic(realm)
    import typing

    origin = typing.get_origin(box)
    return typing.List[origin[origin[str]]], {}


def _generic_with_schema(realm):
    def mk():
        from dataclasses import dataclass
        from typing import Generic, Optional, TypeVar

        from apischema import schema

        T = TypeVar("T")

        @schema(min_props=1, max_props=2)
        @dataclass
        class Range(Generic[T]):
            lower: Optional[T] = None
            upper: Optional[T] = None
            step: Optional[T] = None

        Range.__module__ = realm.name
        return Range

    return _fresh(realm, "Range", mk)


def _range_int(realm):
    return _generic_with_schema(realm)[int], {}


def _range_bare(realm):
    return _generic_with_schema(realm), {}


def _range_nested(realm):
    import typing

    r = _generic_with_schema(realm)
    return typing.Dict[str, typing.List[r[typing.Annotated[str, __import__("apischema").schema(min_len=1)]]]], {}


def _newtype_chain(realm):
    def mk():
        import typing

        from apischema import schema

        Small = typing.NewType("Small", int)
        schema(max=10)(Small)
        Tiny = typing.NewType("Tiny", Small)
        schema(min=2, max=20)(Tiny)
        Small.__module__ = Tiny.__module__ = realm.name
        return typing.List[Tiny]

    return _fresh(realm, "Tiny", mk), {}


def _required_default(realm):
    def mk():
        from dataclasses import dataclass, field

        from apischema.metadata import required

        @dataclass
        class Rpc:
            method: str
            jsonrpc: str = field(default="2.0", metadata=required)

        Rpc.__module__ = realm.name
        return Rpc

    return _fresh(realm, "Rpc", mk), {}


def _inherited_disc(realm):
    def mk():
        from dataclasses import dataclass
        from typing import Literal

        from apischema import discriminator

        @discriminator("kind")
        @dataclass
        class Shape:
            kind: str

        @dataclass
        class Circle(Shape):
            kind: Literal["Circle"]
            r: int = 1

        @dataclass
        class Square(Shape):
            kind: Literal["Square"]
            side: int = 1

        for c in (Shape, Circle, Square):
            c.__module__ = realm.name
        return Shape

    return _fresh(realm, "Shape", mk), {}


def _inherited_disc_plain(realm):
    def mk():
        from dataclasses import dataclass

        from apischema import discriminator

        @discriminator("type")
        class Pet:
            pass

        @dataclass
        class PCat(Pet):
            pass

        @dataclass
        class PDog(Pet):
            n: int = 0

        for c in (Pet, PCat, PDog):
            c.__module__ = realm.name
        return Pet

    return _fresh(realm, "Pet", mk), {}


def _undefined_field(realm):
    def mk():
        from dataclasses import dataclass
        from typing import Union

        from apischema import Undefined, UndefinedType

        @dataclass
        class Und:
            a: int
            u: Union[str, UndefinedType] = Undefined

        Und.__module__ = realm.name
        return Und

    return _fresh(realm, "Und", mk), {}


def _str_subtype_key(realm):
    def mk():
        import typing
        import uuid

        return typing.Dict[uuid.UUID, int]

    return _fresh(realm, "UuidMap", mk), {}


NON_STR = (None, True, 0, 2.5, [], {}, ["a"], {"a": 1})


def natives(tier: str) -> List[Native]:
    return [
        Native("uuid.UUID", _std("uuid.UUID"), samples=(UUID_S,), others=NON_STR, only_strings=(UUID_S,)),
        Native("datetime.date", _std("datetime.date"), samples=("2020-01-02",), others=NON_STR, only_strings=("2020-01-02",)),
        Native("datetime.datetime", _std("datetime.datetime"), samples=("2020-01-02T03:04:05",), others=NON_STR, only_strings=("2020-01-02T03:04:05",)),
        Native("List[Optional[datetime.time]]", _std("typing.List[typing.Optional[datetime.time]]"), samples=(["03:04:05", None], []), others=NON_STR + ([1],), only_strings=("03:04:05",)),
        Native("bytes", _std("bytes"), samples=("YWJj", ""), others=NON_STR, only_strings=("YWJj", "")),
        Native("ipaddress.IPv4Address", _std("ipaddress.IPv4Address"), samples=("127.0.0.1",), others=NON_STR, only_strings=("127.0.0.1",)),
        Native("decimal.Decimal", _std("decimal.Decimal"), samples=(2.5, 3, -1), others=("a", "1.5") + NON_STR),
        Native("pathlib.Path", _std("pathlib.Path"), samples=("a/b", ""), others=NON_STR),
        Native("Deque[int]", _std("typing.Deque[int]"), samples=([1, 2], []), others=(["a"], [1, "a"], {"a": 1}, "ab", [None])),
        Native("Dict[str,Optional[decimal.Decimal]]", _std("typing.Dict[str, typing.Optional[decimal.Decimal]]"), samples=({"a": 1.5, "b": None}, {}), others=({"a": "x"}, [1])),
        Native("Hex<-int (registered deserializer)", _hex_registered, samples=(7, 0), others=("a", [7], {"value": 7}, None, True, 2.5)),
        Native("Multi<-int|List[str] (two registered deserializers)", _multi_registered, samples=(7, ["a", "b"], []), others=("a", [7], ["a", 1], {"value": 7}, None, True, 2.5)),
        Native("Point<-PointDTO (deserializer from a dataclass)", _from_dataclass, samples=({"x": 1, "y": 2, "tags": ["t"]}, {"x": 1}), others=({"y": 1}, {"x": "a"}, {"pair": [1, 2]}, [1, 2]), has_obj=True),
        Native("Seg conversion=Tuple[int,int]->Seg (dynamic)", _dynamic, samples=([1, 2],), others=([1], [1, 2, 3], [1, "a"], {"a": 1, "b": 2}, [True, 1])),
        Native("Dict[str,List[Optional[Tag]]] conversion=str->Tag (dynamic, nested)", _dynamic_nested, samples=({"k": ["a", None]}, {}), others=({"k": [1]}, {"k": "a"}, {"k": [{"s": "a"}]}, ["a"])),
        Native("Holder default_conversion=int->Wrapped", _default_conv, samples=({"w": 1, "ws": [2, 3]},), others=({"w": {"v": 1}, "ws": []}, {"w": 1}, {"w": "a", "ws": []}, {"w": 1, "ws": [{"v": 1}]}), has_obj=True),
        Native("Price (field conversions + field schema)", _field_conv, samples=({"amount": 3, "alt": ["a"]}, {"amount": 0}), others=({"amount": -1}, {"amount": {"n": 1}}, {"amount": 1, "alt": 2}, {"amount": 1, "alt": None}, {"alt": ["a"]}), has_obj=True),
        Native("Box[int] (generic dataclass)", _generic, samples=({"item": 1, "more": [2], "opt": 3}, {"item": 1}), others=({"item": "a"}, {"item": 1, "more": ["a"]}, {"item": 1, "opt": None}, {"item": 1, "opt": "a"}), has_obj=True),
        Native("List[Box[Box[str]]] (nested generic)", _generic_nested, samples=([{"item": {"item": "a"}}], [{"item": {"item": "a", "more": ["b"]}, "more": [{"item": "c"}]}], []), others=([{"item": "a"}], [{"item": {"item": 1}}], {"item": {"item": "a"}}), has_obj=True),
        Native("Range[int] (schema registered on the generic class)", _range_int, samples=({"lower": 1}, {"lower": 1, "upper": 2}), others=({}, {"lower": 1, "upper": 2, "step": 3}, {"lower": None}, {"lower": "a"}, {"upper": None, "step": None}), has_obj=True),
        Native("Range (unparametrized generic with a registered schema)", _range_bare, samples=({"lower": 1}, {"lower": "a", "upper": [2]}), others=({}, {"lower": 1, "upper": 2, "step": 3}, {"lower": None}), has_obj=True),
        Native("Dict[str,List[Range[str<min_len=1>]]]", _range_nested, samples=({"k": [{"lower": "a"}]}, {"k": []}, {}), others=({"k": [{}]}, {"k": [{"lower": ""}]}, {"k": [{"lower": "a", "upper": "b", "step": "c"}]}, {"k": [{"lower": 1}]}, {"k": {}}), has_obj=True),
        Native("List[Tiny] (NewType of a NewType, both with a registered schema)", _newtype_chain, samples=([2, 10], []), others=([1], [11], [20], [2, 30], ["a"], 5)),
        Native("Rpc (required field with default)", _required_default, samples=({"method": "m", "jsonrpc": "2.0"},), others=({"method": "m"}, {"jsonrpc": "2.0"}, {"method": 1, "jsonrpc": "2.0"}), has_obj=True),
        Native("Shape (inherited discriminator, dedicated Literal fields)", _inherited_disc, samples=({"kind": "Circle", "r": 2}, {"kind": "Square"}, {"kind": "Square", "side": 3}), others=({"kind": "Circle", "side": 2}, {"kind": "Shape"}, {"kind": "Triangle"}, {"r": 2}, {"kind": 1}, {}), has_obj=True),
        Native("Und (Undefined default)", _undefined_field, samples=({"a": 1, "u": "s"}, {"a": 1}), others=({"a": 1, "u": None}, {"a": 1, "u": 2}, {"u": "s"}), has_obj=True),
        Native("Dict[uuid.UUID,int]", _str_subtype_key, samples=({UUID_S: 1}, {}), others=({UUID_S: True}, [1], {UUID_S: None}), only_strings=(UUID_S,)),
        Native("Pet (inherited discriminator on a plain parent, no dedicated field)", _inherited_disc_plain, samples=({"type": "PCat"}, {"type": "PDog", "n": 1}), others=({"type": "Pet"}, {"n": 1}, {"type": "PCat", "n": 1}, {}), has_obj=True),
    ]


# ---------------------------------------------------------------------------
# option sets: common options go to both sides; `schema_only` options only exist on the schema
# side (all_refs changes the shape of the schema, never its meaning)


def per_call_schema():
    from apischema import schema

    # one constraint per JSON class: JSON Schema ignores the keywords of the other classes
    return schema(min=1, max_len=2, max_items=1, min_props=1)


def option_sets(tier: str) -> Dict[str, dict]:
    sets: Dict[str, dict] = {
        "default": {"common": {}},
        "additional": {"common": {"additional_properties": True}, "needs_obj": True},
        "camel": {"common": {"aliaser": camel}, "needs_obj": True},
        "all_refs": {"common": {}, "schema_only": {"all_refs": True}, "needs_named": True},
        "no_refs": {"common": {}, "schema_only": {"all_refs": False}, "needs_named": True, "thorough": True},
        "schema": {"common": {"schema": per_call_schema}},
        "additional+camel+all_refs": {"common": {"additional_properties": True, "aliaser": camel}, "schema_only": {"all_refs": True}, "needs_obj": True},
        "no_additional": {"common": {"additional_properties": False}, "needs_obj": True, "thorough": True},
    }
    return {k: v for k, v in sets.items() if tier == "thorough" or not v.get("thorough")}


def _aliased(data: List[Any], aliaser) -> List[Any]:
    """the stack data of object wrappers use the field names v / w: unchanged by the camel aliaser"""
    return [copy.deepcopy(d) for d in data]


def run(report, tier: str, seed: int, log_name: str = "deserialize_vs_schema"):
    from apischema import ValidationError
    from apischema.deserialization import deserialization_method
    from apischema.json_schema import deserialization_schema
    from jsonschema import Draft202012Validator

    rng = random.Random(seed)
    stacks = stack_descriptions(tier)
    pool: List[Any] = P.type_pool(tier) + extra_descriptions(tier) + stacks + natives(tier)
    osets = option_sets(tier)
    log = report.driver(
        log_name,
        bound=f"{len(pool)} types (pools.type_pool: grammar depth <= {'2' if tier == 'quick' else '3'}; + {len(extra_descriptions(tier))} descriptions for nested constraints / literals in unions / keyword-named fields / readOnly, none_as_undefined; + {len(stacks)} schema stacks (3 / 4 levels over Annotated / NewType / field schema / per-call schema, constraint levels separated by annotation-only levels, for int / float / str / list / dict, also below containers); + {len(natives(tier))} real types: standard types with format, registered / dynamic / default / field conversions to standard types, generics, inherited discriminator) x option sets {list(osets)} x per-type datum pools (valid samples, <= {30 if tier == 'quick' else 80} boundary mutants each, {len(P.ATOMS)} atoms, {6 if tier == 'quick' else 40} seeded random values), restricted to the common semantic domain",
    )
    log.rule("case = (type, option set, datum) with the datum in the common semantic domain (no integer-valued float; at set positions uniqueItems is removed from the schema -- or, when the type also writes a `unique` constraint, arrays with duplicates are left out --, items-count constraints are compared on arrays with duplicates across the bound; only well-formed strings for format types); deserialize(T, d, **opts) accepts  <=>  Draft202012Validator(deserialization_schema(T, **opts)).is_valid(d); distinct by the triple; non-trivial when the datum is a list / dict or the type is not a bare primitive")
    realm = C.make_realm("c06")
    try:
        for td in pool:
            name = tname(td)
            try:
                tp, extra = C.realize(td, realm)
            except Exception as e:
                report.tool_error(f"cannot realise {name}: {e!r}")
                continue
            set_pos = C.has_set_position(td)
            # uniqueness is not compared at set positions: when every uniqueItems of the schema can only
            # come from a set position (no `unique` constraint written anywhere) the keyword is removed
            # from the schema and ALL data are compared (items-count constraints still count the items
            # of the JSON array); otherwise arrays with duplicates are left out for this type
            strip = set_pos and not C.has_explicit_unique(td)
            mult_of = C.any_node(td, lambda t: isinstance(t, M.Ann) and t.cons.get("mult_of") is not None)
            for optname, o in osets.items():
                if o.get("needs_obj") and not C.has_obj(td):
                    continue
                if o.get("needs_named") and not C.has_named(td):
                    continue
                common = {k: (v() if k == "schema" else v) for k, v in o["common"].items()}
                common.update(extra)
                P.set_sample_aliaser(common.get("aliaser"))
                case0 = {"type": name, "options": optname}
                try:
                    sch = deserialization_schema(tp, **common, **o.get("schema_only", {}))
                except Exception as e:
                    log.fail(f"schema-crash:{name}:{optname}:{type(e).__name__}", f"deserialization_schema({name}, {optname}) raised {e!r}", case0, observed=repr(e), functions_involved=["deserialization_schema"])
                    continue
                try:
                    Draft202012Validator.check_schema(sch)
                    validator = Draft202012Validator(C.strip_unique(sch) if strip else sch)
                except Exception as e:
                    log.fail(f"schema-invalid:{name}:{optname}", f"deserialization_schema({name}, {optname}) is not a valid 2020-12 schema: {str(e)[:200]}", {**case0, "schema": sch}, observed=repr(sch)[:600], functions_involved=["deserialization_schema"])
                    continue
                try:
                    meth = deserialization_method(tp, **common)
                except Exception as e:
                    log.fail(f"compile:{name}:{optname}:{type(e).__name__}", f"deserialization_method({name}, {optname}) raised {e!r}", case0, observed=repr(e), functions_involved=[])
                    continue
                involved = None
                diverged = False
                for d in C.data_pool(td, tier, rng, dups=set_pos, aliaser=common.get("aliaser")) + (_aliased(STACK_DATA.get(td, []), common.get("aliaser")) if not isinstance(td, Native) else []):
                    if diverged:
                        break
                    if C.has_intfloat(d):
                        continue
                    if set_pos and not strip and C.has_dup_array(d):
                        continue
                    if mult_of and C.has_bigint(d):
                        continue  # the validator's multipleOf is computed in floating point
                    nontrivial = isinstance(d, (list, dict)) or not isinstance(td, M.Prim)
                    log.case((name, optname, repr(d)), nontrivial, sample={"type": name, "options": optname, "datum": d} if nontrivial else None)
                    detail = ""
                    try:
                        meth(copy.deepcopy(d))
                        accepted = True
                    except ValidationError as e:
                        accepted = False
                        try:
                            detail = ";".join(f"{'/'.join(map(str, x['loc']))}:{x['err']}" for x in e.errors)[:160]
                        except Exception:
                            detail = "ValidationError"
                    except RecursionError:
                        accepted, detail = False, "crash:RecursionError"
                    except Exception as e:
                        accepted, detail = False, f"crash:{type(e).__name__}"
                    try:
                        valid = validator.is_valid(d)
                    except RecursionError:
                        # a definition that refers to itself without going through an instance
                        # position: validation is not defined (the schema is not well-founded)
                        diverged = True
                        log.fail(f"schema-diverges:{name}:{optname}", f"schema-diverges: T={name} options={optname}: validating {d!r} against deserialization_schema never terminates (a definition refers to itself at the same instance location)", {**case0, "datum": repr(d), "schema": sch}, observed="RecursionError in the validator", expected="a well-founded schema", functions_involved=["deserialization_schema", "SchemaBuilder"])
                        continue
                    except Exception as e:
                        report.tool_error(f"jsonschema failed on {name} / {d!r}: {e!r}")
                        continue
                    if accepted == valid:
                        continue
                    if involved is None:
                        try:
                            involved = method_classes(getattr(meth, "__self__", None)) + ["deserialization_schema", "SchemaBuilder"]
                        except Exception:
                            involved = ["deserialization_schema"]
                    if accepted:
                        why = C.why_invalid(validator, d)
                        kind = "schema-rejects"
                        summary = f"deserialize accepts but the schema rejects ({why})"
                    else:
                        why = detail
                        kind = "schema-accepts"
                        summary = f"the schema accepts but deserialize rejects ({why})"
                    log.fail(
                        f"{kind}:{name}:{optname}:{d!r}:{why}",
                        f"{kind}: T={name} options={optname} d={d!r}: {summary}",
                        {"type": name, "options": optname, "datum": repr(d), "schema": sch},
                        observed=f"deserialize {'accepts' if accepted else 'rejects'}; schema {'accepts' if valid else 'rejects'} [{why}]",
                        expected="deserialize accepts <=> the datum is valid against deserialization_schema",
                        functions_involved=involved,
                    )
    finally:
        P.set_sample_aliaser(None)
        realm.dispose()
    return log
