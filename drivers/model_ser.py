"""Serialization side of the executable reading of the specification: descriptions of the
serialization-only type features (serialized methods / properties, Undefined fields,
default_as_set, skip(serialization=...), field / dynamic / registered conversions), their
realisation as real classes, and the reference serialization `ref_serialize` with the omission
rule of the C04 statement.

Everything here is written from the property statements (C04 / C07 / C15) and the documentation
(docs/de_serialization.md "Serialization", docs/data_model.md "null vs undefined" / "Skip field" /
"flattening", docs/conversions.md) over the *descriptions* of drivers/model.py -- it never calls
apischema to decide an image.  The only apischema objects used are the ones a user passes in /
reads back: `Undefined`, `UndefinedType`, the metadata constructors, and `fields_set(obj)`, which
is the part of a value of a with_fields_set class that says which fields are set.

model.py is not edited: `SFld` / `SObj` subclass `Fld` / `Obj`, and `realize` here pre-builds
the classes model.py cannot build (from generated source, so that `@serialized` on methods and
properties goes through `__set_name__` exactly as in user code) and delegates the rest.
"""
from __future__ import annotations

import collections.abc as abc
import copy
import dataclasses
import enum
import types as pytypes
import typing
from dataclasses import dataclass
from typing import Any, Callable, Dict, List, Optional, Tuple

from . import model as M
from .model import Ann, AnyT, Coll, Cons, Disc, Enm, Fld, Lit, Mapp, NewT, Obj, Opt, Prim, Realm, Ref, TD, Tup, Uni  # noqa: F401

# ---------------------------------------------------------------------------
# descriptions


@dataclass(frozen=True)
class Conv:
    """a conversion (source -> target) by the pure function CONV_FUNCS[name](realm, value)"""

    name: str
    src: TD
    target: TD


@dataclass(frozen=True)
class SFld(Fld):
    undefined: bool = False  # annotated Union[t, UndefinedType]
    default_undefined: bool = False  # the default value is Undefined (set has_default=True)
    # PEP 593 metadata put on the WHOLE annotation: Annotated[<t, or Union[t, UndefinedType]>, schema(**outer)]
    # (Annotated around an Optional alone is Ann(Opt(t), cons) of model.py)
    outer: Optional[Cons] = None
    default_as_set: bool = False  # metadata default_as_set
    conv: Optional[Conv] = None  # metadata conversion(serialization=...)
    skip_ser: bool = False  # metadata skip(serialization=True): never serialized


@dataclass(frozen=True)
class SerM:
    """@serialized method / property / external function"""

    name: str
    ret: TD
    body: str  # key of BODIES: the value computed from the instance
    alias: Optional[str] = None
    kind: str = "method"  # method | property | function
    undefined: bool = False  # return annotation Union[ret, UndefinedType]
    outer: Optional[Cons] = None  # return annotation wrapped: Annotated[<ret or the union>, schema(**outer)]
    conv: Optional[Conv] = None  # serialized(conversion=...)
    on_error: Optional[str] = None  # serialized(error_handler=...): key of HANDLERS ("none": error_handler=None)
    order: Optional[int] = None  # serialized(order=order(n))
    # False: the subclass overrides the python method / property of an inherited serialized method WITHOUT
    # decorating it again ("Overriding of a serialized method in a subclass will also override the serialization")
    decorated: bool = True

    @property
    def key(self) -> str:
        """the name under which the method is registered and emitted (before the dynamic aliaser)"""
        return self.alias if self.alias is not None else self.name


@dataclass(frozen=True)
class SObj(Obj):
    serialized: Tuple[SerM, ...] = ()
    serializer: Optional[Conv] = None  # registered with apischema.serializer (class-level conversion)
    # inheritance: `fields` lists ALL fields (inherited first); the class is `class name(base)` declaring
    # only the fields named in `own`, re-decorated with @dataclass or left a plain subclass;
    # `fields_set` says whether THIS class is decorated with with_fields_set
    base: Optional[str] = None
    own: Tuple[str, ...] = ()
    redecorate: bool = True
    generic: bool = False  # class name(typing.Generic[T]); `TVar()` stands for T in the field / return types
    # the (sub)class overrides __init__: the own fields named here are assigned by it when given
    # ("pre": before calling super().__init__ with the other arguments, "post": after)
    custom_init: Tuple[Tuple[str, str], ...] = ()


@dataclass(frozen=True)
class TVar(TD):
    """the type variable of the enclosing generic class"""


@dataclass(frozen=True)
class Spec(TD):
    """a specialised generic class: obj[arg]"""

    obj: SObj
    arg: TD


def subst(td, arg: TD):
    """the description with the type variable replaced by `arg`"""
    if isinstance(td, TVar):
        return arg
    if isinstance(td, Spec):
        return Spec(td.obj, subst(td.arg, arg))
    if isinstance(td, SObj):
        return dataclasses.replace(td, fields=tuple(subst(f, arg) for f in td.fields), serialized=tuple(subst(m, arg) for m in td.serialized), generic=False)
    if isinstance(td, Fld):
        return dataclasses.replace(td, t=subst(td.t, arg))
    if isinstance(td, SerM):
        return dataclasses.replace(td, ret=subst(td.ret, arg))
    if isinstance(td, (Opt, Coll, Ann, NewT)):
        return dataclasses.replace(td, t=subst(td.t, arg))
    if isinstance(td, Uni):
        return Uni(tuple(subst(a, arg) for a in td.alts))
    if isinstance(td, Tup):
        return Tup(tuple(subst(a, arg) for a in td.elts))
    if isinstance(td, Mapp):
        return dataclasses.replace(td, k=subst(td.k, arg), v=subst(td.v, arg))
    return td


def _has_tvar(td) -> bool:
    if isinstance(td, (TVar, Spec)):
        return True
    if isinstance(td, (Opt, Coll, Ann, NewT)):
        return _has_tvar(td.t)
    if isinstance(td, Uni):
        return any(map(_has_tvar, td.alts))
    if isinstance(td, Tup):
        return any(map(_has_tvar, td.elts))
    if isinstance(td, Mapp):
        return _has_tvar(td.k) or _has_tvar(td.v)
    return False


@dataclass(frozen=True)
class Dyn(TD):
    """the type t serialized with the dynamic conversion `conv` (serialize(..., conversion=))"""

    t: TD
    conv: Conv


_NOT_GIVEN = object()


def _undefined():
    from apischema import Undefined

    return Undefined


BODIES: Dict[str, Callable[[Any], Any]] = {
    "const7": lambda s: 7,
    "a_plus1": lambda s: s.a + 1,
    "a_str": lambda s: str(s.a),
    "list_a": lambda s: [s.a, s.a],
    "none": lambda s: None,
    "none_if_a0": lambda s: None if s.a == 0 else s.a,
    "undef": lambda s: _undefined(),
    "undef_if_a0": lambda s: _undefined() if s.a == 0 else s.a,
    "a_tuple": lambda s: (s.a, "t"),
    "raise_if_a0": lambda s: _raise(ValueError("a is 0")) if s.a == 0 else s.a,
    "content": lambda s: s.content,
    "content_list": lambda s: [s.content],
    "content_or_raise": lambda s: _raise(RuntimeError("fail")) if s.fail else s.content,
}


def _raise(e):
    raise e


# error handlers: name -> (value returned, description of the return type or None for UndefinedType)
HANDLER_VALUES: Dict[str, Callable[[], Any]] = {"none": lambda: None, "minus1": lambda: -1, "text": lambda: "err", "undef": lambda: _undefined()}


def _handler(name: str):
    """the error_handler argument of @serialized (a typed function, or None for the default handler)"""
    from apischema.types import UndefinedType

    if name == "none":
        return None
    ret = {"minus1": int, "text": str, "undef": UndefinedType}[name]

    def handler(error, obj, alias, _v=HANDLER_VALUES[name]):
        return _v()

    handler.__annotations__ = {"error": Exception, "obj": Any, "alias": str, "return": ret}
    handler.__name__ = "handler_" + name
    return handler


def method_value(sm: SerM, obj):
    """the value of a serialized method: an exception goes to the error handler when there is one"""
    return method_value2(sm, obj)[0]


def method_value2(sm: SerM, obj):
    """(value, whether it comes from the error handler)"""
    try:
        return BODIES[sm.body](obj), False
    except Exception:
        if sm.on_error is None:
            raise
        return HANDLER_VALUES[sm.on_error](), True


def _mk_obj(realm: Realm, name: str, *args):
    return realm.built[name](*args)


CONV_FUNCS: Dict[str, Callable[[Realm, Any], Any]] = {
    "str": lambda realm, x: str(x),
    "neg": lambda realm, x: -x,
    "len": lambda realm, x: len(x),
    "wrap": lambda realm, x: [x],
    "a_pair": lambda realm, a: (a.a, a.b),
    "a_to_b": lambda realm, a: _mk_obj(realm, "B", a.a, None),
    "rs_str": lambda realm, r: f"{r.r}-{r.g}",
    "rs_a": lambda realm, r: _mk_obj(realm, "A", r.r, str(r.g)),
    "int_to_a": lambda realm, x: _mk_obj(realm, "A", x, "c"),
}

# ---------------------------------------------------------------------------
# realisation


def realize(td: TD, realm: Realm) -> Any:
    """the real typing object (classes with serialization-only features are built here first)"""
    _prebuild(td, realm)
    if isinstance(td, Dyn):
        return realize(td.t, realm)
    return _rtype(td, realm)


def _tvar(realm: Realm):
    if "T" not in realm.module.__dict__:
        realm.module.T = typing.TypeVar("T")  # type: ignore
    return realm.module.T


def _rtype(td: TD, realm: Realm):
    """M.realize extended with the type variable and the specialised generic classes"""
    if not _has_tvar(td):
        return M.realize(td, realm)
    if isinstance(td, TVar):
        return _tvar(realm)
    if isinstance(td, Spec):
        return _realize_sobj(td.obj, realm)[_rtype(td.arg, realm)]
    if isinstance(td, Opt):
        return Optional[_rtype(td.t, realm)]
    if isinstance(td, Uni):
        return typing.Union[tuple(_rtype(a, realm) for a in td.alts)]
    if isinstance(td, Coll):
        t = _rtype(td.t, realm)
        return {"list": typing.List[t], "sequence": typing.Sequence[t], "collection": typing.Collection[t], "set": typing.Set[t], "frozenset": typing.FrozenSet[t], "tuplevar": typing.Tuple[t, ...]}[td.kind]
    if isinstance(td, Tup):
        return typing.Tuple[tuple(_rtype(e, realm) for e in td.elts)]
    if isinstance(td, Mapp):
        return typing.Dict[_rtype(td.k, realm), _rtype(td.v, realm)]
    raise TypeError(f"type variable not supported in {td}")


def _mentions_ref(td) -> bool:
    names: set = set()
    M._ref_names(td, names)
    return bool(names)


_conv_counter = [0]


def conversion_object(c: Conv, realm: Realm):
    from apischema.conversions import Conversion

    fn = CONV_FUNCS[c.name]

    def converter(v, _fn=fn, _realm=realm):
        return _fn(_realm, v)

    converter.__name__ = "conv_" + c.name
    if _mentions_ref(c.src) or _mentions_ref(c.target):
        # recursive types: the converter is a function of the realm module annotated with strings,
        # resolved when the conversion is used (as in user code: `def summarize(node: "Node") -> Summary`)
        for t in (c.src, c.target):
            if not isinstance(t, Ref):
                _prebuild(t, realm)
        _conv_counter[0] += 1
        name = f"_cv_{c.name}_{_conv_counter[0]}"
        ns = realm.module.__dict__
        ns["typing"] = typing
        ns[name + "_impl"] = converter
        src = f"def {name}(v: {M._type_string(c.src, realm)!r}) -> {M._type_string(c.target, realm)!r}:\n    return {name}_impl(v)\n"
        exec(src, ns)
        return ns[name]
    return Conversion(converter, source=realize(c.src, realm), target=realize(c.target, realm))


def _prebuild(td: TD, realm: Realm):
    if isinstance(td, Dyn):
        _prebuild(td.t, realm)
        _prebuild(td.conv.src, realm)
        _prebuild(td.conv.target, realm)
    elif isinstance(td, TVar):
        _tvar(realm)
    elif isinstance(td, Spec):
        _realize_sobj(td.obj, realm)
        _prebuild(td.arg, realm)
    elif isinstance(td, SObj):
        _realize_sobj(td, realm)
    elif isinstance(td, Obj):
        if td.name not in realm.built:
            for f in td.fields:
                _prebuild(f.t, realm)
    elif isinstance(td, (Opt, Coll, Ann, NewT)):
        _prebuild(td.t, realm)
    elif isinstance(td, Uni):
        for a in td.alts:
            _prebuild(a, realm)
    elif isinstance(td, Tup):
        for a in td.elts:
            _prebuild(a, realm)
    elif isinstance(td, Mapp):
        _prebuild(td.k, realm)
        _prebuild(td.v, realm)
    elif isinstance(td, Disc):
        for a in td.alts:
            _prebuild(a, realm)


def _field_metadata(f: Fld, realm: Realm):
    import re

    from apischema import alias as ap_alias
    from apischema import schema as ap_schema
    from apischema.metadata import conversion, default_as_set, fall_back_on_default, flatten, none_as_undefined, properties, skip

    md = None

    def add(m):
        nonlocal md
        md = m if md is None else md | m

    if f.alias is not None:
        add(ap_alias(f.alias, override=False) if f.no_override_alias else ap_alias(f.alias))
    elif f.no_override_alias:
        add(ap_alias(override=False))
    if f.flatten:
        add(flatten)
    if f.pattern is not None:
        add(properties(pattern=re.compile(f.pattern)))
    if f.additional:
        add(properties)
    if f.fall_back:
        add(fall_back_on_default)
    if f.none_as_undefined:
        add(none_as_undefined)
    skip_kw: Dict[str, Any] = {}
    if f.skip_ser_default:
        skip_kw["serialization_default"] = True
    if f.skip_ser_if_falsy:
        skip_kw["serialization_if"] = M._falsy
    if getattr(f, "skip_ser", False):
        skip_kw["serialization"] = True
    if skip_kw:
        add(skip(**skip_kw))
    if getattr(f, "default_as_set", False):
        add(default_as_set)
    if getattr(f, "conv", None) is not None:
        add(conversion(serialization=conversion_object(f.conv, realm)))  # type: ignore
    if f.cons:
        add(ap_schema(**dict(f.cons.kw)))
    return md


def _realize_sobj(td: SObj, realm: Realm):
    """a dataclass from generated source executed in the realm module"""
    from apischema import alias as ap_alias
    from apischema import schema as ap_schema
    from apischema import serialized, serializer
    from apischema.fields import with_fields_set
    from apischema.types import UndefinedType
    from apischema.typing import Annotated as _Annotated

    if td.name in realm.built:
        return realm.built[td.name]
    if td.kind != "dataclass":
        raise TypeError("SObj supports dataclasses only")
    realm.descs[td.name] = td
    ns = realm.module.__dict__
    ns.update({"dataclasses": dataclasses, "typing": typing, "_serialized": serialized, "_with_fields_set": with_fields_set})
    lines: List[str] = []
    if td.fields_set:
        lines.append("@_with_fields_set")
    if td.base is None or td.redecorate:
        lines.append("@dataclasses.dataclass")
    if td.base is not None:
        if td.base not in realm.built:
            raise TypeError(f"base {td.base} of {td.name} must be realised first")
        lines.append(f"class {td.name}({td.base}):")
    elif td.generic:
        _tvar(realm)
        lines.append(f"class {td.name}(typing.Generic[T]):")
    else:
        lines.append(f"class {td.name}:")
    n_head = len(lines)
    for f in td.fields:
        if td.base is not None and f.name not in td.own:
            continue
        _prebuild(f.t, realm)
        tp = _rtype(f.t, realm)
        if getattr(f, "undefined", False):
            tp = typing.Union[tp, UndefinedType]
        if getattr(f, "outer", None):
            tp = _Annotated[tp, ap_schema(**dict(f.outer.kw))]
        kw: Dict[str, Any] = {}
        md = _field_metadata(f, realm)
        if md is not None:
            kw["metadata"] = md
        if f.factory is not None:
            kw["default_factory"] = M.make_default(f, realm)
        elif getattr(f, "default_undefined", False):
            kw["default"] = _undefined()
        elif f.has_default:
            kw["default"] = f.default
        if not f.init:
            kw["init"] = False
        ns[f"_t_{td.name}_{f.name}"] = tp
        ns[f"_f_{td.name}_{f.name}"] = kw
        lines.append(f"    {f.name}: _t_{td.name}_{f.name} = dataclasses.field(**_f_{td.name}_{f.name})")
    if td.custom_init:
        if td.base is None:
            raise TypeError("custom_init needs a base class")
        ns["_NOT_GIVEN"] = _NOT_GIVEN
        names = [n for n, _ in td.custom_init]
        lines.append("    def __init__(self, *args, " + ", ".join(f"{n}=_NOT_GIVEN" for n in names) + ", **kwargs):")
        for n, when in td.custom_init:
            if when == "pre":
                lines += [f"        if {n} is not _NOT_GIVEN:", f"            self.{n} = {n}"]
        lines.append("        super().__init__(*args, **kwargs)")
        for n, when in td.custom_init:
            if when == "post":
                lines += [f"        if {n} is not _NOT_GIVEN:", f"            self.{n} = {n}"]
    after: List[str] = []
    # `serialized` lists the EFFECTIVE methods of the class (the most-derived definition of each key);
    # those identical to a base's are inherited, the others are declared here (new ones and overrides)
    inherited = set(getattr(realm.descs.get(td.base), "serialized", ())) if td.base else set()
    for sm in td.serialized:
        if sm in inherited:
            continue
        _prebuild(sm.ret, realm)
        ret = _rtype(sm.ret, realm)
        if sm.undefined:
            ret = typing.Union[ret, UndefinedType]
        if sm.outer:
            ret = _Annotated[ret, ap_schema(**dict(sm.outer.kw))]
        ns[f"_r_{td.name}_{sm.name}"] = ret
        ns[f"_b_{td.name}_{sm.name}"] = BODIES[sm.body]
        skw: Dict[str, Any] = {}
        if sm.alias is not None:
            skw["alias"] = sm.alias
        if sm.conv is not None:
            skw["conversion"] = conversion_object(sm.conv, realm)
        if sm.on_error is not None:
            skw["error_handler"] = _handler(sm.on_error)
        if sm.order is not None:
            from apischema import order as ap_order

            skw["order"] = ap_order(sm.order)
        ns[f"_k_{td.name}_{sm.name}"] = skw
        deco = f"@_serialized(**_k_{td.name}_{sm.name})" if skw else "@_serialized"
        if sm.kind == "function":
            after += [deco, f"def {sm.name}(obj: {td.name}) -> _r_{td.name}_{sm.name}:", f"    return _b_{td.name}_{sm.name}(obj)"]
            continue
        if sm.decorated:
            lines.append("    " + deco)
        if sm.kind == "property":
            lines.append("    @property")
        lines.append(f"    def {sm.name}(self) -> _r_{td.name}_{sm.name}:")
        lines.append(f"        return _b_{td.name}_{sm.name}(self)")
    if len(lines) == n_head:
        lines.append("    pass")
    exec("\n".join(lines + after), ns)
    cls = ns[td.name]
    realm.built[td.name] = cls
    if td.class_aliaser:
        ap_alias(M.CLASS_ALIASERS[td.class_aliaser])(cls)
    if td.cons:
        ap_schema(**dict(td.cons.kw))(cls)
    if td.serializer is not None and not (td.base and getattr(realm.descs.get(td.base), "serializer", None) == td.serializer):
        # (the serializer of a base class is inherited, not registered again)
        serializer(conversion_object(td.serializer, realm))
    return cls


# ---------------------------------------------------------------------------
# reference semantics: serialization


@dataclass
class SOpts:
    exclude_none: bool = False
    exclude_defaults: bool = False
    exclude_unset: bool = True
    additional_properties: bool = False
    aliaser: Optional[Callable[[str], str]] = None

    def alias(self, s: str) -> str:
        return self.aliaser(s) if self.aliaser else s


class Bag(list):
    """the image of a set: a list whose order is not prescribed"""


def has_default(td: Obj, f: Fld) -> bool:
    return td.kind != "typeddict" and (f.has_default or f.factory is not None or getattr(f, "default_undefined", False))


def default_value(f: Fld, realm: Realm):
    if getattr(f, "default_undefined", False):
        return _undefined()
    if f.factory is not None:
        return M.make_default(f, realm)()
    return copy.deepcopy(f.default)


def tracked(v) -> Optional[set]:
    """the set of fields considered set, for an instance of a with_fields_set class"""
    from apischema.fields import fields_set

    try:
        return set(fields_set(v))
    except TypeError:
        return None


def tracks(td, realm: Realm) -> bool:
    """instances of the described class carry a tracked set (the class or a base is decorated)"""
    while isinstance(td, Obj):
        if td.fields_set:
            return True
        td = realm.descs.get(getattr(td, "base", None))
    return False


def derive(base: Tuple[SerM, ...], *own: SerM) -> Tuple[SerM, ...]:
    """the effective serialized methods of a subclass declaring `own`: a method registered under a key
    already used by a base replaces it (the most-derived definition wins, emitted once, at the place
    of ... -- the position is not part of C04), the others are added after the inherited ones"""
    keys = {m.key: m for m in own}
    out = [keys.pop(m.key) if m.key in keys else m for m in base]
    return tuple(out) + tuple(m for m in own if m.key in keys)


def field_type(f: Fld) -> TD:
    """the described type of a field with every schema(...) constraint that applies to its values
    (field-level schema and metadata on the whole annotation)"""
    t = f.t
    if getattr(f, "outer", None):
        t = Ann(t, f.outer)
    if f.cons:
        t = Ann(t, f.cons)
    return t


def always_set(td: Obj) -> set:
    """default_as_set and init=False fields are always considered set (C15 statement)"""
    return {f.name for f in td.fields if not f.init or getattr(f, "default_as_set", False)}


def expect_set(realm: Realm, obj, names) -> None:
    """record the set of fields that the documented rules give for a value built by the generator
    (constructor arguments + default_as_set + init=False + assignments, then set_fields / unset_fields)"""
    reg = realm.__dict__.setdefault("expected_sets", {})
    reg[id(obj)] = (obj, set(names))


def expected_tracked(realm: Realm, obj) -> Optional[set]:
    """the documented tracked set when the value was built by the generator, else the observed one"""
    e = realm.__dict__.get("expected_sets", {}).get(id(obj))
    if e is not None and e[0] is obj:
        return set(e[1])
    return tracked(obj)


def strip(td: TD, realm: Realm) -> TD:
    while isinstance(td, (Ann, NewT, Ref, Spec)):
        if isinstance(td, Spec):
            td = subst(td.obj, td.arg)
        else:
            td = realm.descs[td.name] if isinstance(td, Ref) else td.t
    return td


def conforms(td: TD, v, realm: Realm) -> bool:
    """v is a (well-typed) value of the described type -- classes only, constraints apart"""
    U = _undefined()
    if isinstance(td, Dyn):
        return conforms(td.t, v, realm)
    if isinstance(td, Spec):
        return conforms(subst(td.obj, td.arg), v, realm)
    if isinstance(td, (Ann, NewT)):
        return conforms(td.t, v, realm)
    if isinstance(td, Ref):
        return conforms(realm.descs[td.name], v, realm)
    if isinstance(td, AnyT):
        return v is not U
    if isinstance(td, Prim):
        if td.name == "none":
            return v is None
        return type(v) is M.PRIM_CLS[td.name]
    if isinstance(td, Opt):
        return v is None or conforms(td.t, v, realm)
    if isinstance(td, Uni):
        return any(conforms(a, v, realm) for a in td.alts)
    if isinstance(td, Coll):
        base = {
            "list": list,
            "sequence": abc.Sequence,
            "collection": abc.Collection,
            "mutableseq": abc.MutableSequence,
            "set": set,
            "abstractset": abc.Set,
            "frozenset": frozenset,
            "tuplevar": tuple,
        }[td.kind]
        if isinstance(v, (str, bytes, abc.Mapping)) or not isinstance(v, base):
            return False
        return all(conforms(td.t, x, realm) for x in v)
    if isinstance(td, Tup):
        return type(v) is tuple and len(v) == len(td.elts) and all(conforms(t, x, realm) for t, x in zip(td.elts, v))
    if isinstance(td, Mapp):
        if not isinstance(v, dict if td.kind == "dict" else abc.Mapping):
            return False
        return all(conforms(td.k, k, realm) and conforms(td.v, x, realm) for k, x in v.items())
    if isinstance(td, Lit):
        return any(type(v) is type(x) and v == x for x in td.values)
    if isinstance(td, Enm):
        return isinstance(v, realm.built[td.name])
    if isinstance(td, Disc):
        return any(conforms(a, v, realm) for a in td.alts)
    if isinstance(td, Obj):
        if td.kind == "typeddict":
            if type(v) is not dict:
                return False
            for f in td.fields:
                if f.name in v:
                    if not conforms(f.t, v[f.name], realm):
                        return False
                elif f.td_required:
                    return False
            return True
        if type(v) is not realm.built[td.name]:
            return False
        for f in td.fields:
            x = getattr(v, f.name)
            if x is U:
                if not (getattr(f, "undefined", False) or getattr(f, "default_undefined", False)):
                    return False
            elif x is None and f.has_default and f.default is None:
                pass
            elif not conforms(f.t, x, realm):
                return False
        return True
    raise TypeError(td)


class RefSer:
    """reference serializer over descriptions"""

    def __init__(self, realm: Realm, opts: SOpts):
        self.realm = realm
        self.opts = opts

    # -- omission rule (second sentence of the C04 statement) ----------------------------
    def omit(self, td: Obj, f: Fld, obj, x) -> bool:
        o = self.opts
        if x is _undefined():
            return True
        if x is None and (f.none_as_undefined or o.exclude_none):
            return True
        if has_default(td, f) and (f.skip_ser_default or o.exclude_defaults) and _eq(x, default_value(f, self.realm)):
            return True
        if f.skip_ser_if_falsy and not x:
            return True
        if o.exclude_unset:
            # "unset" is defined for the instances which carry a tracked set (with_fields_set classes
            # and their subclasses): fields_set(obj) is part of the value
            fs = expected_tracked(self.realm, obj)
            if fs is not None and f.name not in fs:
                return True
        return False

    def _is_src(self, td: TD, c: Conv) -> bool:
        a, b = strip(td, self.realm), strip(c.src, self.realm)
        if isinstance(a, Obj) and isinstance(b, Obj):
            return a.name == b.name
        return a == b

    def ser(self, td: TD, v, dyn: Optional[Conv] = None):
        if isinstance(td, Dyn):
            return self.ser(td.t, v, td.conv)
        if isinstance(td, Spec):
            return self.ser(subst(td.obj, td.arg), v, dyn)
        if dyn is not None and self._is_src(td, dyn):
            # a dynamic conversion is discarded once applied
            return self.ser(dyn.target, CONV_FUNCS[dyn.name](self.realm, v))
        if isinstance(td, (Ann, NewT)):
            return self.ser(td.t, v, dyn)
        if isinstance(td, Ref):
            return self.ser(self.realm.descs[td.name], v, dyn)
        if isinstance(td, AnyT):
            return self.ser_any(v)
        if isinstance(td, (Prim, Lit)):
            return v
        if isinstance(td, Opt):
            return None if v is None else self.ser(td.t, v, dyn)
        if isinstance(td, Uni):
            for a in td.alts:
                if conforms(a, v, self.realm):
                    return self.ser(a, v, dyn)
            raise ValueError(f"{v!r} is not a value of {td}")
        if isinstance(td, Coll):
            items = [self.ser(td.t, x, dyn) for x in v]
            return Bag(items) if isinstance(v, abc.Set) else items
        if isinstance(td, Tup):
            return [self.ser(t, x, dyn) for t, x in zip(td.elts, v)]
        if isinstance(td, Mapp):
            return {self.ser(td.k, k, dyn): self.ser(td.v, x, dyn) for k, x in v.items()}
        if isinstance(td, Enm):
            return self.ser_any(v.value)
        if isinstance(td, Disc):
            for key, a in M.disc_mapping(td, M.Opts()).items():
                if conforms(a, v, self.realm):
                    img = self.ser(a, v)
                    # docs/json_schema.md "OpenAPI Discriminator": serialize(Pet, Dog()) == {"type": "dog"}
                    img.setdefault(self.opts.alias(td.alias), key)
                    return img
            raise ValueError(f"{v!r} is not a value of {td}")
        if isinstance(td, Obj):
            # a class without conversion ends a dynamic conversion; a registered serializer applies
            if isinstance(td, SObj) and td.serializer is not None:
                c = td.serializer
                return self.ser(c.target, CONV_FUNCS[c.name](self.realm, v))
            return self.ser_obj(td, v)
        raise TypeError(td)

    def ser_obj(self, td: Obj, v) -> dict:
        o = self.opts
        res: Dict[str, Any] = {}
        typed_dict = td.kind == "typeddict"
        for f in td.fields:
            if getattr(f, "skip_ser", False):
                continue
            if typed_dict:
                if f.name not in v:
                    continue
                x = v[f.name]
            else:
                x = getattr(v, f.name)
            if self.omit(td, f, v, x):
                continue
            img = self.ser(f.t, x, getattr(f, "conv", None))
            if f.flatten or f.pattern is not None or f.additional:
                res.update(img)  # aggregate fields are merged into the parent
            else:
                res[M.ext_name(td, f, M.Opts(aliaser=o.aliaser))] = img
        for sm in getattr(td, "serialized", ()):
            x, handled = method_value2(sm, v)
            if x is _undefined() or (x is None and o.exclude_none):
                continue
            # "the resulting serialization type will be a Union of the normal type and the error handling type"
            res[o.alias(sm.key)] = self.ser_any(x) if handled else self.ser(sm.ret, x, sm.conv)
        if typed_dict and o.additional_properties:
            names = {f.name for f in td.fields}
            for k, x in v.items():
                if k not in names and k not in res:
                    res[k] = self.ser_any(x)  # "without aliasing"
        return res

    def ser_any(self, v):
        """serialize(Any, v): the class of the value is used"""
        if v is None or type(v) in (bool, int, float, str):
            return v
        if isinstance(v, enum.Enum):
            return self.ser_any(v.value)
        cls = type(v)
        if self.realm.built.get(cls.__name__) is cls and cls.__name__ in self.realm.descs:
            td = self.realm.descs[cls.__name__]
            if getattr(td, "generic", False):
                td = subst(td, AnyT())  # an unspecialised generic class: the type variable is Any
            return self.ser(td, v)
        if isinstance(v, abc.Mapping):
            return {self.ser_any(k): self.ser_any(x) for k, x in v.items()}
        if isinstance(v, abc.Set):
            return Bag([self.ser_any(x) for x in v])
        if isinstance(v, abc.Collection) and not isinstance(v, (str, bytes)):
            return [self.ser_any(x) for x in v]
        raise ValueError(f"no image for {v!r}")


def _eq(a, b) -> bool:
    try:
        return bool(a == b)
    except Exception:
        return False


def ref_serialize(td: TD, v, realm: Realm, opts: SOpts):
    return RefSer(realm, opts).ser(td, v)


# ---------------------------------------------------------------------------
# comparison of images


JSON_LEAVES = (str, int, float, bool, type(None))


def is_json(x) -> bool:
    """made only of dict with string keys, list, str, int, float, bool and None"""
    if type(x) is dict:
        return all(type(k) is str and is_json(y) for k, y in x.items())
    if type(x) is list:
        return all(is_json(y) for y in x)
    return type(x) in JSON_LEAVES


def non_json_part(x, path="$"):
    if type(x) is dict:
        for k, y in x.items():
            if type(k) is not str:
                return f"{path}: key {k!r} ({type(k).__name__})"
            r = non_json_part(y, f"{path}.{k}")
            if r:
                return r
        return None
    if type(x) is list:
        for i, y in enumerate(x):
            r = non_json_part(y, f"{path}[{i}]")
            if r:
                return r
        return None
    return None if type(x) in JSON_LEAVES else f"{path}: {x!r} ({type(x).__name__})"


def img_eq(got, exp) -> bool:
    """equality of JSON data with the same classes at every level; `Bag` admits any order"""
    if isinstance(exp, Bag):
        if type(got) is not list or len(got) != len(exp):
            return False
        rest = list(exp)
        for g in got:
            for i, e in enumerate(rest):
                if img_eq(g, e):
                    del rest[i]
                    break
            else:
                return False
        return True
    if type(exp) is list:
        return type(got) is list and len(got) == len(exp) and all(img_eq(g, e) for g, e in zip(got, exp))
    if type(exp) is dict:
        return type(got) is dict and got.keys() == exp.keys() and all(img_eq(got[k], exp[k]) for k in exp)
    if type(got) is not type(exp):
        return False
    if isinstance(exp, float) and exp != exp:
        return got != got
    return got == exp


def plain(x):
    """Bag -> list (for printing / jsonschema)"""
    if isinstance(x, list):
        return [plain(y) for y in x]
    if isinstance(x, dict):
        return {k: plain(y) for k, y in x.items()}
    return x


# ---------------------------------------------------------------------------
# constraints on values (a value of Annotated[T, schema(...)] satisfies the constraints)


def check_cons(td: TD, v, realm: Realm) -> bool:
    """the declared constraints hold on the JSON view of the value (top-level chain only; nested
    values are generated by the same rule)"""
    c: Optional[Cons] = None
    t = td
    while isinstance(t, (Ann, NewT, Ref, Spec)):
        if isinstance(t, Ref):
            t = realm.descs[t.name]
            continue
        if isinstance(t, Spec):
            t = subst(t.obj, t.arg)
            continue
        c = M.merge_cons(c, t.cons)
        t = t.t
    if isinstance(t, Obj):
        c = M.merge_cons(c, t.cons)
    if not c:
        return True
    if v is None or v is _undefined():
        return True
    img = plain(RefSer(realm, SOpts(exclude_unset=False)).ser(t, v))
    if type(img) in (int, float):
        kws = M.NUM_KW
    elif type(img) is str:
        kws = M.STR_KW
    elif type(img) is list:
        kws = M.ARR_KW
    elif type(img) is dict:
        kws = M.OBJ_KW
    else:
        kws = ()
    return not M.constraint_failures(c, img, kws)
