"""C16 -- run-time contract of the field order in every view (B / E).

A *class description* is a chain of 1..3 dataclass levels (single inheritance); every level
declares fields and methods, each with an optional field-level ordering spec, and an optional
class-level ``order(...)`` (a sequence or a mapping of overrides).  The reference placement
(`placement`) is written from the property statement / DESIGN.md appendix A.4 and never looks at
apischema.  The description is realised as real dataclasses and the order is observed in

* ``list(serialize(cls, cls()))``                       (view ``ser``)
* ``list(serialization_schema(cls)["properties"])``     (view ``sschema``)
* ``list(deserialization_schema(cls)["properties"])``   (view ``dschema``, fields only)
* GraphQL output object type ``.fields``                (view ``gql_out``)
* GraphQL input object type ``.fields``                 (view ``gql_in``, fields only)

A view that does not contain the methods must show the *same permutation restricted to its
elements*.  Domain (statement): every after / before target is an element of the class and the
attachment relation is acyclic; descriptions outside the domain are not generated.
"""
from __future__ import annotations

import dataclasses
import itertools
import random
import time
import typing
import sys
import types as pytypes
from typing import Any, Dict, Iterator, List, Optional, Sequence, Tuple

# declaration order is deliberately neither alphabetical nor reverse alphabetical
FIELD_NAMES = ["q", "c", "x", "a", "k"]
METHOD_NAMES = ["p", "b", "z", "d", "m"]
ORDER_VALUES = (-1, 0, 1, 999)

Spec = Optional[Tuple[str, Any]]  # None | ("o", int) | ("a", name) | ("b", name)
# level = (fields, methods, override); fields / methods: tuple of (name, Spec);
# override: None | ("seq", (names...)) | ("map", ((name, Spec), ...))
Level = Tuple[Tuple[Tuple[str, Spec], ...], Tuple[Tuple[str, Spec], ...], Any]

# how the methods are declared:
#   serialized           @serialized(order=..) in the class body           (JSON views only)
#   property             @serialized(order=..) @property                   (JSON views only)
#   both                 serialized(order=.., owner=cls) + resolver(order=.., owner=cls)  (all views)
#   resolver             @resolver(order=..) only                          (GraphQL output only)
#   resolver_serialized  @resolver(serialized=True, order=..)              (all views)
STYLES = ("serialized", "property", "both", "resolver", "resolver_serialized")
JSON_METHOD_STYLES = {"serialized", "property", "both", "resolver_serialized"}
GQL_METHOD_STYLES = {"both", "resolver", "resolver_serialized"}
VIEWS = ("ser", "sschema", "dschema", "gql_out", "gql_in")


@dataclasses.dataclass(frozen=True)
class Desc:
    levels: Tuple[Level, ...]
    style: str = "both"
    targets: str = "str"  # "str": after / before / override keys given by name; "obj": by Field / function object
    aliases: Tuple[Tuple[str, str], ...] = ()  # element name -> external name (alias); ordering specs always refer to names
    # where the field-level spec of a field is written: default = dataclass field metadata;
    # (name, "ann", None): inside Annotated[int, order(..)] on the field type only;
    # (name, "both", spec2): in the field metadata AND spec2 inside Annotated (equal or conflicting)
    where: Tuple[Tuple[str, str, Spec], ...] = ()

    def ext(self, name: str) -> str:
        return dict(self.aliases).get(name, name)

    def fields(self) -> List[str]:
        return [n for lv in self.levels for n, _ in lv[0]]

    def methods(self) -> List[str]:
        return [n for lv in self.levels for n, _ in lv[1]]

    def elements(self) -> List[str]:
        """declaration order: fields (base class first), then methods (base class first)"""
        return self.fields() + self.methods()

    def short(self) -> str:
        out = []
        al = dict(self.aliases)

        wh = {n: (m, sp2) for n, m, sp2 in self.where}

        def nm(n, sp):
            w = ""
            if n in wh:
                w = "@ann" if wh[n][0] == "ann" else "@both(ann" + (_s(wh[n][1]) or ":none") + ")"
            return n + ("~" + al[n] if n in al else "") + _s(sp) + w

        for fs, ms, ov in self.levels:
            s = "F[" + ",".join(nm(n, sp) for n, sp in fs) + "]"
            if ms:
                s += "M[" + ",".join(nm(n, sp) for n, sp in ms) + "]"
            if ov is not None:
                if ov[0] == "seq":
                    s += "@seq(" + ",".join(ov[1]) + ")"
                else:
                    s += "@map(" + ",".join(n + _s(sp) for n, sp in ov[1]) + ")"
            out.append(s)
        return "<".join(out)


def _s(sp: Spec) -> str:
    if sp is None:
        return ""
    if sp[0] == "o":
        return f":{sp[1]}"
    return f":{'after' if sp[0] == 'a' else 'before'}={sp[1]}"


# ---------------------------------------------------------------------------
# reference (from the statement)


def effective(desc: Desc) -> Dict[str, Spec]:
    """field-level metadata, overridden per element by the class-level order(...) of each class of
    the inheritance chain, the most derived class winning; order([x1, .., xk]) is the documented
    shorthand for {x2: after x1, .., xk: after x(k-1)}"""
    eff: Dict[str, Spec] = {}
    for fs, _, _ in desc.levels:
        for n, sp in fs:
            eff[n] = sp
    for _, ms, _ in desc.levels:
        for n, sp in ms:
            eff[n] = sp
    for _, _, ov in desc.levels:
        if ov is None:
            continue
        if ov[0] == "seq":
            for prev, cur in zip(ov[1], ov[1][1:]):
                eff[cur] = ("a", prev)
        else:
            for n, sp in ov[1]:
                eff[n] = sp
    return eff


def candidates(desc: Desc) -> List[Dict[str, Spec]]:
    """the statement does not say which of a field's metadata and an Annotated annotation of its
    type wins when both carry an order(...): every per-field choice is admitted (the same choice in
    every view); without conflict there is one candidate"""
    conflicts = []
    fl = {n: sp for fs, _, _ in desc.levels for n, sp in fs}
    for n, mode, sp2 in desc.where:
        if mode == "both" and sp2 != fl.get(n):
            conflicts.append((n, sp2))
    out = [effective(desc)]
    for k in range(1, 2 ** len(conflicts)):
        lv = []
        repl = {n: sp2 for i, (n, sp2) in enumerate(conflicts) if k >> i & 1}
        for fs, ms, ov in desc.levels:
            lv.append((tuple((n, repl.get(n, sp)) for n, sp in fs), ms, ov))
        out.append(effective(dataclasses.replace(desc, levels=tuple(lv))))
    return out


def in_domain(elements: Sequence[str], eff: Dict[str, Spec]) -> bool:
    for e in elements:
        seen = {e}
        cur = e
        while eff[cur] is not None and eff[cur][0] in ("a", "b"):
            cur = eff[cur][1]
            if cur not in eff or cur in seen:
                return False
            seen.add(cur)
    return True


def placement(elements: Sequence[str], eff: Dict[str, Spec]) -> List[str]:
    groups: Dict[int, List[str]] = {}
    att_after: Dict[str, List[str]] = {}
    att_before: Dict[str, List[str]] = {}
    for e in elements:
        sp = eff[e]
        if sp is None:
            groups.setdefault(0, []).append(e)
        elif sp[0] == "o":
            groups.setdefault(sp[1], []).append(e)
        elif sp[0] == "a":
            att_after.setdefault(sp[1], []).append(e)
        else:
            att_before.setdefault(sp[1], []).append(e)

    def flat(e: str) -> List[str]:
        out: List[str] = []
        for b in att_before.get(e, []):
            out += flat(b)
        out.append(e)
        for a in att_after.get(e, []):
            out += flat(a)
        return out

    res: List[str] = []
    for k in sorted(groups):
        for e in groups[k]:
            res += flat(e)
    return res


def subtree_of_method(desc: Desc, eff: Dict[str, Spec]) -> List[str]:
    """fields attached (transitively) to a method: they follow the method in the full permutation;
    a view without the methods must still show them"""
    methods = set(desc.methods())
    out = []
    for f in desc.fields():
        cur = f
        while eff[cur] is not None and eff[cur][0] in ("a", "b"):
            cur = eff[cur][1]
            if cur in methods:
                out.append(f)
                break
    return out


# ---------------------------------------------------------------------------
# realisation

_counter = itertools.count()


def source_of(desc: Desc, uid: int) -> Tuple[str, str]:
    """the class description as the Python program a user would write; returns (source, class name)"""
    fieldset = set(desc.fields())
    by_obj = desc.targets == "obj"
    al = dict(desc.aliases)
    wh = {n: (m, sp2) for n, m, sp2 in desc.where}
    lines: List[str] = []
    if desc.style == "both":
        for m in desc.methods():
            lines += [f"def {m}(self) -> int:", "    return 0", ""]
    prev = None
    cname = ""
    declared_so_far: set = set()
    for i, (fs, ms, ov) in enumerate(desc.levels):
        last = i == len(desc.levels) - 1
        cname = f"K{uid}" if last else f"K{uid}L{i}"
        declared: set = set()
        declared_so_far |= {n for n, _ in fs}

        def target(name: str, in_body: bool) -> str:
            if by_obj:
                if in_body and name in declared:
                    return name  # the Field object bound earlier in the class body
                if not in_body and name in fieldset and name in declared_so_far:
                    return f"_F({cname}, {name!r})"
                if name not in fieldset and desc.style == "both":
                    return name  # the module-level function
            return repr(name)

        def ordering(sp: Spec, in_body: bool) -> str:
            if sp[0] == "o":
                return f"order({sp[1]})"
            return f"order({'after' if sp[0] == 'a' else 'before'}={target(sp[1], in_body)})"

        if ov is not None and not by_obj:
            if ov[0] == "seq":
                lines.append(f"@order([{', '.join(repr(n) for n in ov[1])}])")
            else:
                lines.append("@order({" + ", ".join(f"{n!r}: {ordering(sp, False)}" for n, sp in ov[1]) + "})")
        lines.append("@dataclass")
        lines.append(f"class {cname}({prev}):" if prev else f"class {cname}:")
        body: List[str] = []
        for n, sp in fs:
            mode, sp2 = wh.get(n, ("meta", None))
            in_meta = sp if mode != "ann" else None
            in_ann = sp if mode == "ann" else (sp2 if mode == "both" else None)
            md = ([f"alias({al[n]!r})"] if n in al else []) + ([ordering(in_meta, True)] if in_meta is not None else [])
            tp = f"Annotated[int, {ordering(in_ann, True)}]" if in_ann is not None else "int"
            body.append(f"    {n}: {tp} = field(default=0" + (f", metadata={' | '.join(md)}" if md else "") + ")")
            declared.add(n)
        late: List[str] = []
        for n, sp in ms:
            o = ", ".join(([repr(al[n])] if n in al else []) + ([f"order={ordering(sp, True)}"] if sp is not None else []))
            if desc.style == "both":
                oo = "".join(([repr(al[n]) + ", "] if n in al else []) + ([f"order={ordering(sp, False)}, "] if sp is not None else []))
                late += [f"serialized({oo}owner={cname})({n})", f"resolver({oo}owner={cname})({n})"]
                continue
            if desc.style == "serialized":
                body.append(f"    @serialized({o})")
            elif desc.style == "property":
                body += [f"    @serialized({o})", "    @property"]
            elif desc.style == "resolver":
                body.append(f"    @resolver({o})")
            else:
                body.append(f"    @resolver({o + ', ' if o else ''}serialized=True)")
            body += [f"    def {n}(self) -> int:", "        return 0"]
        lines += body or ["    pass"]
        lines.append("")
        lines += late
        if ov is not None and by_obj:
            if ov[0] == "seq":
                lines.append(f"order([{', '.join(target(n, False) for n in ov[1])}])({cname})")
            else:
                lines.append("order({" + ", ".join(f"{target(n, False)}: {ordering(sp, False)}" for n, sp in ov[1]) + "})(" + cname + ")")
        prev = cname
    return "\n".join(lines) + "\n", cname


def _F(cls, name):
    return {f.name: f for f in dataclasses.fields(cls)}[name]


class Realised:
    def __init__(self, desc: Desc):
        from apischema import alias, order, serialized
        from apischema.graphql import resolver

        self.desc = desc
        uid = next(_counter)
        self.source, cname = source_of(desc, uid)
        # a real (throw-away) module: dataclasses and typing.get_type_hints look the module up
        self.modname = f"c16_generated_{uid}"
        mod = pytypes.ModuleType(self.modname)
        mod.__dict__.update({"dataclass": dataclasses.dataclass, "field": dataclasses.field, "order": order, "serialized": serialized, "resolver": resolver, "alias": alias, "_F": _F, "Annotated": typing.Annotated})
        sys.modules[self.modname] = mod
        try:
            exec(compile(self.source, f"<{self.modname}>", "exec", dont_inherit=True), mod.__dict__)
        except BaseException:
            sys.modules.pop(self.modname, None)
            raise
        self.cls = mod.__dict__[cname]

    def dispose(self):
        sys.modules.pop(self.modname, None)

    # -- observations ---------------------------------------------------------------
    def json_views(self) -> Dict[str, Any]:
        from apischema import serialize
        from apischema.json_schema import deserialization_schema, serialization_schema

        out: Dict[str, Any] = {}
        for view, thunk in (
            ("ser", lambda: list(serialize(self.cls, self.cls()))),
            ("sschema", lambda: list(serialization_schema(self.cls).get("properties", {}))),
            ("dschema", lambda: list(deserialization_schema(self.cls).get("properties", {}))),
        ):
            try:
                out[view] = thunk()
            except Exception as e:  # an in-domain class must not crash
                out[view] = e
        return out


def graphql_views(rs: Sequence[Realised]) -> List[Dict[str, Any]]:
    """GraphQL output / input type field order of each class; one schema per batch"""
    from apischema.graphql import graphql_schema

    def build(items: Sequence[Realised]):
        qs = []
        for i, r in enumerate(items):
            cls = r.cls

            def q():
                return None

            q.__name__ = f"q{i}"
            q.__annotations__ = {"return": cls}

            def a(x):
                return 0

            a.__name__ = f"a{i}"
            a.__annotations__ = {"x": cls, "return": int}
            qs += [q, a]
        schema = graphql_schema(query=qs)
        res = []
        for r in items:
            n = r.cls.__name__
            res.append({"gql_out": list(schema.type_map[n].fields), "gql_in": list(schema.type_map[n + "Input"].fields)})
        return res

    try:
        return build(rs)
    except Exception:
        out = []
        for r in rs:
            try:
                out += build([r])
            except Exception as e:
                out.append({"gql_out": e, "gql_in": e})
        return out


# ---------------------------------------------------------------------------
# generators


def options(elements: Sequence[str], e: str, values=ORDER_VALUES) -> List[Spec]:
    return [None] + [("o", v) for v in values] + [(k, x) for x in elements if x != e for k in ("a", "b")]


def shapes(n: int) -> List[Tuple[int, int]]:
    """(number of fields, number of methods), at least one field (GraphQL types need one)"""
    return [(nf, n - nf) for nf in range(n, 0, -1) if n - nf <= len(METHOD_NAMES)]


def one_level(nf: int, nm: int, specs: Sequence[Spec], override=None) -> Level:
    fs = tuple((FIELD_NAMES[i], specs[i]) for i in range(nf))
    ms = tuple((METHOD_NAMES[i], specs[nf + i]) for i in range(nm))
    return (fs, ms, override)


def gen_field_level(n: int, style: str = "both") -> Iterator[Desc]:
    """every assignment of a field-level ordering spec to every element of every shape of size n"""
    for nf, nm in shapes(n):
        els = FIELD_NAMES[:nf] + METHOD_NAMES[:nm]
        for specs in itertools.product(*[options(els, e) for e in els]):
            yield Desc((one_level(nf, nm, specs),), style)


def gen_class_mapping(n: int, style: str = "both") -> Iterator[Desc]:
    """the same specs given by a class-level mapping (None = not overridden) over decoy field-level
    metadata that would give another order if it were not overridden"""
    for nf, nm in shapes(n):
        els = FIELD_NAMES[:nf] + METHOD_NAMES[:nm]
        # decoy: reversed by order value
        decoy: List[Spec] = [("o", ORDER_VALUES[(len(els) - 1 - i) % 4]) for i in range(len(els))]
        for specs in itertools.product(*[options(els, e) for e in els]):
            ov = tuple((e, sp) for e, sp in zip(els, specs) if sp is not None)
            if not ov:
                continue
            yield Desc((one_level(nf, nm, decoy, ("map", ov)),), style)


def gen_sequences(n: int, style: str = "both") -> Iterator[Desc]:
    """class-level order([..]) over every ordered subset (>= 2) of the elements, field-level none"""
    for nf, nm in shapes(n):
        els = FIELD_NAMES[:nf] + METHOD_NAMES[:nm]
        for k in range(2, len(els) + 1):
            for seq in itertools.permutations(els, k):
                yield Desc((one_level(nf, nm, [None] * len(els), ("seq", seq)),), style)


def _two_levels(nf: int, nm: int, fcut: int, mcut: int, specs: Sequence[Spec], ov_base, ov_derived) -> Desc:
    fs = [(FIELD_NAMES[i], specs[i]) for i in range(nf)]
    ms = [(METHOD_NAMES[i], specs[nf + i]) for i in range(nm)]
    return Desc(((tuple(fs[:fcut]), tuple(ms[:mcut]), ov_base), (tuple(fs[fcut:]), tuple(ms[mcut:]), ov_derived)), "both")


def gen_inheritance(n: int) -> Iterator[Desc]:
    """base class / derived class, every way of cutting the declaration between them: (a) every
    field-level assignment, no class-level order; (b) one class-level override on the base (over a
    base element) and one on the derived class (over any element, the same one included), every
    spec for both, over decoy field-level metadata"""
    for nf, nm in shapes(n):
        els = FIELD_NAMES[:nf] + METHOD_NAMES[:nm]
        decoy: List[Spec] = [("o", ORDER_VALUES[(len(els) - 1 - i) % 4]) for i in range(len(els))]
        for fcut in range(nf + 1):
            for mcut in range(nm + 1):
                base = FIELD_NAMES[:fcut] + METHOD_NAMES[:mcut]
                if not base or len(base) == len(els):
                    continue
                for specs in itertools.product(*[options(els, e) for e in els]):
                    yield _two_levels(nf, nm, fcut, mcut, specs, None, None)
                for kb in base:
                    for sb in options(els, kb)[1:]:
                        for kd in els:
                            for sd in options(els, kd)[1:]:
                                yield _two_levels(nf, nm, fcut, mcut, decoy, ("map", ((kb, sb),)), ("map", ((kd, sd),)))
                # a sequence on the base re-ordered by a sequence on the derived class
                for k in range(2, len(base) + 1):
                    for sq in itertools.permutations(base, k):
                        for k2 in range(2, len(els) + 1):
                            for sq2 in itertools.permutations(els, k2):
                                yield _two_levels(nf, nm, fcut, mcut, [None] * len(els), ("seq", sq), ("seq", sq2))


def with_aliases(desc: Desc, mode: str, mask: Optional[Sequence[bool]] = None) -> Desc:
    """the same class with external names different from the element names: `upper` (Q for q) or
    `rotate` (every aliased element takes the *name* of the next aliased element, so that a lookup by
    the wrong kind of name finds another element instead of nothing)"""
    els = desc.elements()
    chosen = [e for i, e in enumerate(els) if mask is None or mask[i]]
    if mode == "upper":
        al = tuple((e, e.upper()) for e in chosen)
    elif mode == "rotate":
        if len(chosen) < 2:
            return desc
        al = tuple((e, chosen[(i + 1) % len(chosen)]) for i, e in enumerate(chosen))
    else:
        al = ()
    return dataclasses.replace(desc, aliases=al)


def with_where(desc: Desc, mode: str, rng: Optional[random.Random] = None) -> Desc:
    """move / duplicate the field-level specs into Annotated: `ann` (only there), `both_same`,
    `both_conflict` (the Annotated annotation carries another order value), `mixed` (random per field)"""
    wh = []
    for fs, _, _ in desc.levels:
        for n, sp in fs:
            m = mode if rng is None else rng.choice(["meta", "ann", "both_same", "both_conflict"])
            if m == "meta":
                continue
            if m == "ann":
                if sp is not None:
                    wh.append((n, "ann", None))
            elif m == "both_same":
                if sp is not None:
                    wh.append((n, "both", sp))
            else:
                other = ("o", 999) if sp != ("o", 999) else ("o", -1)
                if sp is not None:
                    wh.append((n, "both", other))
    return dataclasses.replace(desc, where=tuple(wh))


def random_desc(rng: random.Random, n: int, max_levels: int = 3) -> Desc:
    """random class: inheritance chain, field-level specs, class-level sequence / mapping on some
    levels, any method style, names or objects as targets"""
    nf = rng.randint(1, n)
    nm = n - nf
    els = FIELD_NAMES[:nf] + METHOD_NAMES[:nm]
    nlev = rng.randint(1, min(max_levels, n))
    # distribute elements over the levels (declaration order preserved inside fields / methods)
    fcut = sorted(rng.randint(0, nf) for _ in range(nlev - 1))
    mcut = sorted(rng.randint(0, nm) for _ in range(nlev - 1))
    fparts = [FIELD_NAMES[a:b] for a, b in zip([0] + fcut, fcut + [nf])]
    mparts = [METHOD_NAMES[a:b] for a, b in zip([0] + mcut, mcut + [nm])]

    def rspec(e):
        r = rng.random()
        if r < 0.3:
            return None
        if r < 0.6 or len(els) == 1:
            return ("o", rng.choice(ORDER_VALUES))
        return (rng.choice("ab"), rng.choice([x for x in els if x != e]))

    levels = []
    known: List[str] = []
    for fp, mp in zip(fparts, mparts):
        known += fp + mp
        ov = None
        r = rng.random()
        if known and r < 0.3 and len(known) >= 2:
            k = rng.randint(2, len(known))
            ov = ("seq", tuple(rng.sample(known, k)))
        elif known and r < 0.7:
            keys = rng.sample(known, rng.randint(1, len(known)))
            ov = ("map", tuple((e, rspec(e) or ("o", 0)) for e in keys))
            # targets of a base-class override must exist in the final class: always true (subset of els)
        levels.append((tuple((e, rspec(e)) for e in fp), tuple((e, rspec(e)) for e in mp), ov))
    style = rng.choice(STYLES)
    desc = Desc(tuple(levels), style, rng.choice(["str", "str", "obj"]))
    mode = rng.choice(["none", "none", "upper", "rotate"])
    desc = with_aliases(desc, mode, [rng.random() < 0.6 for _ in els]) if mode != "none" else desc
    return with_where(desc, "mixed", rng) if rng.random() < 0.4 else desc


# ---------------------------------------------------------------------------
# the driver


def feature_tags(desc: Desc, eff: Dict[str, Spec]) -> str:
    tags = []
    if len(desc.levels) > 1:
        tags.append("inherit")
    kinds = {ov[0] for _, _, ov in desc.levels if ov is not None}
    tags += sorted(kinds)
    if any(sp is not None and sp[0] in "ab" for sp in eff.values()):
        tags.append("attach")
    if desc.aliases:
        tags.append("alias")
    if desc.where:
        tags.append("annotated")
    return "+".join(tags) or "plain"


def run(report, tier: str, seed: int):
    import apischema

    rng = random.Random(seed)
    quick = tier == "quick"
    n_exh = 3 if quick else 4
    n_max = 4 if quick else 5
    n_rand = 1500 if quick else 6000
    n_seq = n_max if quick else 4
    n_small = 2 if quick else 3
    log = report.driver(
        "order_views_vs_placement",
        bound=f"exhaustive: every class with <= {n_exh} elements (>= 1 field, rest serialized methods / resolvers), every assignment of "
        f"{{none, order(-1|0|1|999), after=x, before=x (x any other element)}} as field-level metadata and again (" + ("size <= 2 exhaustively, 40 % seeded sample at size 3" if quick else "size <= 3 exhaustively, 5 % sample at size 4") + ") as class-level mapping over decoy metadata, "
        f"every class-level sequence over >= 2 of <= {n_seq} elements; base / derived class pairs with <= {n_small} elements (every cut, every field-level assignment, every pair of one-element overrides base x derived, sequence x sequence); every field-level assignment again with the specs inside Annotated[int, order(..)] (exhaustive at size <= {n_small}, seeded sample of 25 % at size 3" + ("" if quick else " / 5 % at size 4") + f"; also in both places, equal or conflicting, and under class-level mappings, at size <= {n_small}, under inheritance at size <= 2); the 4 other method declaration styles and aliased elements (upper-cased / rotated names) exhaustively at size <= {n_small}; sampled ({n_rand} seeded random classes with <= {n_max} elements): 1..3 inheritance levels, "
        f"field-level specs + class-level sequence / mapping per level, 5 method declaration styles, targets by name or by Field / function object, aliases on a random subset, specs in field metadata / Annotated / both on a random subset; 5 views each",
        label="B",
    )
    log.rule(
        "case = (class description, view); the description is restricted to the statement's domain (targets exist, no attachment cycle); expected = reference placement "
        "(appendix A.4) restricted to the view's elements; distinct by description; non-trivial when an ordering spec exists (some element is not at the default)"
    )
    budget = {}

    def fail(kind, view, desc: Desc, tag, got, exp, summary, source=None):
        sig_class = (kind, view, desc.style, tag)
        budget[sig_class] = budget.get(sig_class, 0) + 1
        if budget[sig_class] > 3:
            log.stats["violations"] += 1
            return
        log.fail(
            f"{kind}:{view}:{desc.style}:{tag}:{desc.targets}:{desc.short()}",
            f"{kind}: {view} of class {desc.short()} (methods declared as {desc.style}, targets by {desc.targets}): {summary}",
            {"class": desc.short(), "style": desc.style, "targets": desc.targets, "view": view, "source": source if source is not None else source_of(desc, 0)[0]},
            observed=repr(got),
            expected=repr(exp),
            functions_involved=["sort_by_order", "get_order_overriding"],
        )

    def check_batch(batch: List[Tuple[Desc, Dict[str, Spec], List[str]]]):
        realised = []
        for desc, eff, perm in batch:
            try:
                realised.append(Realised(desc))
            except Exception as e:
                realised.append(e)
        ok = [r for r in realised if isinstance(r, Realised)]
        gql = iter(graphql_views(ok)) if ok else iter(())
        for (desc, eff, perm), r in zip(batch, realised):
            nontrivial = any(sp is not None for sp in eff.values())
            log.case(("class", desc.style, desc.targets, desc.short()), nontrivial, sample={"class": desc.short(), "style": desc.style, "expected": perm} if len(perm) >= 3 and perm != desc.elements() else None)
            tag = feature_tags(desc, eff)
            if isinstance(r, Exception):
                fail("declare-crash", "class", desc, tag, repr(r), perm, f"declaring the class raised {r!r}")
                continue
            views = r.json_views()
            views.update(next(gql))
            fields = set(desc.fields())

            def diffs(eff_c, perm_c):
                out = []
                sub = set(subtree_of_method(desc, eff_c))
                tag_c = feature_tags(desc, eff_c)
                for view in VIEWS:
                    got = views[view]
                    with_methods = (view in ("ser", "sschema") and desc.style in JSON_METHOD_STYLES) or (view == "gql_out" and desc.style in GQL_METHOD_STYLES)
                    exp = [desc.ext(e) for e in perm_c if with_methods or e in fields]
                    vtag = tag_c + ("+field-under-absent-method" if (not with_methods and sub) else "")
                    if with_methods and view != "gql_out" and desc.style == "resolver_serialized" and any(sp is not None for _, ms, _ in desc.levels for _, sp in ms):
                        vtag += "+order-given-to-resolver"
                    if isinstance(got, Exception):
                        out.append(("crash", view, vtag, repr(got), exp, f"raised {got!r}"))
                    elif got == exp:
                        continue
                    elif len(set(got)) != len(got):
                        out.append(("duplicated", view, vtag, got, exp, f"{got} contains an element twice (expected {exp})"))
                    elif set(got) != set(exp):
                        missing = [e for e in exp if e not in got]
                        extra = [e for e in got if e not in exp]
                        out.append(("lost", view, vtag, got, exp, f"{got} lacks {missing}" + (f" and has unexpected {extra}" if extra else "") + f" (expected {exp})"))
                    else:
                        out.append(("order", view, vtag, got, exp, f"{got} is not the statement's placement {exp}"))
                return out

            # with an order() both in the field metadata and in Annotated and the two in conflict, the
            # statement leaves the winner open: one choice per field, the same in all views
            best = None
            for eff_c in alts.get(id(desc), [eff]):
                d = diffs(eff_c, placement(desc.elements(), eff_c))
                known_only = all("+field-under-absent-method" in x[2] or "+order-given-to-resolver" in x[2] for x in d)
                if best is None or (known_only and not best[1]) or (known_only == best[1] and len(d) < len(best[0])):
                    best = (d, known_only)
            for kind, view, vtag, got, exp, summary in best[0]:
                fail(kind, view, desc, vtag, got, exp, summary, r.source)
        for r in ok:
            r.dispose()
        apischema.cache.reset()

    alts: Dict[int, List[Dict[str, Spec]]] = {}

    def feed(gen):
        batch = []
        for desc in gen:
            eff = effective(desc)
            els = desc.elements()
            if not in_domain(els, eff):
                continue
            if desc.where:
                cands = candidates(desc)
                if not all(in_domain(els, c) for c in cands):
                    continue
                if len(cands) > 1:
                    alts[id(desc)] = cands
            batch.append((desc, eff, placement(els, eff)))
            if len(batch) >= 40:
                check_batch(batch)
                batch = []
                alts.clear()
        if batch:
            check_batch(batch)
            alts.clear()

    timing = {}

    def stage(name, gen):
        t0 = time.time()
        feed(gen)
        timing[name] = round(timing.get(name, 0) + time.time() - t0, 2)

    try:
        for n in range(1, n_exh + 1):
            stage("field_level", gen_field_level(n, "both"))
            if n <= n_small or (n == 3 and not quick):
                stage("class_mapping", gen_class_mapping(n, "both"))
            else:  # a seeded sample of the class-level mappings (size 3 in quick, size 4 in thorough)
                frac = 0.4 if n == 3 else 0.05
                stage("class_mapping", (d for d in gen_class_mapping(n, "both") if rng.random() < frac))
        for n in range(2, n_seq + 1):
            stage("sequences", gen_sequences(n, "both"))
        for n in range(2, n_small + 1):
            stage("inheritance", gen_inheritance(n))
        # the other declaration styles and aliased elements: exhaustive at size <= 2 (quick) / 3 (thorough)
        for n in range(1, n_small + 1):
            for style in STYLES:
                if style != "both":
                    stage("styles", gen_field_level(n, style))
                if n <= 2 or style in ("both", "serialized"):
                    for mode in ("upper", "rotate"):
                        stage("aliases", (with_aliases(d, mode) for d in gen_field_level(n, style)))
            for mode in ("upper", "rotate"):
                stage("aliases", (with_aliases(d, mode) for d in gen_class_mapping(n, "both")))
        # the field-level spec written inside Annotated[int, order(..)] (only there / also in the field
        # metadata, equal or conflicting), alone and under class-level overrides
        for n in range(1, n_exh + 1):
            if n <= n_small:
                stage("annotated", (with_where(d, "ann") for d in gen_field_level(n, "both")))
            else:  # a seeded sample above the exhaustive size
                frac = 0.25 if n == 3 else 0.05
                stage("annotated", (with_where(d, "ann") for d in gen_field_level(n, "both") if rng.random() < frac))
        for n in range(1, n_small + 1):
            for mode in ("both_same", "both_conflict"):
                stage("annotated", (with_where(d, mode) for d in gen_field_level(n, "both")))
            stage("annotated", (with_where(d, "ann") for d in gen_class_mapping(n, "both")))
            stage("annotated", (with_where(d, "ann") for d in gen_field_level(n, "serialized")))
            if n <= 2:
                stage("annotated", (with_where(d, "ann") for d in gen_inheritance(n)))
        stage("random", (random_desc(rng, rng.randint(2, n_max)) for _ in range(n_rand)))
        log.stats["stage_seconds"] = timing
    finally:
        apischema.cache.reset()
    return log


def replay(rp: dict) -> int:
    """re-run one failing case from its replay file: 1 when the view still differs from the expected order"""
    import ast

    case = rp.get("case") or {}
    print(json_dumps({k: rp.get(k) for k in ("property", "signature", "summary")}))
    src = case.get("source")
    if not src or "view" not in case:
        return 1
    print(src)
    names = [l.split()[1].split("(")[0].rstrip(":") for l in src.splitlines() if l.startswith("class ")]
    r = Realised.__new__(Realised)
    from apischema import alias, order, serialized
    from apischema.graphql import resolver

    r.modname = "c16_replay"
    mod = pytypes.ModuleType(r.modname)
    mod.__dict__.update({"dataclass": dataclasses.dataclass, "field": dataclasses.field, "order": order, "serialized": serialized, "resolver": resolver, "alias": alias, "_F": _F, "Annotated": typing.Annotated})
    sys.modules[r.modname] = mod
    exec(compile(src, "<c16 replay>", "exec", dont_inherit=True), mod.__dict__)
    r.cls = mod.__dict__[names[-1]]
    views = r.json_views()
    views.update(graphql_views([r])[0])
    got = views[case["view"]]
    exp = ast.literal_eval(rp.get("expected", "None"))
    print(f"view {case['view']}: observed {got!r}, expected {exp!r}")
    return 0 if got == exp else 1


def json_dumps(x) -> str:
    import json

    return json.dumps(x, indent=1, default=str)
