"""Type pools and datum pools of the bounded drivers (DESIGN.md section 5): the statement's
type grammar to a stated depth, and for each type data that is bounded-exhaustive over the
relevant atoms / keys plus boundary mutants of valid data plus seeded random deep values."""
from __future__ import annotations

import copy
import itertools
import random
from typing import Any, Iterator, List, Tuple

from .model import *  # noqa: F401,F403
from .model import Ann, AnyT, Coll, Cons, Disc, Enm, Fld, Lit, Mapp, NewT, Obj, Opt, Prim, Ref, TD, Tup, Uni, cons

INT, FLOAT, STR, BOOL, NONE = Prim("int"), Prim("float"), Prim("str"), Prim("bool"), Prim("none")

ATOMS: List[Any] = [None, True, False, 0, 1, -1, 7, 2.5, 1.0, "", "a", "ab", "xyz", [], [1], ["a"], [1, 1], {}, {"a": 1}, {"x1": 1}]

A = Obj("dataclass", "A", (Fld("a", INT), Fld("b", STR, has_default=True, default="x")))
B = Obj("dataclass", "B", (Fld("a", INT, alias="A"), Fld("b", Opt(INT), has_default=True, default=None)))
C = Obj("dataclass", "C", (Fld("xs", Coll("list", INT), factory="list"), Fld("f", FLOAT, has_default=True, default=0.0)))
D = Obj("dataclass", "D", (Fld("a", A), Fld("bs", Coll("list", A), factory="list")))
E = Obj("dataclass", "E", (Fld("x", INT), Fld("inner", A, flatten=True)))
F = Obj("dataclass", "F", (Fld("a", INT), Fld("pp", Mapp(STR, INT), factory="dict", pattern="^x")))
G = Obj("dataclass", "G", (Fld("a", INT, has_default=True, default=0), Fld("extra", Mapp(STR, INT), factory="dict", additional=True)))
H = Obj(
    "dataclass",
    "H",
    (
        Fld("h", STR),
        Fld("inner", A, flatten=True),
        Fld("pp", Mapp(STR, INT), factory="dict", pattern="^x"),
        Fld("extra", Mapp(STR, STR), factory="dict", additional=True),
    ),
)
I_ = Obj("dataclass", "I", (Fld("b", STR), Fld("a", INT, has_default=True, default=5, fall_back=True)))
J = Obj("dataclass", "J", (Fld("a", INT, has_default=True, default=0), Fld("b", INT, has_default=True, default=0), Fld("c", STR, has_default=True, default="")), dep_required=(("a", ("b",)),))
JA = Obj("dataclass", "JA", (Fld("credit_card", INT, has_default=True, default=0), Fld("billing_address", STR, has_default=True, default="", alias="$addr")), dep_required=(("credit_card", ("billing_address",)),))
TD1 = Obj("typeddict", "TD1", (Fld("a", INT), Fld("b", STR)))
TD2 = Obj("typeddict", "TD2", (Fld("a", INT), Fld("b", STR, td_required=False)))
NT = Obj("namedtuple", "NT", (Fld("a", INT), Fld("b", STR, has_default=True, default="x")))
NODE = Obj("dataclass", "Node", (Fld("value", INT), Fld("children", Coll("list", Ref("Node")), factory="list")))
PQ_P = Obj("dataclass", "P", (Fld("q", Opt(Ref("Q")), has_default=True, default=None), Fld("n", INT, has_default=True, default=0)))
PQ_Q = Obj("dataclass", "Q", (Fld("p", Opt(PQ_P), has_default=True, default=None),))
K_ = Obj("dataclass", "K", (Fld("a_b", INT), Fld("c", INT, alias="z", no_override_alias=True, has_default=True, default=1)), class_aliaser="upper")
L_ = Obj("dataclass", "L", (Fld("a", INT, has_default=True, default=0), Fld("b", INT, has_default=True, default=0)), cons=cons(min_props=1))
M_ = Obj("dataclass", "M", (Fld("some_name", INT), Fld("inner", Obj("dataclass", "MI", (Fld("deep_name", INT, has_default=True, default=3),)), flatten=True), Fld("other_name", Coll("list", STR), factory="list")))
N_ = Obj("dataclass", "N", (Fld("n", Ann(INT, cons(min=0)), cons=cons(max=5)), Fld("s", Ann(STR, cons(min_len=1)), has_default=True, default="d"), Fld("z", NewT("Delta2", INT, cons(min=-100, max=100)), has_default=True, default=1, cons=cons(min=0))))
A2 = Obj("dataclass", "A2", (Fld("a", INT, has_default=True, default=1), Fld("b", STR, has_default=True, default="x")))
FB2 = Obj("dataclass", "FB2", (Fld("inner", A2, flatten=True), Fld("z", INT, has_default=True, default=0)))
COLOR = Enm("Color", (("R", 1), ("G", 2)))
NAME = Enm("Name", (("A", "a"), ("B", "b")))
SHADE = Enm("Shade", (("D", 1), ("L", 2)))
USERID = NewT("UserId", INT)
POS = NewT("Pos", INT, cons(min=0))

CAT = Obj("dataclass", "Cat", (Fld("name", STR), Fld("lives", INT, has_default=True, default=9)))
DOG = Obj("dataclass", "Dog", (Fld("name", STR), Fld("age", Opt(INT), has_default=True, default=None)))
BIRD = Obj("dataclass", "Bird", (Fld("type", Lit(("bird", "b2"))), Fld("wings", FLOAT, has_default=True, default=2.0)))
FISH = Obj("dataclass", "Fish", (Fld("fin_count", INT, alias="fins"), Fld("tags", Coll("list", STR), factory="list")))
DISC1 = Disc((CAT, DOG), "type")
DISC2 = Disc((CAT, DOG, BIRD), "type")
DISC3 = Disc((CAT, FISH), "kind", mapping=(("c", "Cat"),))
DISCS = [DISC1, DISC2, DISC3, Coll("list", DISC1), Opt(DISC3)]

OBJECTS = [A, B, C, D, E, F, G, H, I_, J, JA, TD1, TD2, NT, NODE, PQ_P, K_, L_, M_, N_, FB2]


def type_pool(tier: str, python_objects: bool = False) -> List[TD]:
    prims = [INT, FLOAT, STR, BOOL, NONE]
    constrained = [
        Ann(INT, cons(min=0, max=10)),
        Ann(INT, cons(exc_min=0, exc_max=3, mult_of=2)),
        Ann(FLOAT, cons(exc_min=0, max=2.5)),
        Ann(FLOAT, cons(min=1)),
        Ann(STR, cons(min_len=1, max_len=2)),
        Ann(STR, cons(pattern="^a")),
        Ann(STR, cons(min_len=2, pattern="^a")),
    ]
    # constraints declared at two levels (type-level schema, then annotation / field / per-call),
    # including zero-valued bounds on either side
    DELTA = NewT("Delta", INT, cons(min=-100, max=100))
    ZMAX = NewT("ZMax", INT, cons(max=0))
    constrained += [
        Ann(Ann(INT, cons(min=0)), cons(max=5)),
        Ann(Ann(INT, cons(max=5)), cons(min=0)),
        Ann(DELTA, cons(min=0)),
        Ann(DELTA, cons(max=0)),
        Ann(ZMAX, cons(min=-3)),
        Ann(Ann(STR, cons(max_len=0)), cons(pattern="^a*$")),
        Ann(Ann(STR, cons(min_len=1)), cons(max_len=0)),
        Ann(Ann(Coll("list", INT), cons(max_items=0)), cons(unique=True)),
        Ann(Ann(Coll("list", INT), cons(min_items=1)), cons(max_items=0)),
        Ann(Ann(FLOAT, cons(exc_min=0)), cons(exc_max=0)),
        Ann(Ann(Mapp(STR, INT), cons(max_props=0)), cons(min_props=0)),
    ]
    # every mergeable keyword declared at two levels, tighter bound inside and outside (the compiled
    # constraint is the conjunction: the tighter bound must win whatever the nesting)
    pairs = [
        (INT, "min", 0, 5), (INT, "max", 10, 5), (INT, "exc_min", 0, 5), (INT, "exc_max", 10, 5), (INT, "mult_of", 2, 3),
        (FLOAT, "min", 0.5, 2.5), (FLOAT, "exc_max", 2.5, 1.5),
        (STR, "min_len", 1, 3), (STR, "max_len", 3, 1),
        (Coll("list", INT), "min_items", 1, 2), (Coll("list", INT), "max_items", 2, 1),
        (Mapp(STR, INT), "min_props", 1, 2), (Mapp(STR, INT), "max_props", 2, 1),
    ]
    for base, kw, a, b in pairs:
        for inner, outer in ((a, b), (b, a)):
            tag = f"{kw}_{str(inner).replace('.', '_')}_{str(outer).replace('.', '_')}_{type(base).__name__}{getattr(base, 'name', '')}"
            constrained.append(Ann(NewT("L2" + tag, base, cons(**{kw: inner})), cons(**{kw: outer})))
            constrained.append(Ann(Ann(base, cons(**{kw: inner})), cons(**{kw: outer})))
    elems = [INT, STR, FLOAT, Opt(INT), Ann(INT, cons(min=0))]
    colls = [Coll(k, t) for k in ("list", "sequence", "collection", "mutableseq", "set", "abstractset", "frozenset", "tuplevar") for t in elems]
    colls += [
        Ann(Coll("list", INT), cons(min_items=1, max_items=2)),
        Ann(Coll("list", INT), cons(unique=True)),
        Ann(Coll("list", FLOAT), cons(max_items=2)),
        Ann(Coll("set", INT), cons(min_items=2, unique=True)),
        Ann(Coll("list", A), cons(max_items=1, unique=True)),
        Coll("list", Coll("list", INT)),
        Coll("list", A),
        Coll("list", Tup((INT, STR))),
        Coll("tuplevar", FLOAT),
        Coll("frozenset", STR),
        # containers of unions mixing a check-only alternative with a converting one (the no-copy
        # shortcut must not return the raw container)
        Coll("list", Uni((INT, COLOR))),
        # (a different enum than in Union[int, Color] above: typing caches List[Union[A, B]] and hands the
        # same object back for List[Union[B, A]], so both orders of one pair cannot live in one process)
        Coll("list", Uni((SHADE, INT))),
        Coll("list", Uni((NAME, STR))),
        Coll("list", Uni((INT, NAME))),
        Mapp(STR, Uni((NAME, STR))),
        Coll("list", Uni((BOOL, FLOAT))),
        Coll("list", Uni((INT, A))),
        Coll("list", Opt(COLOR)),
        Coll("list", Opt(FLOAT)),
        Coll("list", Uni((STR, Coll("list", FLOAT)))),
        Mapp(STR, Uni((INT, COLOR))),
        Mapp(STR, Opt(FLOAT)),
        Mapp(STR, Uni((NONE, A))),
    ]
    tups = [Tup((INT, STR)), Tup((FLOAT,)), Tup((INT, Opt(STR), BOOL)), Tup((A, INT)), Tup((Coll("list", INT), STR))]
    maps = [
        Mapp(STR, INT),
        Mapp(STR, FLOAT),
        Mapp(Ann(STR, cons(min_len=2)), INT),
        Mapp(STR, Coll("list", INT)),
        Ann(Mapp(STR, INT), cons(min_props=1, max_props=2)),
        Mapp(STR, A),
        Mapp(STR, INT, kind="mapping"),
        Mapp(NAME, INT),
    ]
    opts = [Opt(t) for t in (INT, FLOAT, STR, Coll("list", INT), A, Ann(INT, cons(min=0)), Tup((INT, STR)))]
    unis = [
        Uni((INT, STR)),
        Uni((FLOAT, STR)),
        Uni((INT, FLOAT)),
        Uni((FLOAT, INT)),
        Uni((BOOL, INT)),
        Uni((STR, Coll("list", INT))),
        Uni((INT, STR, NONE)),
        Uni((A, B)),
        Uni((B, A)),
        Uni((Coll("list", INT), Tup((INT, STR)))),
        Uni((STR, Lit(("a", "b")))),
        Uni((Lit((1, 2)), STR)),
        Uni((INT, A)),
        Uni((Coll("list", STR), Mapp(STR, INT), NONE)),
        Ann(Uni((INT, STR)), cons(min=3, min_len=2)),
        Uni((FLOAT, STR, Coll("list", FLOAT))),
        Uni((A, Mapp(STR, INT))),
    ]
    lits = [Lit((1, 2)), Lit(("a", "b")), Lit((1, "a")), Lit((True,)), Lit((0,)), COLOR, NAME, Opt(COLOR)]
    news = [USERID, POS, Ann(POS, cons(max=10)), Coll("list", POS), Opt(POS)]
    anys = [AnyT(), Coll("list", AnyT()), Mapp(STR, AnyT()), Ann(AnyT(), cons(min=0, min_len=1, max_items=1))]
    if python_objects:  # C03 only: positions where an arbitrary datum must be hashed
        anys += [Coll("set", AnyT()), Coll("frozenset", AnyT()), Ann(Coll("list", AnyT()), cons(unique=True)), Mapp(AnyT(), INT)]
    pool = prims + constrained + colls + tups + maps + opts + unis + lits + news + anys + OBJECTS + DISCS
    if tier == "thorough":
        pool += [Coll(k, o) for k in ("list", "set", "tuplevar") for o in (A, B, TD1, NT) if not (k == "set")]
        pool += [Opt(o) for o in OBJECTS]
        pool += [Mapp(STR, o) for o in (B, E, G, TD2, NT)]
        pool += [Tup((o, Opt(o))) for o in (A, E, TD2)]
        pool += [Uni((o1, o2)) for o1, o2 in itertools.combinations((A, B, G, TD1, NT), 2)]
    return pool


_ALIASER = [None]


def set_sample_aliaser(f):
    """the dynamic aliaser under which the samples must conform"""
    _ALIASER[0] = f


def _dyn(s: str) -> str:
    return _ALIASER[0](s) if _ALIASER[0] else s


def valid_samples(td: TD, depth: int = 0) -> List[Any]:
    """a few conforming data for a description (by construction from the statement's rules)"""
    if isinstance(td, Disc):
        from .model import Opts, disc_mapping

        out = []
        for k, a in disc_mapping(td, Opts()).items():
            for s in _obj_samples(a, depth)[:2]:
                out.append({**s, _dyn(td.alias): k})
        return out
    if isinstance(td, Prim):
        return {"int": [0, 7], "float": [2.5, 1], "str": ["ab", "a"], "bool": [True, False], "none": [None]}[td.name]
    if isinstance(td, AnyT):
        return [1, "a", [1]]
    if isinstance(td, Ann):
        base = valid_samples(td.t, depth)
        c = dict(td.cons.kw)
        out = []
        for b in base + _cons_samples(td.t, c):
            out.append(b)
        return out
    if isinstance(td, NewT):
        return valid_samples(Ann(td.t, td.cons), depth) if td.cons else valid_samples(td.t, depth)
    if isinstance(td, Opt):
        return [None] + valid_samples(td.t, depth)[:2]
    if isinstance(td, Uni):
        return [s for a in td.alts for s in valid_samples(a, depth)[:1]]
    if isinstance(td, Coll):
        xs = valid_samples(td.t, depth + 1)
        return [[], xs[:1], xs[:2], xs[:1] * 2]
    if isinstance(td, Tup):
        return [[valid_samples(e, depth + 1)[0] for e in td.elts]]
    if isinstance(td, Mapp):
        ks = valid_samples(td.k, depth + 1)
        vs = valid_samples(td.v, depth + 1)
        ks = [k for k in ks if isinstance(k, str)] or ["k"]
        return [{}, {ks[0]: vs[0]}, {ks[0]: vs[0], (ks[0] + "z"): vs[-1]}]
    if isinstance(td, Lit):
        return list(td.values)
    if isinstance(td, Enm):
        return [v for _, v in td.members]
    if isinstance(td, Ref):
        return [{"value": 1, "children": []}] if td.name == "Node" else [{}]
    if isinstance(td, Obj):
        return _obj_samples(td, depth)
    raise TypeError(td)


def _cons_samples(t: TD, c: dict) -> List[Any]:
    out: List[Any] = []
    for k in ("min", "max", "exc_min", "exc_max"):
        if k in c:
            out += [c[k], c[k] - 1, c[k] + 1]
    if "mult_of" in c:
        out += [c["mult_of"] * 2, c["mult_of"] * 2 + 1]
    if "min_len" in c or "max_len" in c or "pattern" in c:
        out += ["a" * n for n in range(0, 4)] + ["ba", "ab"]
    if "min_items" in c or "max_items" in c or "unique" in c:
        out += [[], [1], [1, 2], [1, 1], [1, 2, 3]]
    if "min_props" in c or "max_props" in c:
        out += [{}, {"k": 1}, {"k": 1, "l": 2}, {"k": 1, "l": 2, "m": 3}]
    return out


def _obj_samples(td: Obj, depth: int) -> List[Any]:
    if depth > 2:
        full: dict = {}
    full = {}
    minimal = {}
    for f in td.fields:
        name = f.alias if f.alias is not None else f.name
        if td.class_aliaser and not f.no_override_alias:
            from .model import CLASS_ALIASERS

            name = CLASS_ALIASERS[td.class_aliaser](name)
        name = _dyn(name)
        if f.flatten:
            inner = f.t
            while not isinstance(inner, Obj):
                inner = inner.t  # type: ignore
            s = _obj_samples(inner, depth + 1)
            full.update(s[0])
            minimal.update(s[-1])
        elif f.pattern is not None:
            full["x1"] = valid_samples(f.t.v, depth + 1)[0]  # type: ignore
        elif f.additional:
            full["zz"] = valid_samples(f.t.v, depth + 1)[0]  # type: ignore
        else:
            v = valid_samples(f.t, depth + 1)
            full[name] = v[0] if depth < 3 else v[-1]
            req = f.td_required if td.kind == "typeddict" else f.required
            if req:
                minimal[name] = v[0]
    out = [full]
    if minimal != full:
        out.append(minimal)
    return out


def mutants(d: Any, limit: int = 40) -> List[Any]:
    """boundary mutants of a datum: every leaf replaced by atoms of other classes, keys dropped /
    added, arrays shortened / lengthened"""
    out: List[Any] = []
    repl = [None, True, 0, 1.5, "s", [], {}]

    def rec(x, rebuild):
        if len(out) > limit:
            return
        if isinstance(x, dict):
            for k in list(x):
                y = dict(x)
                del y[k]
                out.append(rebuild(y))
                rec(x[k], lambda v, k=k: rebuild({**x, k: v}))
            out.append(rebuild({**x, "unexpected_key": 1}))
        elif isinstance(x, list):
            if x:
                # a long array with two ill-typed elements at indices 2 and 10
                long = [copy.deepcopy(x[0]) for _ in range(12)]
                bad = {} if not isinstance(x[0], dict) else 0
                long[2], long[10] = bad, bad
                out.append(rebuild(long))
            out.append(rebuild(x + x[:1] if x else [None]))
            if x:
                out.append(rebuild(x[:-1]))
            for i in range(min(len(x), 3)):
                rec(x[i], lambda v, i=i: rebuild(x[:i] + [v] + x[i + 1 :]))
        else:
            for r in repl:
                if type(r) is not type(x):
                    out.append(rebuild(r))

    rec(d, lambda v: v)
    return out[:limit]


def random_value(rng: random.Random, depth: int = 3) -> Any:
    r = rng.random()
    if depth == 0 or r < 0.5:
        return rng.choice([None, True, False, 0, 1, -3, 10**20, 2.5, "", "a", "x1", "ab"])
    if r < 0.75:
        return [random_value(rng, depth - 1) for _ in range(rng.randint(0, 3))]
    return {rng.choice(["a", "b", "A", "x1", "zz", "value", "children", "k"]): random_value(rng, depth - 1) for _ in range(rng.randint(0, 3))}


# "any Python object passed as data" (C03): values outside the JSON classes, and JSON containers
# holding them / keyed by them.  Only used by the crash / purity clauses (no reference semantics).
PYTHON_OBJECTS: List[Any] = [10**5000, -(10**5000), float("inf"), float("nan"), (1, 2), {1, 2}, frozenset(), b"x", 1 + 2j, Ellipsis, range(2), {1: "x", "a": "y"}, {None: 1, 2.5: 2}, [{"a": 1}, {1: 2, "b": 3}], [[1], [1]], [{}, {}]]


def python_object_mutants(d: Any) -> List[Any]:
    """the datum with a non-string key added to each of its dicts (top level and first level)"""
    out: List[Any] = []
    if isinstance(d, dict):
        first = next(iter(d.values()), None)
        out.append({**d, 1: first})
        out.append({1: None, **d})
        for k, v in d.items():
            if isinstance(v, dict):
                out.append({**d, k: {**v, 1: next(iter(v.values()), None)}})
                break
    elif isinstance(d, list) and d:
        if isinstance(d[0], dict):
            out.append([{**d[0], 1: next(iter(d[0].values()), None)}] + d[1:])
        out.append(d + [(1, 2)])
    return out


def data_pool(td: TD, tier: str, rng: random.Random, python_objects: bool = False) -> List[Any]:
    seen = set()
    out: List[Any] = []

    def add(x):
        try:
            k = repr(x) + str(_typesig(x))
        except ValueError:  # an integer past the str-conversion limit
            k = f"int:{x.bit_length()}:{x > 0}" if isinstance(x, int) else str(id(x))
        if k not in seen:
            seen.add(k)
            out.append(x)

    samples = valid_samples(td)
    for s in samples:
        add(copy.deepcopy(s))
    for s in samples[: (4 if tier == "quick" else 8)]:
        for m in mutants(s, 30 if tier == "quick" else 80):
            add(m)
    for a in ATOMS:
        add(copy.deepcopy(a))
    for _ in range(6 if tier == "quick" else 40):
        add(random_value(rng))
    if python_objects:
        for x in PYTHON_OBJECTS:
            add(copy.deepcopy(x))
        for s_ in samples[:3]:
            for m in python_object_mutants(s_):
                add(m)
    return out


def _typesig(x):
    if isinstance(x, list):
        return [_typesig(y) for y in x]
    if isinstance(x, dict):
        return {k: _typesig(v) for k, v in x.items()}
    return type(x).__name__
