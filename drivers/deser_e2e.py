"""Run-time contract of apischema.deserialize against the reference semantics of model.py
(B: bounded by the type pool and the datum pools; the bound is written into the evidence)."""
from __future__ import annotations

import copy
import os
import dataclasses
import json
import random
from typing import Any, Dict, List, Optional, Tuple

from . import model as M
from . import pools as P


def camel(s: str) -> str:
    head, *rest = s.split("_")
    return head + "".join(w.capitalize() for w in rest)


OPTION_SETS = {
    "default": {},
    "additional": {"additional_properties": True},
    "fallback": {"fall_back_on_default": True},
    "camel": {"aliaser": camel},
    "no_copy_false": {"no_copy": False},
    "coerce": {"coerce": True},
}


def mk_opts(o: dict) -> M.Opts:
    return M.Opts(additional_properties=o.get("additional_properties", False), fall_back_on_default=o.get("fall_back_on_default", False), aliaser=o.get("aliaser"))


def deep_eq(a, b) -> bool:
    """equality with the same runtime classes at every level (bool is not int, 1 is not 1.0)"""
    if type(a) is not type(b):
        # abstract containers: the reference builds a list for Sequence / Collection; accept any
        # class only when both are the same class -- checked by the caller for abstract kinds
        return False
    if isinstance(a, (list, tuple)):
        return len(a) == len(b) and all(deep_eq(x, y) for x, y in zip(a, b))
    if isinstance(a, (set, frozenset)):
        return a == b and sorted(map(repr, map(type, a))) == sorted(map(repr, map(type, b)))
    if isinstance(a, dict):
        return a.keys() == b.keys() and all(deep_eq(a[k], b[k]) for k in a)
    if dataclasses.is_dataclass(a) and not isinstance(a, type):
        return all(deep_eq(getattr(a, f.name), getattr(b, f.name)) for f in dataclasses.fields(a))
    if isinstance(a, float) and a != a:
        return b != b
    return a == b


def method_classes(method, seen=None) -> List[str]:
    """names of the node classes of a compiled method tree (to link P failures to concrete inputs)"""
    from apischema.deserialization.methods import DeserializationMethod

    seen = seen if seen is not None else set()
    out: List[str] = []

    def rec(x):
        if id(x) in seen:
            return
        seen.add(id(x))
        if isinstance(x, DeserializationMethod):
            out.append(type(x).__name__)
            if type(x).__name__ == "RecMethod":
                try:
                    rec(x.lazy())
                except Exception:
                    pass
        if dataclasses.is_dataclass(x) and not isinstance(x, type):
            for f in dataclasses.fields(x):
                rec(getattr(x, f.name, None))
        elif isinstance(x, (tuple, list)):
            for y in x:
                rec(y)
        elif isinstance(x, dict):
            for y in x.values():
                rec(y)

    rec(method)
    return sorted(set(out))


def short(td) -> str:
    s = repr(td)
    for a, b in (("Prim(name=", "P("), ("Fld(name=", "F("), ("kind=", ""), (", alias=None", ""), (", has_default=False", ""), (", default=None", ""), (", factory=None", ""), (", flatten=False", ""), (", pattern=None", ""), (", additional=False", ""), (", fall_back=False", ""), (", none_as_undefined=False", ""), (", skip_ser_default=False", ""), (", skip_ser_if_falsy=False", ""), (", td_required=True", ""), (", cons=None", ""), (", no_override_alias=False", ""), (", init=True", ""), (", dep_required=()", ""), (", class_aliaser=None", ""), (", fields_set=False", "")):
        s = s.replace(a, b)
    return s if len(s) < 160 else s[:157] + "..."


def name_of(td) -> str:
    return getattr(td, "name", None) if isinstance(td, (M.Obj, M.Enm, M.NewT)) else short(td)


class Case:
    def __init__(self, td, optname, opts, datum):
        self.td, self.optname, self.opts, self.datum = td, optname, opts, datum


def R(d) -> str:
    """repr that survives integers past the str-conversion limit"""
    try:
        return repr(d)
    except ValueError:
        return f"<int of {d.bit_length()} bits>" if isinstance(d, int) else "<unprintable>"


def json_like(d) -> bool:
    """inside the domain of the reference semantics: JSON classes, string keys, integers of ordinary size"""
    if d is None or type(d) in (bool, str):
        return True
    if type(d) is int:
        return abs(d) < 10**400
    if type(d) is float:
        return d == d and abs(d) != float("inf")
    if type(d) is list:
        return all(json_like(x) for x in d)
    if type(d) is dict:
        return all(type(k) is str and json_like(v) for k, v in d.items())
    return False


def jsonable_small(d) -> bool:
    try:
        json.dumps(d)
        return True
    except Exception:
        return False


def run(report, tier: str, seed: int, clauses: Tuple[str, ...], log_name: str):
    """clauses subset of {'accept', 'image', 'errors', 'crash', 'pure'}"""
    from apischema import ValidationError, deserialize
    from apischema.deserialization import deserialization_method

    rng = random.Random(seed)
    pool = P.type_pool(tier, python_objects=set(clauses) <= {"crash", "pure"})
    optnames = ["default", "additional", "fallback", "camel"] if tier == "quick" else ["default", "additional", "fallback", "camel", "no_copy_false"]
    if set(clauses) <= {"crash", "pure"}:
        optnames = optnames + ["coerce"]
    pyobj = f", {len(P.PYTHON_OBJECTS)} non-JSON Python objects and non-string-key mutants" if set(clauses) <= {"crash", "pure"} else ""
    log = report.driver(
        log_name,
        bound=f"type pool of {len(pool)} descriptions (grammar depth <= {'2' if tier == 'quick' else '3'}) x option sets {optnames} x per-type datum pools (valid samples, <= {30 if tier == 'quick' else 80} boundary mutants each, {len(P.ATOMS)} atoms, {6 if tier == 'quick' else 40} seeded random values{pyobj})",
    )
    log.rule("case = (type description, option set, datum); the run-time postcondition of deserialize is the reference semantics of drivers/model.py (written from the statement); distinct by that triple; non-trivial when the datum is a dict / list or the type is not a bare primitive")
    realm = M.Realm("deser")
    M.install_typing(realm)
    for o in P.OBJECTS + [P.PQ_Q, P.A2, P.CAT, P.DOG, P.BIRD, P.FISH]:
        M.realize(o, realm)
    for td in pool:
        try:
            tp = M.realize(td, realm)
        except Exception as e:
            report.tool_error(f"cannot realise {short(td)}: {e!r}")
            continue
        for optname in optnames:
            o = OPTION_SETS[optname]
            if optname in ("additional", "fallback", "camel") and not _has_obj(td):
                continue
            ref_known = optname != "coerce"
            mopts = mk_opts(o)
            P.set_sample_aliaser(o.get("aliaser"))
            try:
                meth = deserialization_method(tp, **o)
            except Exception as e:
                log.fail(f"compile:{short(td)}:{optname}:{type(e).__name__}", f"deserialization_method({short(td)}, {optname}) raised {e!r}", {"type": short(td), "options": optname}, observed=repr(e), functions_involved=[])
                continue
            involved = None
            for d in P.data_pool(td, tier, rng, python_objects=set(clauses) <= {"crash", "pure"}):
                before = copy.deepcopy(d)
                nontrivial = isinstance(d, (list, dict)) or not isinstance(td, M.Prim)
                log.case((short(td), optname, R(d)), nontrivial, sample={"type": short(td), "options": optname, "datum": d if jsonable_small(d) else R(d)} if nontrivial else None)
                ref_here = ref_known and json_like(d)
                exp = M.ref_deserialize(td, copy.deepcopy(d), realm, mopts) if ref_here else ("?", None)
                try:
                    got: Tuple[str, Any] = ("ok", meth(d))
                except ValidationError as e:
                    try:
                        errs = e.errors
                        json.dumps(errs)
                        got = ("err", [(tuple(x["loc"]), x["err"]) for x in errs])
                    except Exception as e2:
                        got = ("crash", f"errors not computable / serializable: {e2!r}")
                except RecursionError as e:
                    got = ("crash", "RecursionError")
                except Exception as e:
                    got = ("crash", f"{type(e).__name__}: {e}")

                def fail(kind, summary):
                    nonlocal involved
                    if involved is None:
                        try:
                            involved = method_classes(getattr(meth, "__self__", None))
                        except Exception:
                            involved = []
                    log.fail(
                        f"{kind}:{short(td)}:{optname}:{R(d)}",
                        f"{kind}: deserialize({short(td)}, {R(d)}, {optname}): {summary}",
                        {"type": short(td), "options": optname, "datum": R(d)},
                        observed=repr(got)[:600],
                        expected=repr(exp)[:600],
                        functions_involved=involved,
                    )

                if got[0] == "crash":
                    if "crash" in clauses:
                        # the signature carries the escaping exception, so that a known finding
                        # never covers a different crash on the same input
                        fail("crash<" + got[1].split(":")[0].strip()[:40] + ">", f"escaped with {got[1]}")
                    continue
                if "pure" in clauses and not deep_eq(before, d):
                    fail("input-mutated", f"input changed to {R(d)}")
                if not ref_here or exp[0] == "?":
                    continue
                if got[0] != exp[0]:
                    if "errors" in clauses and "accept" not in clauses and exp[0] == "err":
                        # every violated rule must be reported: a datum the rules reject was accepted,
                        # so the entries for its violations are missing altogether
                        fail("errors-missing", f"accepted although the statement's rules give the errors {exp[1]!r}")
                    if "accept" in clauses:
                        fail("accept-mismatch", f"{'accepted' if got[0] == 'ok' else 'rejected'} but the statement's rules say {'conforming' if exp[0] == 'ok' else 'not conforming'}")
                    continue
                if got[0] == "ok" and "image" in clauses:
                    if not image_ok(td, got[1], exp[1], M.Ref_(realm, mopts), d):
                        fail("image-mismatch", f"image {got[1]!r} ({type(got[1]).__name__}) differs from the typed image {exp[1]!r}")
                if got[0] == "err" and "errors" in clauses:
                    if sorted(got[1], key=repr) != sorted(exp[1], key=repr):
                        fail("errors-mismatch", f"errors {got[1]!r} differ from one-entry-per-violation {exp[1]!r}")
                    elif not ordered(got[1]):
                        fail("errors-order", f"errors not in own-messages-then-children-by-key order: {got[1]!r}")
    realm.dispose()
    return log


def ordered(flat: List[Tuple[tuple, str]]) -> bool:
    def lt(a: tuple, b: tuple) -> bool:
        for x, y in zip(a, b):
            if x == y:
                continue
            try:
                return x < y
            except TypeError:
                return True
        return len(a) <= len(b)

    return all(lt(flat[i][0], flat[i + 1][0]) for i in range(len(flat) - 1))


def _has_obj(td) -> bool:
    if isinstance(td, (M.Obj, M.Ref, M.Disc)):
        return True
    if isinstance(td, (M.Opt, M.Coll, M.Ann, M.NewT)):
        return _has_obj(td.t)
    if isinstance(td, M.Uni):
        return any(_has_obj(a) for a in td.alts)
    if isinstance(td, M.Tup):
        return any(_has_obj(a) for a in td.elts)
    if isinstance(td, M.Mapp):
        return _has_obj(td.k) or _has_obj(td.v)
    return False


ABSTRACT = {"sequence", "collection", "mutableseq", "abstractset"}


def image_ok(td, got, exp, ref=None, datum=None) -> bool:
    """typed image: the annotated container classes (abstract annotations admit any instance
    of the annotation holding the same elements), floats where float is expected"""
    if isinstance(td, (M.Ann, M.NewT)):
        return image_ok(td.t, got, exp, ref, datum)
    if isinstance(td, M.Opt):
        return got is None if exp is None else image_ok(td.t, got, exp, ref, datum)
    if isinstance(td, M.Uni) and ref is not None:
        # a value equal (==) to the first accepting alternative's image, and itself the typed
        # image of some accepting alternative
        if not (got == exp):
            return False
        for a in td.alts:
            try:
                if image_ok(a, got, ref.deser(a, copy.deepcopy(datum)), ref, datum):
                    return True
            except M.Rejected:
                pass
        return False
    if isinstance(td, M.Coll) and td.kind in ABSTRACT:
        import collections.abc as abc

        base = {"sequence": abc.Sequence, "collection": abc.Collection, "mutableseq": abc.MutableSequence, "abstractset": abc.Set}[td.kind]
        if not isinstance(got, base) or isinstance(got, str):
            return False
        if td.kind == "abstractset":
            return deep_eq(set(got), set(exp))
        return len(got) == len(exp) and all(image_ok(td.t, g, e) for g, e in zip(got, exp))
    if isinstance(td, M.Mapp) and td.kind == "mapping":
        import collections.abc as abc

        return isinstance(got, abc.Mapping) and deep_eq(dict(got), exp)
    if isinstance(td, M.Coll) and td.kind in ("list", "tuplevar"):
        return type(got) is type(exp) and len(got) == len(exp) and all(image_ok(td.t, g, e) for g, e in zip(got, exp))
    return deep_eq(got, exp)


def replay_case(rp: dict) -> int:
    """re-run one recorded case against the current tree: exit 1 iff it still fails"""
    from apischema import ValidationError
    from apischema.deserialization import deserialization_method

    case = rp.get("case", {})
    kind = rp.get("signature", "").split(":")[0]
    realm = M.Realm("replay")
    M.install_typing(realm)
    for o in P.OBJECTS + [P.PQ_Q, P.A2, P.CAT, P.DOG, P.BIRD, P.FISH]:
        M.realize(o, realm)
    rng = random.Random(0)
    for tier in ("quick", "thorough"):
        for td in P.type_pool(tier, python_objects=True):
            if short(td) != case.get("type"):
                continue
            o = OPTION_SETS[case["options"]]
            P.set_sample_aliaser(o.get("aliaser"))
            tp = M.realize(td, realm)
            meth = deserialization_method(tp, **o)
            for t2 in ("quick", "thorough"):
                for d in P.data_pool(td, t2, random.Random(int(os.environ.get("VERIF_SEED", "0"))), python_objects=True):
                    if R(d) != case.get("datum"):
                        continue
                    before = copy.deepcopy(d)
                    exp = M.ref_deserialize(td, copy.deepcopy(d), realm, mk_opts(o)) if case["options"] != "coerce" and json_like(d) else ("?", None)
                    try:
                        got = ("ok", meth(d))
                    except ValidationError as e:
                        got = ("err", [(tuple(x["loc"]), x["err"]) for x in e.errors])
                    except Exception as e:
                        got = ("crash", f"{type(e).__name__}: {e}")
                    print("type    :", short(td))
                    print("options :", case["options"])
                    print("datum   :", R(d))
                    print("observed:", repr(got)[:500])
                    print("required:", repr(exp)[:500])
                    failing = (
                        got[0] == "crash"
                        or (kind == "input-mutated" and not deep_eq(before, d))
                        or (exp[0] != "?" and got[0] != exp[0])
                        or (exp[0] == "ok" and got[0] == "ok" and not image_ok(td, got[1], exp[1], M.Ref_(realm, mk_opts(o)), d))
                        or (exp[0] == "err" and got[0] == "err" and (sorted(got[1], key=repr) != sorted(exp[1], key=repr) or not ordered(got[1])))
                    )
                    print("STILL FAILING" if failing else "no longer failing")
                    return 1 if failing else 0
    print("case not found in the pools of this version of the driver")
    return 3
