"""C15: field-set tracking (with_fields_set) against a tiny reference model of the tracked set,
written from the statement and docs/de_serialization.md "Fields set" / "Exclude unset fields":

* construction (constructor call or deserialize): set = names of the fields given as arguments /
  present in the data, plus default_as_set fields, plus init=False fields; InitVar pseudo-fields
  are not fields and are never in the set;
* obj.f = v adds f; set_fields(obj, *fs) adds fs (overwrite=True: the set becomes fs);
  unset_fields(obj, *fs) removes fs;
* apischema.dataclasses.replace(obj, **changes) returns a new object whose set is the old set plus
  the changed fields (and leaves obj alone);
* serialize(obj) (exclude_unset is the default) emits exactly the set fields, and
  serialize(obj, exclude_unset=False) emits all the fields.

B: bounded by the class shapes, the subsets of optional arguments / keys, and the operation
sequences (exhaustive up to a length, sampled above)."""
from __future__ import annotations

import itertools
import random
import sys
import types as pytypes
from dataclasses import dataclass
from typing import Any, Dict, List, Optional, Tuple

PRELUDE = """
from dataclasses import dataclass, field, InitVar
from typing import List, Optional
from apischema.fields import with_fields_set
from apischema.metadata import default_as_set
from typing import Annotated, Generic, TypeVar, Union
from apischema import schema
T = TypeVar("T")
_M = object()
"""


@dataclass(frozen=True)
class F:
    name: str
    kind: str  # req | opt | opt_kw (keyword-only) | init_false | initvar_req | initvar_opt
    default_as_set: bool = False
    sample: Any = 1  # a non-default value
    default: Any = None  # the value when not given


@dataclass(frozen=True)
class Shape:
    name: str  # class under test
    source: str
    fields: Tuple[F, ...]  # in __init__ order for the init ones
    note: str = ""
    via: Tuple[str, ...] = ()  # further type expressions through which the class is (de)serialized (parametrised aliases)


SHAPES: List[Shape] = [
    Shape(
        "Plain",
        """
@with_fields_set
@dataclass
class Plain:
    a: int
    b: Optional[int] = None
    c: int = 0
    d: List[int] = field(default_factory=list)
""",
        (F("a", "req"), F("b", "opt", sample=2), F("c", "opt", sample=3, default=0), F("d", "opt", sample=[1], default=[])),
    ),
    Shape(
        "DefSet",
        """
@with_fields_set
@dataclass
class DefSet:
    a: int
    b: Optional[int] = field(default=None, metadata=default_as_set)
    c: int = 0
    d: List[int] = field(default_factory=list, metadata=default_as_set)
""",
        (F("a", "req"), F("b", "opt", True, sample=2), F("c", "opt", sample=3, default=0), F("d", "opt", True, sample=[1], default=[])),
    ),
    Shape(
        "InitFalse",
        """
@with_fields_set
@dataclass
class InitFalse:
    a: int
    b: Optional[int] = None
    e: int = field(init=False, default=9)
    g: int = field(init=False)
    def __post_init__(self):
        self.g = self.a + 1
""",
        (F("a", "req"), F("b", "opt", sample=2), F("e", "init_false", default=9), F("g", "init_false")),
    ),
    Shape(
        "WithInitVar",
        """
@with_fields_set
@dataclass
class WithInitVar:
    a: int
    iv: InitVar[int]
    b: Optional[int] = None
    ivd: InitVar[int] = 3
    c: int = field(default=0, metadata=default_as_set)
    e: int = field(init=False)
    def __post_init__(self, iv, ivd):
        self.e = iv + ivd
""",
        (F("a", "req"), F("iv", "initvar_req"), F("b", "opt", sample=2), F("ivd", "initvar_opt", sample=4), F("c", "opt", True, sample=5, default=0), F("e", "init_false")),
    ),
    Shape(
        "KwOnly",
        """
@with_fields_set
@dataclass
class KwOnly:
    a: int
    k: int = field(default=0, kw_only=True)
    b: Optional[int] = None
    iv: InitVar[int] = 1
    c: int = 0
    e: int = field(init=False, default=5)
""",
        (F("a", "req"), F("k", "opt_kw", sample=6, default=0), F("b", "opt", sample=2), F("iv", "initvar_opt", sample=4), F("c", "opt", sample=3, default=0), F("e", "init_false", default=5)),
        "keyword-only field and InitVar declared before other init fields",
    ),
    Shape(
        "AnnotatedFields",
        """
@with_fields_set
@dataclass
class AnnotatedFields:
    a: Annotated[int, schema(min=0)]
    b: Annotated[Optional[int], schema(min=0)] = None
    c: Annotated[Optional[int], schema(max=100)] = field(default=None, metadata=default_as_set)
    d: Annotated[List[int], schema(max_items=9)] = field(default_factory=list)
""",
        (F("a", "req"), F("b", "opt", sample=2), F("c", "opt", True, sample=3), F("d", "opt", sample=[1], default=[])),
        "PEP 593 metadata on the whole annotation of the fields (Annotated around Optional / plain types)",
    ),
    Shape(
        "GenBox",
        """
@with_fields_set
@dataclass
class GenBox(Generic[T]):
    a: T
    b: Optional[T] = None
    c: int = field(default=0, metadata=default_as_set)
    d: List[T] = field(default_factory=list)
""",
        (F("a", "req"), F("b", "opt", sample=2), F("c", "opt", True, sample=3, default=0), F("d", "opt", sample=[1], default=[])),
        "generic with_fields_set dataclass, also observed through the parametrised alias GenBox[int]",
        via=("GenBox[int]",),
    ),
    Shape(
        "InitBefore",
        """
@with_fields_set
@dataclass
class DBase4:
    a: int
    b: Optional[int] = None

@dataclass
class InitBefore(DBase4):
    t: int = 0
    u: Optional[int] = None
    def __init__(self, a, t=_M, u=_M, **kwargs):
        if t is not _M:
            self.t = t              # assigned before the inherited (wrapped) __init__
        super().__init__(a, **kwargs)
        if u is not _M:
            self.u = u              # assigned after it
""",
        (F("a", "req"), F("t", "opt", sample=3, default=0), F("u", "opt", sample=4), F("b", "opt_kw", sample=2)),
        "undecorated subclass overriding __init__: assigns own fields before / after calling super().__init__",
    ),
    Shape(
        "InitBeforeDecorated",
        """
@with_fields_set
@dataclass
class DBase5:
    a: int
    b: Optional[int] = field(default=None, metadata=default_as_set)

@with_fields_set
@dataclass
class InitBeforeDecorated(DBase5):
    t: int = 0
    e: int = field(init=False, default=8)
    def __init__(self, a, t=_M, **kwargs):
        if t is not _M:
            self.t = t
        super().__init__(a, **kwargs)
""",
        (F("a", "req"), F("t", "opt", sample=3, default=0), F("b", "opt_kw", True, sample=2), F("e", "init_false", default=8)),
        "decorated subclass overriding __init__ and assigning an own field before super().__init__",
    ),
    Shape(
        "OwnInit",
        """
@with_fields_set
@dataclass
class OwnInit:
    a: int
    b: Optional[int] = None
    c: int = 0
    def __init__(self, a, b=_M, c=_M):
        self.a = a
        if b is not _M:
            self.b = b
        if c is not _M:
            self.c = c
""",
        (F("a", "req"), F("b", "opt", sample=2), F("c", "opt", sample=3, default=0)),
        "decorated dataclass with a hand-written __init__",
    ),
    Shape(
        "FromUndecorated",
        """
@dataclass
class UBase:
    a: int
    b: Optional[int] = None

@with_fields_set
@dataclass
class FromUndecorated(UBase):
    c: int = 0
    d: Optional[int] = field(default=None, metadata=default_as_set)
""",
        (F("a", "req"), F("b", "opt", sample=2), F("c", "opt", sample=3, default=0), F("d", "opt", True, sample=4)),
        "decorated dataclass inheriting from an undecorated dataclass",
    ),
    Shape(
        "PlainSub",
        """
@with_fields_set
@dataclass
class DBase1:
    a: int
    b: Optional[int] = None
    c: int = 0

class PlainSub(DBase1):
    def total(self) -> int:
        return self.a + self.c
""",
        (F("a", "req"), F("b", "opt", sample=2), F("c", "opt", sample=3, default=0)),
        "undecorated plain subclass of a decorated dataclass",
    ),
    # an undecorated @dataclass subclass (adding a field) of a decorated dataclass is NOT in the pool: it is not
    # "a class decorated with with_fields_set" (premise of C15); its regenerated __init__ marks every field as set
    Shape(
        "BothDecorated",
        """
@with_fields_set
@dataclass
class DBase3:
    a: int
    b: Optional[int] = field(default=None, metadata=default_as_set)

@with_fields_set
@dataclass
class BothDecorated(DBase3):
    c: int = 0
    e: int = field(init=False, default=7)
""",
        (F("a", "req"), F("b", "opt", True, sample=2), F("c", "opt", sample=3, default=0), F("e", "init_false", default=7)),
        "decorated dataclass inheriting from a decorated dataclass",
    ),
    Shape(
        "PostInitSub",
        """
@dataclass
class UBase2:
    a: int
    seed: InitVar[int] = 1
    g: int = field(init=False)
    def __post_init__(self, seed):
        self.g = self.a * seed

@with_fields_set
@dataclass
class PostInitSub(UBase2):
    b: Optional[int] = None
    c: int = field(default=0, metadata=default_as_set)
""",
        (F("a", "req"), F("seed", "initvar_opt", sample=2), F("g", "init_false"), F("b", "opt", sample=2), F("c", "opt", True, sample=3, default=0)),
        "inherited __post_init__ / InitVar / init=False from an undecorated base",
    ),
]


def real_fields(sh: Shape) -> List[F]:
    return [f for f in sh.fields if not f.kind.startswith("initvar")]


def init_args(sh: Shape) -> List[F]:
    return [f for f in sh.fields if f.kind != "init_false"]


def always_set(sh: Shape) -> set:
    return {f.name for f in sh.fields if f.kind == "init_false" or (f.default_as_set and not f.kind.startswith("initvar"))}


def model_construct(sh: Shape, given: Tuple[str, ...]) -> set:
    return {n for n in given if n in {f.name for f in real_fields(sh)}} | always_set(sh)


def ops_alphabet(sh: Shape) -> List[tuple]:
    rf = [f.name for f in real_fields(sh)]
    init_real = [f.name for f in sh.fields if f.kind in ("req", "opt", "opt_kw")]
    ops: List[tuple] = []
    for n in rf:
        ops += [("set", n), ("unset", n), ("assign", n)]
    for n in init_real:
        ops.append(("replace", n))
    ops.append(("replace",))
    ops.append(("set_overwrite", rf[0]))
    ops.append(("set_overwrite", rf[-1]))
    ops.append(("set", rf[0], rf[-1]))
    ops.append(("unset", rf[0], rf[1]))
    ops.append(("unset",))
    if len(init_real) > 1:
        ops.append(("replace", init_real[0], init_real[-1]))
    return ops


def subsets(sh: Shape, tier: str) -> List[Tuple[str, ...]]:
    req = [f.name for f in sh.fields if f.kind in ("req", "initvar_req")]
    opt = [f.name for f in sh.fields if f.kind in ("opt", "opt_kw", "initvar_opt")]
    out = []
    for r in range(len(opt) + 1):
        for c in itertools.combinations(opt, r):
            out.append(tuple(req) + c)
    return out


def run(report, tier: str, seed: int, log_name: str = "fields_set_vs_model"):
    import apischema
    from apischema import deserialize, serialize
    from apischema.dataclasses import replace
    from apischema.fields import fields_set, is_set, set_fields, unset_fields

    rng = random.Random(seed)
    exhaustive_len = 2 if tier == "quick" else 3
    sampled_len = 3 if tier == "quick" else 4
    n_sampled = 400 if tier == "quick" else 4000
    log = report.driver(
        log_name,
        bound=f"{len(SHAPES)} with_fields_set dataclass shapes (plain, default_as_set, init=False + __post_init__, InitVar, keyword-only, generic class also used through a parametrised alias, inheritance from an undecorated class, plain / @dataclass / decorated subclasses of a decorated class, inherited __post_init__, subclasses overriding __init__ which assign fields before / after super().__init__, hand-written __init__) x every subset of optional constructor arguments / data keys (constructor and deserialize) x every sequence of set_fields / unset_fields / attribute assignment / apischema.dataclasses.replace (one or two fields, overwrite, no field) of length <= {exhaustive_len} from every initial subset of <= 1 optional argument and from the full one, plus {n_sampled} seeded random sequences of length {sampled_len} per shape",
    )
    log.rule(
        "case = (class shape, how built, arguments / keys given, operation sequence); after the construction and after every operation: fields_set(obj) equals the model set (given fields + default_as_set + init=False; assignment / set_fields add; unset_fields removes; overwrite replaces; replace = old set + changed fields on a new object, the old object untouched); is_set agrees with fields_set; the keys of serialize(T, obj) -- T the class, a parametrised alias of it, List[T] around it, or no type -- are exactly the set fields and those of serialize(obj, exclude_unset=False) all the fields, with the attribute values (also combined with exclude_none=True: then without the None-valued fields). Distinct by the whole tuple; non-trivial when at least one optional field is unset at some point"
    )
    mod_name = f"verif_fields_set_{seed}_{id(report) & 0xFFFF}"
    module = pytypes.ModuleType(mod_name)
    sys.modules[mod_name] = module
    try:
        for sh in SHAPES:
            try:
                exec(PRELUDE + sh.source, module.__dict__)
                cls = module.__dict__[sh.name]
            except Exception as e:
                report.tool_error(f"cannot build shape {sh.name}: {e!r}")
                continue
            _run_shape(report, log, sh, cls, tier, rng, exhaustive_len, sampled_len, n_sampled, deserialize, serialize, replace, fields_set, is_set, set_fields, unset_fields)
    finally:
        sys.modules.pop(mod_name, None)
        apischema.cache.reset()
    return log


def _run_shape(report, log, sh: Shape, cls, tier, rng, exhaustive_len, sampled_len, n_sampled, deserialize, serialize, replace, fields_set, is_set, set_fields, unset_fields):
    import typing

    ns = sys.modules[cls.__module__].__dict__
    aliases = {expr: eval(expr, ns) for expr in sh.via}
    # further observation paths of the same object: parametrised aliases, a list of the class, no type at all
    paths: List[Tuple[str, Any]] = [(expr, tp) for expr, tp in aliases.items()]
    paths += [(f"List[{expr}]", typing.List[tp]) for expr, tp in [(sh.name, cls)] + list(aliases.items())]
    paths.append(("untyped", None))
    by_name = {f.name: f for f in sh.fields}
    rf = real_fields(sh)
    rf_names = [f.name for f in rf]
    alphabet = ops_alphabet(sh)
    initvar_req = [f for f in sh.fields if f.kind == "initvar_req"]
    involved = ["with_fields_set", "set_fields", "unset_fields", "fields_set", "_replace", "ComplexField", "support_fields_set"]

    def build(how: str, given: Tuple[str, ...]):
        vals = {n: by_name[n].sample for n in given}
        if how == "constructor":
            return cls(**vals)
        if how == "positional":
            # the leading arguments positionally, the rest by keyword
            order = [f.name for f in init_args(sh) if f.kind != "opt_kw"]
            lead = []
            for n in order:
                if n in vals:
                    lead.append(n)
                else:
                    break
            return cls(*[vals[n] for n in lead], **{n: v for n, v in vals.items() if n not in lead})
        if how.startswith("deserialize:"):
            return deserialize(aliases[how.split(":", 1)[1]], dict(vals))
        return deserialize(cls, dict(vals))

    def well_typed(name, k):
        """a value of the field's type derived from the integer k"""
        return [k] if isinstance(by_name[name].sample, list) else k

    def fail(kind, how, given, seq, step, summary, observed, expected):
        log.fail(
            f"{kind}:{sh.name}:{step}:{summary}",
            f"{kind}: {sh.name} ({sh.note or 'with_fields_set dataclass'}) built by {how} with {list(given)}, after {[' '.join(map(str, o)) for o in seq] or 'construction'}: {step}: {summary} (observed {observed}, model {expected})",
            {"shape": sh.name, "source": sh.source, "built_by": how, "given": list(given), "operations": [list(o) for o in seq]},
            observed=repr(observed),
            expected=repr(expected),
            functions_involved=involved,
        )

    def check(obj, model: set, how, given, seq, step) -> Optional[set]:
        """the set to continue with: the model set, or the observed one after a reported deviation
        (so that the following transitions are still checked); None when nothing can be observed"""
        try:
            got = set(fields_set(obj))
        except Exception as e:
            fail("fields-set", how, given, seq, step, f"raised={type(e).__name__}", repr(e), sorted(model))
            return None
        if got != model:
            fail("fields-set", how, given, seq, step, f"extra={','.join(sorted(got - model))}:missing={','.join(sorted(model - got))}", sorted(got), sorted(model))
            model = got
        flags = {n: bool(getattr(is_set(obj), n)) for n in rf_names}
        if {n for n, b in flags.items() if b} != model & set(rf_names):
            fail("is-set", how, given, seq, step, "is_set disagrees with fields_set", flags, sorted(model))
        not_none = [n for n in rf_names if getattr(obj, n) is not None]
        for xu, kw, expect in (
            ("True", {}, [n for n in rf_names if n in model]),
            ("False", {"exclude_unset": False}, rf_names),
            # together with another omission rule (the unset test then sits in the same field strategy)
            ("True+exclude_none", {"exclude_none": True}, [n for n in not_none if n in model]),
            ("False+exclude_none", {"exclude_unset": False, "exclude_none": True}, not_none),
        ):
            try:
                data = serialize(cls, obj, **kw)
            except Exception as e:
                fail("serialize", how, given, seq, step, f"exclude_unset={xu}:raised={type(e).__name__}", repr(e), expect)
                continue
            keys = set(data) if isinstance(data, dict) else None
            if keys != set(expect):
                fail("serialize", how, given, seq, step, f"exclude_unset={xu}:extra={','.join(sorted((keys or set()) - set(expect)))}:missing={','.join(sorted(set(expect) - (keys or set())))}", data, expect)
            elif any(data[n] != getattr(obj, n) for n in expect):
                fail("serialize", how, given, seq, step, f"exclude_unset={xu}:values", data, {n: getattr(obj, n) for n in expect})
        for pname, tp in paths:
            for xu, kw, expect in (("True", {}, [n for n in rf_names if n in model]), ("False", {"exclude_unset": False}, rf_names)):
                try:
                    if tp is None:
                        data = serialize(obj, **kw)
                    elif pname.startswith("List["):
                        data = serialize(tp, [obj], **kw)[0]
                    else:
                        data = serialize(tp, obj, **kw)
                except Exception as e:
                    fail("serialize", how, given, seq, step, f"via={pname}:exclude_unset={xu}:raised={type(e).__name__}", repr(e), expect)
                    continue
                want = {n: getattr(obj, n) for n in expect}
                if data != want:
                    keys = set(data) if isinstance(data, dict) else set()
                    fail("serialize", how, given, seq, step, f"via={pname}:exclude_unset={xu}:extra={','.join(sorted(keys - set(expect)))}:missing={','.join(sorted(set(expect) - keys))}", data, want)
        return model

    def play(how, given, seq):
        nontrivial = any(n not in given for n in rf_names if by_name[n].kind in ("opt", "opt_kw") and not by_name[n].default_as_set) or any(o[0] == "unset" and len(o) > 1 for o in seq)
        log.case((sh.name, how, given, seq), nontrivial, sample={"shape": sh.name, "built_by": how, "given": list(given), "operations": [list(o) for o in seq]} if nontrivial else None)
        try:
            obj = build(how, given)
        except Exception as e:
            fail("construct", how, given, (), how, f"raised={type(e).__name__}", repr(e), "an instance")
            return
        model = check(obj, model_construct(sh, given), how, given, (), how)
        if model is None:
            return
        for i, op in enumerate(seq):
            done = seq[: i + 1]
            kind, names = op[0], list(op[1:])
            try:
                if kind == "set":
                    set_fields(obj, *names)
                    model = model | set(names)
                elif kind == "set_overwrite":
                    set_fields(obj, *names, overwrite=True)
                    model = set(names)
                elif kind == "unset":
                    unset_fields(obj, *names)
                    model = model - set(names)
                elif kind == "assign":
                    for n in names:
                        setattr(obj, n, well_typed(n, 11))
                    model = model | set(names)
                elif kind == "replace":
                    changes = {n: well_typed(n, 21) for n in names}
                    extra = {f.name: f.sample for f in initvar_req}  # dataclasses.replace requires them
                    before = (set(fields_set(obj)), {n: getattr(obj, n) for n in rf_names})
                    new = replace(obj, **changes, **extra)
                    if (set(fields_set(obj)), {n: getattr(obj, n) for n in rf_names}) != before:
                        fail("replace-mutates", how, given, done, kind, "the replaced object was modified", sorted(fields_set(obj)), sorted(before[0]))
                    if type(new) is not type(obj):
                        fail("replace-class", how, given, done, kind, "wrong class", type(new).__name__, type(obj).__name__)
                    for n in names:
                        if getattr(new, n) != well_typed(n, 21):
                            fail("replace-value", how, given, done, kind, f"field {n} not replaced", getattr(new, n), 21)
                    for f in sh.fields:
                        if f.kind in ("req", "opt", "opt_kw") and f.name not in names and getattr(new, f.name) != before[1][f.name]:
                            fail("replace-value", how, given, done, kind, f"field {f.name} not kept", getattr(new, f.name), before[1][f.name])
                    obj = new
                    model = model | set(names)
                else:
                    raise AssertionError(kind)
            except Exception as e:
                fail("operation", how, given, done, kind, f"raised={type(e).__name__}", repr(e), "no exception")
                return
            model = check(obj, model, how, given, done, kind)
            if model is None:
                return

    subs = subsets(sh, tier)
    # 1. every subset, built each way, no operation and every single operation
    for given in subs:
        for how in ("constructor", "positional", "deserialize") + tuple(f"deserialize:{e}" for e in aliases):
            play(how, given, ())
        for op in alphabet:
            play("constructor", given, (op,))
            play("deserialize", given, (op,))
            for e in aliases:
                play(f"deserialize:{e}", given, (op,))
    # 2. exhaustive sequences from the small initial states and the full one
    req_only = subs[0]
    starts = [s for s in subs if len(s) <= len(req_only) + 1] + [subs[-1]]
    for given in starts:
        for n in range(2, exhaustive_len + 1):
            for seq in itertools.product(alphabet, repeat=n):
                play("deserialize" if (len(given) + n) % 2 else "constructor", given, seq)
    # 3. sampled longer sequences
    for _ in range(n_sampled):
        given = rng.choice(subs)
        seq = tuple(rng.choice(alphabet) for _ in range(sampled_len))
        play(rng.choice(("constructor", "deserialize") + tuple(f"deserialize:{e}" for e in aliases)), given, seq)
