"""C12 -- conversions compose: a converted type behaves as its source / target (B: bounded).

Every case builds a fresh *conversion graph* from opaque classes (class `Op`: holds a tag and
payloads, supported by apischema only through conversions) and source / target types of the
C01 space (drivers/pools.py), places the conversions (registered / dynamic `conversion=` /
`Annotated[..., conversion(...)]` / field metadata / `default_conversion=`), and checks the
commuting squares of the statement through the public API:

    deserialize(C[T], D, placement)  ==  C.map(f, deserialize(C[S], D))      (accepts iff)
    serialize(C[T], V, placement)    ==  serialize(C[U], C.map(g, V))
    *_schema(C[T], placement)        ==  *_schema(C[S or U]) merged with T's own annotations

where C ranges over contexts (bare, list, dict, Optional, tuple, unions, user Collection class
with its own registered conversion, object field, list of objects...).  Which converter is
expected at which position follows the statement's rules (dynamic first then default; dynamic
reaches through containers and unions but not into fields of nested objects; field / annotated
conversions only where declared; registration order; identity bypass; nearest inheritable
serializer in the MRO; deserializers not inherited) -- the converters *tag* their result so that
the converter actually applied is observable.

The S / U side of every square is computed by the same public API on types without any
conversion (OBSERVE AT: "with and without the conversion"), so the oracle is the relation of the
statement, not a re-implementation of conversions.
"""
from __future__ import annotations

import collections.abc as abc
import copy
import dataclasses
import enum
import random
import typing
from typing import Any, Callable, Dict, List, Optional, Tuple

from . import model as M
from . import pools as P
from .model import Ann, AnyT, Coll, Fld, Lit, Mapp, NewT, Obj, Opt, Prim, Tup, Uni, cons

INT, FLOAT, STR, BOOL, NONE = P.INT, P.FLOAT, P.STR, P.BOOL, P.NONE


def short(td) -> str:
    from .union_dispatch import short as s

    return s(td)


# ---------------------------------------------------------------------------------------------
# opaque classes, canonical comparison


class Op:
    """an opaque class: not a dataclass, no annotations -> unsupported without a conversion.
    `tag` names the converter that built it, `payload` is the converted source value;
    `alt` is a second payload (serialization: what a *different* serializer would emit)"""

    def __init__(self, tag, payload, alt=None):
        self.tag, self.payload, self.alt = tag, payload, alt

    def __repr__(self):
        return f"{type(self).__name__}<{self.tag}>({self.payload!r})"

    def __eq__(self, other):
        return type(other) is type(self) and canon(self) == canon(other)

    def __hash__(self):
        return hash(type(self).__name__)


class Rec:
    """a record standing for an object value in expected results (class-name independent)"""

    def __init__(self, logical: str, fields: Dict[str, Any]):
        self.logical, self.fields = logical, fields

    def __repr__(self):
        return f"{self.logical}({', '.join(f'{k}={v!r}' for k, v in self.fields.items())})"


def canon(v) -> Any:
    """structure with runtime classes at every level; dataclasses by their logical name"""
    if isinstance(v, Op):
        return ("Op", getattr(type(v), "_logical", type(v).__name__), v.tag, canon(v.payload))
    if isinstance(v, Rec):
        return ("obj", v.logical, tuple((k, canon(x)) for k, x in sorted(v.fields.items())))
    if dataclasses.is_dataclass(v) and not isinstance(v, type):
        return ("obj", getattr(type(v), "_logical", type(v).__name__), tuple((f.name, canon(getattr(v, f.name))) for f in sorted(dataclasses.fields(v), key=lambda f: f.name)))
    if isinstance(v, tuple) and hasattr(v, "_fields"):
        return ("obj", type(v).__name__, tuple((k, canon(x)) for k, x in sorted(zip(v._fields, v))))
    if isinstance(v, (list, tuple)):
        return (type(v).__name__, tuple(canon(x) for x in v))
    if isinstance(v, (set, frozenset)):
        return (type(v).__name__, tuple(sorted((canon(x) for x in v), key=repr)))
    if isinstance(v, dict):
        return ("dict", tuple((canon(k), canon(x)) for k, x in v.items()))
    if isinstance(v, enum.Enum):
        return ("enum", type(v).__name__, v.name)
    if isinstance(v, float) and v != v:
        return ("float", "nan")
    if hasattr(v, "_items") and isinstance(v, abc.Collection):  # Bag
        return ("obj", getattr(type(v), "_logical", type(v).__name__), (("items", canon(list(v._items))),))
    return (type(v).__name__, v)


def outcome(f, *a, **kw):
    """('ok', value) | ('err', [(loc, msg)]) | ('unsupported', text) | ('crash', text)"""
    from apischema import ValidationError
    from apischema.visitor import Unsupported

    try:
        return ("ok", f(*a, **kw))
    except ValidationError as e:
        try:
            return ("err", sorted(((tuple(x["loc"]), x["err"]) for x in e.errors), key=repr))
        except Exception as e2:
            return ("crash", f"errors not computable: {e2!r}")
    except Unsupported as e:
        return ("unsupported", repr(getattr(e, "type", e))[:80])
    except RecursionError:
        return ("crash", "RecursionError")
    except Exception as e:
        return ("crash", f"{type(e).__name__}: {str(e)[:160]}")


class Lab:
    """fresh classes and converters of one case; `done()` removes the registrations"""

    def __init__(self):
        self.classes: List[type] = []
        self.n = 0

    def opaque(self, name: str, *bases: type) -> type:
        cls = type(name, bases or (Op,), {"_logical": name, "__module__": "verif_conv"})
        self.classes.append(cls)
        return cls

    def track(self, cls: type) -> type:
        self.classes.append(cls)
        return cls

    def conv(self, tag: str, S, T, *, catch: bool = False, bad: Optional[Callable[[Any], bool]] = None, function: bool = False, **kw):
        """deserializer S -> T: s |-> T(tag, s); raises ValueError('bad <tag>') when bad(s)"""
        from apischema.conversions import Conversion, catch_value_error

        def f(s):
            if bad is not None and bad(s):
                raise ValueError(f"bad {tag}")
            return T(tag, s)

        f.__name__ = f.__qualname__ = f"from_{tag}"
        if function and not catch and not kw:
            f.__annotations__ = {"s": S, "return": T}
            return f
        return Conversion(catch_value_error(f) if catch else f, source=S, target=T, **kw)

    def ser(self, tag: str, T, U, *, alt: bool = False, function: bool = False, **kw):
        """serializer T -> U: v |-> v.payload (or v.alt: a second, distinguishable serializer)"""
        from apischema.conversions import Conversion

        def g(v):
            return v.alt if alt else v.payload

        g.__name__ = g.__qualname__ = f"to_{tag}"
        if function and not kw:
            g.__annotations__ = {"v": T, "return": U}
            return g
        return Conversion(g, source=T, target=U, **kw)

    def done(self):
        import apischema
        from apischema.conversions import reset_deserializers, reset_serializer

        for c in self.classes:
            try:
                reset_deserializers(c)
                reset_serializer(c)
            except Exception:
                pass
        self.classes.clear()
        apischema.cache.reset()


# ---------------------------------------------------------------------------------------------
# contexts: C[X] for a type X standing at one or two positions ('x', 'y')


class Ctx:
    name = "?"
    reach = True  # a dynamic conversion given at the top reaches the X positions
    objects = False  # X stands in fields of an object (positions x and y)

    def tp(self, X, lab: Lab, side: str) -> Any:
        raise NotImplementedError

    def data(self, d, good) -> List[Any]:
        """data for C[X] built around a datum d for X (good: a conforming datum for X)"""
        raise NotImplementedError

    def map(self, fns: Dict[str, Callable], v) -> Any:
        raise NotImplementedError

    def build(self, mk: Callable[[int], Any]) -> List[Any]:
        """values of C[X]; mk(i) builds the i-th distinct X value"""
        raise NotImplementedError


class Bare(Ctx):
    name = "X"

    def tp(self, X, lab, side):
        return X

    def data(self, d, good):
        return [d]

    def map(self, fns, v):
        return fns["x"](v)

    def build(self, mk):
        return [mk(0), mk(1)]


class ListOf(Ctx):
    name = "List[X]"

    def tp(self, X, lab, side):
        return typing.List[X]

    def data(self, d, good):
        return [[d], [good, d], []]

    def map(self, fns, v):
        return [fns["x"](e) for e in v]

    def build(self, mk):
        return [[mk(0), mk(1)], []]


class DictOf(Ctx):
    name = "Dict[str,X]"

    def tp(self, X, lab, side):
        return typing.Dict[str, X]

    def data(self, d, good):
        return [{"k": d}, {"k": good, "l": d}]

    def map(self, fns, v):
        return {k: fns["x"](e) for k, e in v.items()}

    def build(self, mk):
        return [{"k": mk(0), "l": mk(1)}]


class OptOf(Ctx):
    name = "Optional[X]"

    def tp(self, X, lab, side):
        return typing.Optional[X]

    def data(self, d, good):
        return [d, None]

    def map(self, fns, v):
        return None if v is None else fns["x"](v)

    def build(self, mk):
        return [mk(0), None]


class TupOf(Ctx):
    name = "Tuple[X,str]"

    def tp(self, X, lab, side):
        return typing.Tuple[X, str]

    def data(self, d, good):
        return [[d, "s"], [d], [d, 1]]

    def map(self, fns, v):
        return (fns["x"](v[0]), v[1])

    def build(self, mk):
        return [(mk(0), "s")]


class VarTupOf(Ctx):
    name = "Tuple[X,...]"

    def tp(self, X, lab, side):
        return typing.Tuple[X, ...]

    def data(self, d, good):
        return [[d, good]]

    def map(self, fns, v):
        return tuple(fns["x"](e) for e in v)

    def build(self, mk):
        return [(mk(0), mk(1))]


@dataclasses.dataclass
class Marker:
    mk__: int


class UnionOf(Ctx):
    """Union[X, Marker] / Union[Marker, X]"""

    def __init__(self, first: bool):
        self.first = first
        self.name = "Union[X,Marker]" if first else "Union[Marker,X]"

    def tp(self, X, lab, side):
        return typing.Union[X, Marker] if self.first else typing.Union[Marker, X]

    def data(self, d, good):
        return [d, {"mk__": 1}]

    def map(self, fns, v):
        return v if isinstance(v, Marker) else fns["x"](v)

    def build(self, mk):
        return [mk(0), Marker(3)]


class NestedOf(Ctx):
    name = "List[Dict[str,Optional[X]]]"

    def tp(self, X, lab, side):
        return typing.List[typing.Dict[str, typing.Optional[X]]]

    def data(self, d, good):
        return [[{"a": d, "b": None}, {}]]

    def map(self, fns, v):
        return [{k: (None if e is None else fns["x"](e)) for k, e in m.items()} for m in v]

    def build(self, mk):
        return [[{"a": mk(0), "b": None}, {"c": mk(1)}]]


_BT = typing.TypeVar("_BT")


class Bag(abc.Collection, typing.Generic[_BT]):
    """a user Collection class (one class for the whole run: every new ABC subclass would be
    scanned by each later issubclass(..., Collection) of apischema)"""

    _logical = "Bag"

    def __init__(self, items):
        self._items = list(items)

    def __contains__(self, x):
        return x in self._items

    def __iter__(self):
        return iter(self._items)

    def __len__(self):
        return len(self._items)


def _bag_items(b):
    return list(b._items)


class BagOf(Ctx):
    """a user Collection class with its own registered (generic) conversions List[T] <-> Bag[T]"""

    name = "Bag[X](Collection) <-> List[X]"

    def tp(self, X, lab, side):
        from apischema.conversions import Conversion, deserializer, serializer
        from apischema.conversions.converters import _deserializers, _serializers

        if Bag not in _serializers:
            deserializer(Conversion(Bag, source=typing.List[_BT], target=Bag[_BT]))
            serializer(Conversion(_bag_items, source=Bag[_BT], target=typing.List[_BT]))
        return Bag[X]

    def data(self, d, good):
        return [[d], [good, d], []]

    def map(self, fns, v):
        return Rec("Bag", {"items": [fns["x"](e) for e in v._items]})

    def build(self, mk):
        return [Bag([mk(0), mk(1)])]

    def to_side(self, v, fns):
        return Bag([fns["x"](e) for e in v._items])


def unregister_bag():
    from apischema.conversions import reset_deserializers, reset_serializer

    reset_deserializers(Bag)
    reset_serializer(Bag)


class HolderOf(Ctx):
    """object with fields x: X, y: Optional[X] = None, n: int = 0 (positions x and y);
    `inner`: x: List[X] instead (a container inside the field); `listed`: List[Holder]"""

    reach = False
    objects = True

    def __init__(self, inner: bool = False, listed: bool = False, field_md: Optional[Callable[[str], Any]] = None):
        self.inner, self.listed = inner, listed
        self.name = ("List[" if listed else "") + "Holder(x: " + ("List[X]" if inner else "X") + ", y: Optional[X])" + ("]" if listed else "")
        self.cls: Dict[str, type] = {}
        self.field_md = field_md  # side -> metadata of field x (field-level placement)

    def tp(self, X, lab, side):
        Xx, Xy = X if isinstance(X, tuple) else (X, X)  # per-position types (schema squares)
        xt = typing.List[Xx] if self.inner else Xx
        md = self.field_md(side) if self.field_md else None
        fx = dataclasses.field(metadata=md) if md is not None else dataclasses.field()
        cls = dataclasses.make_dataclass("Holder" + side, [("x", xt, fx), ("y", typing.Optional[Xy], dataclasses.field(default=None)), ("n", int, dataclasses.field(default=0))])
        cls._logical = "Holder"
        cls.__module__ = "verif_conv"
        lab.track(cls)
        self.cls[side] = cls
        return typing.List[cls] if self.listed else cls

    def data(self, d, good):
        x = [d, good] if self.inner else d
        gx = [good] if self.inner else good
        out = [{"x": x}, {"x": gx, "y": d, "n": 2}, {"x": x, "y": None}, {"y": good}]
        return [[o] for o in out] if self.listed else out

    def _map1(self, fns, h):
        x = [fns["x"](e) for e in h.x] if self.inner else fns["x"](h.x)
        return Rec("Holder", {"x": x, "y": None if h.y is None else fns["y"](h.y), "n": h.n})

    def map(self, fns, v):
        return [self._map1(fns, h) for h in v] if self.listed else self._map1(fns, v)

    def build(self, mk):
        H = self.cls["T"]
        vals = [H(x=[mk(0), mk(1)] if self.inner else mk(0), y=mk(1), n=2), H(x=[] if self.inner else mk(1))]
        return [[v] for v in vals] if self.listed else vals

    def to_side(self, v, fns):
        H = self.cls["S"]

        def one(h):
            return H(x=[fns["x"](e) for e in h.x] if self.inner else fns["x"](h.x), y=None if h.y is None else fns["y"](h.y), n=h.n)

        return [one(h) for h in v] if self.listed else one(v)


def to_side(ctx: Ctx, v, fns):
    """the C[U] value corresponding to a C[T] value (serialization squares)"""
    if hasattr(ctx, "to_side"):
        return ctx.to_side(v, fns)
    return ctx.map(fns, v)


def contexts(tier: str) -> List[Callable[[], Ctx]]:
    cs: List[Callable[[], Ctx]] = [Bare, ListOf, DictOf, OptOf, TupOf, lambda: UnionOf(True), lambda: UnionOf(False), BagOf, HolderOf, lambda: HolderOf(listed=True), lambda: HolderOf(inner=True)]
    if tier == "thorough":
        cs += [VarTupOf, NestedOf]
    return cs


# ---------------------------------------------------------------------------------------------
# source / target types


def source_pool(tier: str) -> List[Any]:
    if tier == "thorough":
        extra = [t for t in P.type_pool("quick") if not isinstance(t, (M.Disc,)) and not (isinstance(t, Coll) and isinstance(t.t, M.Disc)) and not (isinstance(t, Opt) and isinstance(t.t, M.Disc))]
        return source_pool("quick") + [t for i, t in enumerate(extra) if i % 3 == 0 and t not in source_pool("quick")]
    return [
        INT,
        FLOAT,
        STR,
        BOOL,
        Opt(INT),
        Coll("list", INT),
        Coll("set", STR),
        Tup((INT, STR)),
        Mapp(STR, INT),
        Lit(("a", "b")),
        P.COLOR,
        P.A,
        P.E,
        P.TD1,
        P.NT,
        P.NODE,
        Uni((INT, STR)),
        Uni((P.A, P.B)),
        Ann(INT, cons(min=0, max=10)),
        Ann(STR, cons(min_len=1, max_len=2)),
        Coll("list", P.A),
        P.POS,
        AnyT(),
    ]


class Types:
    """the realised source types (one Realm for the whole run)"""

    def __init__(self, tag: str):
        self.realm = M.Realm(tag)
        M.install_typing(self.realm)
        for o in P.OBJECTS + [P.PQ_Q, P.A2, P.CAT, P.DOG, P.BIRD, P.FISH]:
            M.realize(o, self.realm)

    def real(self, td):
        return M.realize(td, self.realm)

    def dispose(self):
        self.realm.dispose()


def data_for(td, tier: str, rng: random.Random) -> Tuple[List[Any], Any]:
    pool = P.data_pool(td, tier, rng)
    good = P.valid_samples(td)
    n = 16 if tier == "quick" else 40
    # valid samples first, then mutants / atoms / random values
    return pool[:n], copy.deepcopy(good[0])


# ---------------------------------------------------------------------------------------------
# driver A: commuting squares for every placement x context

DESER_PLACEMENTS = ["registered", "registered_fn", "dynamic", "dynamic_over_registered", "annotated", "default_conversion", "field"]


def _default_with(extra: Dict[type, Any], base):
    def default(tp):
        if tp in extra:
            return extra[tp]
        return base(tp)

    return default


def run_squares_deser(report, tier: str, seed: int):
    import apischema
    from apischema import deserialize
    from apischema.conversions import deserializer
    from apischema.conversions.converters import default_deserialization
    from apischema.metadata import conversion as conv_md
    from apischema.typing import Annotated

    rng = random.Random(seed)
    types = Types("c12a")
    srcs = source_pool(tier)
    ctxs = contexts(tier)
    log = report.driver(
        "conv_square_deser",
        bound=f"{len(srcs)} source types x placements {DESER_PLACEMENTS} x {len(ctxs)} contexts (bare, list, dict, Optional, tuple, unions in both orders, user Collection class with its own registered conversion, object fields x / y, list of objects, list inside a field) x per-source data (<= {16 if tier == 'quick' else 40} of valid samples / mutants / atoms / random)",
    )
    log.rule("case = (source type S, placement, context C, datum D): deserialize(C[T], D, placement) accepts iff deserialize(C[S], D) accepts and equals C.map(f, .) with, at every position, the converter the statement's rules select (tags): dynamic reaches through containers / unions / registered container conversions but not into object fields (there: the registered f0, or Unsupported when none), annotated / field conversions only where declared, default_conversion everywhere; non-trivial when the S side accepts or D is a container")

    for td in srcs:
        S = types.real(td)
        data, good = data_for(td, tier, rng)
        for placement in DESER_PLACEMENTS:
            for mk_ctx in ctxs:
                lab = Lab()
                try:
                    T = lab.opaque("OpT")
                    f = lab.conv("f", S, T, function=(placement == "registered_fn"))
                    f0 = lab.conv("f0", S, T)
                    kw: Dict[str, Any] = {}
                    X: Any = T
                    tags = {"x": "f", "y": "f"}
                    expect_unsupported = False
                    if placement in ("registered", "registered_fn"):
                        ctx = mk_ctx()
                        deserializer(f)
                    elif placement == "dynamic":
                        ctx = mk_ctx()
                        kw["conversion"] = f
                        expect_unsupported = not ctx.reach
                    elif placement == "dynamic_over_registered":
                        ctx = mk_ctx()
                        deserializer(f0)
                        kw["conversion"] = f
                        if not ctx.reach:
                            tags = {"x": "f0", "y": "f0"}
                    elif placement == "annotated":
                        ctx = mk_ctx()
                        deserializer(f0)
                        X = Annotated[T, conv_md(deserialization=f)]
                    elif placement == "default_conversion":
                        ctx = mk_ctx()
                        deserializer(f0)
                        kw["default_conversion"] = _default_with({T: f}, default_deserialization)
                    elif placement == "field":
                        ctx = mk_ctx()
                        if not ctx.objects:
                            continue
                        deserializer(f0)
                        ctx = type(ctx)(inner=ctx.inner, listed=ctx.listed, field_md=lambda side: conv_md(deserialization=f) if side == "T" else None)
                        tags = {"x": "f", "y": "f0"}
                    if placement == "field" and ctx.inner:
                        # the conversion metadata of a field applies to the field's type: a
                        # conversion targeting T reaches the elements of List[T] (container rule)
                        pass
                    CT = ctx.tp(X, lab, "T")
                    CS = ctx.tp(S, lab, "S")
                    fns = {p: (lambda s, t=t: T(t, s)) for p, t in tags.items()}
                    for d in data:
                        for D in ctx.data(d, good):
                            got = outcome(deserialize, CT, copy.deepcopy(D), **kw)
                            ref = outcome(deserialize, CS, copy.deepcopy(D))
                            nontrivial = ref[0] == "ok" or isinstance(D, (list, dict))
                            log.case((short(td), placement, ctx.name, repr(D)), nontrivial, sample={"source": short(td), "placement": placement, "context": ctx.name, "datum": D} if nontrivial else None)
                            if ref[0] == "crash":
                                continue  # a defect of the source type itself (other properties)
                            if expect_unsupported:
                                exp: Tuple[str, Any] = ("unsupported", None)
                            elif ref[0] == "ok":
                                exp = ("ok", ctx.map(fns, ref[1]))
                            else:
                                exp = ("err", None)
                            ok = got[0] == exp[0] and (got[0] != "ok" or canon(got[1]) == canon(exp[1]))
                            if not ok:
                                kind = "deser-accept" if got[0] != exp[0] else "deser-value"
                                log.fail(
                                    f"{kind}:{short(td)}:{placement}:{ctx.name}:{D!r}",
                                    f"{kind}: deserialize({ctx.name} with X = T <- {short(td)}, {D!r}, {placement}) -> {str(got)[:200]}; the square with deserialize({ctx.name}[S], D) = {str(ref)[:120]} and the rules of the statement give {str(exp)[:200]}",
                                    {"source": short(td), "placement": placement, "context": ctx.name, "datum": repr(D)},
                                    observed=repr(got)[:500],
                                    expected=repr(exp)[:500],
                                    functions_involved=["ConversionMethod", "ConversionsVisitor", "DeserializationVisitor"],
                                )
                finally:
                    lab.done()
    types.dispose()


SER_PLACEMENTS = ["registered", "registered_fn", "dynamic", "dynamic_over_registered", "annotated", "default_conversion", "field"]


def target_values(types: Types, td, tier: str) -> List[Any]:
    """values of the target type U: images of conforming data (reference semantics)"""
    out = []
    for d in P.valid_samples(td)[: (4 if tier == "quick" else 8)]:
        r = M.ref_deserialize(td, copy.deepcopy(d), types.realm, M.Opts())
        if r[0] == "ok":
            out.append(r[1])
    return out


def run_squares_ser(report, tier: str, seed: int):
    from apischema import serialize
    from apischema.conversions import serializer
    from apischema.conversions.converters import default_serialization
    from apischema.metadata import conversion as conv_md
    from apischema.typing import Annotated

    types = Types("c12s")
    tgts = [t for t in source_pool(tier) if not (isinstance(t, Coll) and t.kind in ("set", "frozenset", "abstractset"))]
    ctxs = contexts(tier)
    log = report.driver(
        "conv_square_ser",
        bound=f"{len(tgts)} target types x placements {SER_PLACEMENTS} x {len(ctxs)} contexts x values built from <= {4 if tier == 'quick' else 8} reference images per target type (two distinct payloads per opaque value: one per serializer)",
    )
    log.rule("case = (target type U, placement, context C, value V of C[T]): serialize(C[T], V, placement) == serialize(C[U], C.map(g, V)) where at every position g is the serializer the statement's rules select (g emits the first payload, the registered g0 the second one); dynamic serializers reach through containers / unions but not into object fields")
    for td in tgts:
        U = types.real(td)
        vals = target_values(types, td, tier)
        if not vals:
            continue
        for placement in SER_PLACEMENTS:
            for mk_ctx in ctxs:
                lab = Lab()
                try:
                    T = lab.opaque("OpT")
                    g = lab.ser("g", T, U, function=(placement == "registered_fn"))
                    g0 = lab.ser("g0", T, U, alt=True)
                    kw: Dict[str, Any] = {}
                    X: Any = T
                    sel = {"x": "g", "y": "g"}
                    expect_unsupported = False
                    ctx = mk_ctx()
                    if placement in ("registered", "registered_fn"):
                        serializer(g)
                    elif placement == "dynamic":
                        kw["conversion"] = g
                        expect_unsupported = not ctx.reach
                    elif placement == "dynamic_over_registered":
                        serializer(g0)
                        kw["conversion"] = g
                        if not ctx.reach:
                            sel = {"x": "g0", "y": "g0"}
                    elif placement == "annotated":
                        serializer(g0)
                        X = Annotated[T, conv_md(serialization=g)]
                    elif placement == "default_conversion":
                        serializer(g0)
                        kw["default_conversion"] = _default_with({T: g}, default_serialization)
                    elif placement == "field":
                        if not ctx.objects:
                            continue
                        serializer(g0)
                        ctx = type(ctx)(inner=ctx.inner, listed=ctx.listed, field_md=lambda side: conv_md(serialization=g) if side == "T" else None)
                        sel = {"x": "g", "y": "g0"}
                    CT = ctx.tp(X, lab, "T")
                    CU = ctx.tp(U, lab, "S")
                    fns = {p: ((lambda v: v.payload) if s == "g" else (lambda v: v.alt)) for p, s in sel.items()}

                    def mk(i):
                        return T("v", vals[i % len(vals)], vals[(i + 1) % len(vals)])

                    for V in ctx.build(mk):
                        got = outcome(serialize, CT, V, **kw)
                        ref = outcome(serialize, CU, to_side(ctx, V, fns))
                        log.case((short(td), placement, ctx.name, repr(V)), True, sample={"target": short(td), "placement": placement, "context": ctx.name, "value": repr(V)})
                        if ref[0] != "ok":
                            continue
                        exp = ("unsupported", None) if expect_unsupported else ref
                        ok = got[0] == exp[0] and (got[0] != "ok" or canon(got[1]) == canon(exp[1]))
                        if not ok:
                            log.fail(
                                f"ser-square:{short(td)}:{placement}:{ctx.name}:{V!r}",
                                f"serialize({ctx.name} with X = T -> {short(td)}, {V!r}, {placement}) -> {str(got)[:200]}; serialize(C[U], C.map(g, V)) with the serializers selected by the statement's rules gives {str(exp)[:200]}",
                                {"target": short(td), "placement": placement, "context": ctx.name, "value": repr(V)},
                                observed=repr(got)[:500],
                                expected=repr(exp)[:500],
                                functions_involved=["ConversionMethod", "ConversionsVisitor", "SerializationVisitor"],
                            )
                finally:
                    lab.done()
    types.dispose()


# ---------------------------------------------------------------------------------------------
# driver B: rules -- order of several deserializers, catch_value_error, chains, identity bypass,
# sub-conversions, LSP, generic conversions, lazy / recursive conversions, no inheritance of
# deserializers


class Checker:
    """shared reporting of the rule scenarios"""

    def __init__(self, log, family: str):
        self.log, self.family = log, family

    def check(self, scenario: str, case: str, got, exp, nontrivial=True, involved=("ConversionMethod",)):
        """got / exp: outcomes ('ok', v) | ('err', ..) | ('unsupported', ..) | ('crash', text)"""
        self.log.case((self.family, scenario, case), nontrivial, sample={"scenario": scenario, "case": case})
        same = got[0] == exp[0]
        if same and got[0] == "ok":
            same = canon(got[1]) == canon(exp[1])
        elif same and got[0] == "crash" and exp[1] is not None:
            same = str(got[1]).startswith(str(exp[1]))
        elif same and got[0] == "err" and exp[1] is not None:
            same = got[1] == exp[1]
        if not same:
            self.log.fail(
                f"{self.family}:{scenario}:{case}",
                f"{self.family} / {scenario}: {case}: observed {str(got)[:220]}, the statement gives {str(exp)[:220]}",
                {"scenario": scenario, "case": case},
                observed=repr(got)[:500],
                expected=repr(exp)[:500],
                functions_involved=list(involved),
            )
        return same


def run_rules_deser(report, tier: str, seed: int):
    import apischema
    from apischema import deserialize, identity
    from apischema.conversions import Conversion, LazyConversion, deserializer
    from apischema.metadata import conversion as conv_md

    rng = random.Random(seed + 7)
    types = Types("c12b")
    R = types.real
    log = report.driver(
        "conv_rules_deser",
        bound="scenario families {several deserializers: 14 source lists x registered / dynamic tuple / lazy x bare / list; catch_value_error x 3 placements; chains of 2-3 conversions x registered / dynamic / mixed; identity bypass (both forms) x 6 contexts; sub-conversions; LSP; generic conversions x 10 arguments; lazy registered and recursive conversions; deserializers not inherited} x the data pools of the source types",
    )
    log.rule("case = (scenario, parameters, datum); the expected outcome is computed from the real deserializers of the *source* types and the rule of the statement that the scenario exercises (first accepting deserializer in registration order, ValueError -> ValidationError only for catch_value_error converters, composition of chains, identity = as without registered conversion, sub-conversion only inside its conversion, deserializer target may be a subclass of the requested type, not inherited by subclasses)")
    ck = Checker(log, "deser-rule")

    def pool(td, n=14):
        return data_for(td, tier, rng)[0][: (n if tier == "quick" else 4 * n)]

    # -- B1: several deserializers, tried in registration order ------------------------------
    neg = lambda s: isinstance(s, (int, float)) and not isinstance(s, bool) and s < 0  # noqa: E731
    empty = lambda s: hasattr(s, "__len__") and len(s) == 0  # noqa: E731
    src_lists = [
        [(INT, None, False), (FLOAT, None, False)],
        [(FLOAT, None, False), (INT, None, False)],
        [(Ann(INT, cons(min=0)), None, False), (INT, None, False)],
        [(INT, None, False), (INT, None, False)],
        [(STR, None, False), (Lit(("a", "b")), None, False)],
        [(Lit(("a", "b")), None, False), (STR, None, False)],
        [(Coll("list", INT), None, False), (Tup((INT, INT)), None, False)],
        [(Tup((INT, INT)), None, False), (Coll("list", INT), None, False)],
        [(P.A, None, False), (Mapp(STR, INT), None, False)],
        [(INT, None, False), (STR, None, False), (Coll("list", INT), None, False)],
        [(INT, neg, True), (FLOAT, None, False)],  # first raises ValueError (caught) on negatives
        [(INT, neg, True), (INT, None, False), (STR, empty, True)],
        [(STR, empty, True), (STR, None, False)],
        [(INT, neg, False), (FLOAT, None, False)],  # ValueError NOT caught: escapes
    ]
    if tier == "thorough":
        src_lists += [[(a, None, False), (b, None, False)] for a in (INT, STR, Coll("list", INT), P.A, P.B, Opt(INT)) for b in (FLOAT, Lit(("a",)), Mapp(STR, INT), P.NT, Coll("list", STR)) if a != b]
    for srcs in src_lists:
        name = "+".join(short(t) + ("!" if bad and catch else "!!" if bad else "") for t, bad, catch in srcs)
        data = []
        for t, _, _ in srcs:
            for d in pool(t, 10):
                if d not in data:
                    data.append(d)
        data += [-1, -2.5, "", [1, 2]]
        for mode in ("registered", "dynamic_tuple", "lazy_registered", "in_list"):
            lab = Lab()
            try:
                T = lab.opaque("OpT")
                convs = [lab.conv(f"f{i}", R(t), T, bad=bad, catch=catch) for i, (t, bad, catch) in enumerate(srcs)]
                kw = {}
                TT: Any = T
                if mode in ("registered", "in_list"):
                    for c in convs:
                        deserializer(c)
                elif mode == "lazy_registered":
                    for c in convs:
                        deserializer(lazy=(lambda c=c: c), target=T)
                else:
                    kw["conversion"] = tuple(convs)
                if mode == "in_list":
                    TT = typing.List[T]
                for d in data:
                    # oracle: first source that accepts and whose converter does not reject
                    exp: Tuple[str, Any] = ("err", None)
                    for i, (t, bad, catch) in enumerate(srcs):
                        r = outcome(deserialize, R(t), copy.deepcopy(d))
                        if r[0] == "crash":
                            exp = ("skip", None)
                            break
                        if r[0] != "ok":
                            continue
                        if bad is not None and bad(r[1]):
                            if catch:
                                continue
                            exp = ("crash", "ValueError")
                            break
                        exp = ("ok", T(f"f{i}", r[1]))
                        break
                    if exp[0] == "skip":
                        continue
                    if mode == "in_list":
                        got = outcome(deserialize, TT, [copy.deepcopy(d)], **kw)
                        if exp[0] == "ok":
                            exp = ("ok", [exp[1]])
                    else:
                        got = outcome(deserialize, TT, copy.deepcopy(d), **kw)
                    ck.check("several-deserializers", f"{name}:{mode}:{d!r}", got, exp, involved=("ConversionUnionMethod", "ConversionMethod", "_add_deserializer"))
            finally:
                lab.done()

    # -- B2: catch_value_error ----------------------------------------------------------------
    for mode in ("registered", "dynamic", "field"):
        for catch in (True, False):
            lab = Lab()
            try:
                T = lab.opaque("OpT")
                c = lab.conv("f", int, T, bad=neg, catch=catch)
                kw = {}
                if mode == "registered":
                    deserializer(c)
                elif mode == "dynamic":
                    kw["conversion"] = c
                if mode == "field":
                    H = dataclasses.make_dataclass("H", [("x", T, dataclasses.field(metadata=conv_md(deserialization=c)))])
                    H._logical = "H"
                for d in [3, 0, -1, -7, "a", None, 2.5, True]:
                    r = outcome(deserialize, int, d)
                    for wrap in ("bare", "list"):
                        if mode == "field":
                            tp, D = (H, {"x": d}) if wrap == "bare" else (typing.List[H], [{"x": 1}, {"x": d}])
                            mkv = (lambda v: Rec("H", {"x": v})) if wrap == "bare" else (lambda v: [Rec("H", {"x": T("f", 1)}), Rec("H", {"x": v})])
                            loc = ("x",) if wrap == "bare" else (1, "x")
                        else:
                            tp, D = (T, d) if wrap == "bare" else (typing.List[T], [1, d])
                            mkv = (lambda v: v) if wrap == "bare" else (lambda v: [T("f", 1), v])
                            loc = () if wrap == "bare" else (1,)
                        if r[0] != "ok":
                            exp = ("err", None)
                        elif neg(r[1]):
                            exp = ("err", [(loc, "bad f")]) if catch else ("crash", "ValueError")
                        else:
                            exp = ("ok", mkv(T("f", r[1])))
                        got = outcome(deserialize, tp, copy.deepcopy(D), **kw)
                        ck.check("catch_value_error", f"{mode}:catch={catch}:{wrap}:{d!r}", got, exp, involved=("ConversionWithValueErrorMethod", "ConversionMethod", "ValueErrorCatcher"))
            finally:
                lab.done()

    # -- B2b: documented helpers built on conversions: as_str, as_names -----------------------------
    lab = Lab()
    try:
        from apischema import serialize
        from apischema.conversions import as_names, as_str

        class Code(Op):
            _logical = "Code"

            def __init__(self, text):
                if not isinstance(text, str) or not text.isalpha():
                    raise ValueError(f"not a code: {text}")
                super().__init__("ctor", text)

            def __str__(self):
                return self.payload

        lab.track(as_str(Code))
        for d in ["abc", "a1", "", 3, None, ["abc"]]:
            if type(d) is not str:
                exp = ("err", None)
            elif not d.isalpha():
                exp = ("err", [((), f"not a code: {d}")])
            else:
                exp = ("ok", Code(d))
            ck.check("as_str", f"deserialize(Code, {d!r})", outcome(deserialize, Code, d), exp, involved=("ConversionWithValueErrorMethod", "as_str"))
            exp_l = ("ok", [exp[1]]) if exp[0] == "ok" else ("err", [((0,) + loc, m) for loc, m in exp[1]] if exp[1] else None)
            ck.check("as_str", f"deserialize(List[Code], [{d!r}])", outcome(deserialize, typing.List[Code], [d]), exp_l, involved=("ConversionWithValueErrorMethod", "as_str"))
        ck.check("as_str", "serialize(Code, Code('xyz'))", outcome(serialize, Code, Code("xyz")), ("ok", "xyz"))
        ck.check("as_str", "serialize(Dict[str, Code])", outcome(serialize, typing.Dict[str, Code], {"k": Code("xyz")}), ("ok", {"k": "xyz"}))

        class Level(enum.Enum):
            LOW = 1
            HIGH = 2

        lab.track(as_names(Level))
        for d in ["LOW", "HIGH", "low", 1, 2, None]:
            exp = ("ok", Level[d]) if isinstance(d, str) and d in Level.__members__ else ("err", None)
            ck.check("as_names", f"deserialize(Level, {d!r})", outcome(deserialize, Level, d), exp, involved=("ConversionMethod", "as_names"))
        # (the members of the generated str-Enum of names are str instances: compared as JSON text)
        import json

        as_json = lambda *a: json.loads(json.dumps(serialize(*a)))  # noqa: E731
        ck.check("as_names", "serialize(Level, Level.HIGH)", outcome(as_json, Level, Level.HIGH), ("ok", "HIGH"))
        ck.check("as_names", "serialize(List[Level])", outcome(as_json, typing.List[Level], [Level.LOW, Level.HIGH]), ("ok", ["LOW", "HIGH"]))
    finally:
        lab.done()

    # -- B3: chains ------------------------------------------------------------------------------
    chain_srcs = [INT, STR, Coll("list", INT), P.A, Uni((INT, STR)), Opt(INT)] + ([P.E, P.NODE, Tup((INT, STR)), Mapp(STR, INT)] if tier == "thorough" else [])
    for td in chain_srcs:
        S = R(td)
        for length in (2, 3):
            for mode in ("registered", "dynamic", "mixed", "sub_conversion"):
                lab = Lab()
                try:
                    Ts = [lab.opaque(f"Op{i}") for i in range(length)]
                    convs = [lab.conv(f"c{i}", S if i == 0 else Ts[i - 1], Ts[i]) for i in range(length)]
                    kw = {}
                    applies = True
                    if mode == "registered":
                        for c in convs:
                            deserializer(c)
                    elif mode == "dynamic":
                        # a dynamic conversion is discarded once applied: only the last link is
                        # found, its source T(n-2) then has no conversion at all
                        kw["conversion"] = tuple(convs)
                        applies = False
                    elif mode == "mixed":
                        for c in convs[:-1]:
                            deserializer(c)
                        kw["conversion"] = convs[-1]
                    else:
                        # each link carries the previous one as its sub-conversion
                        sub = None
                        for i in range(length):
                            sub = Conversion(convs[i].converter, source=convs[i].source, target=convs[i].target, sub_conversion=sub)
                        kw["conversion"] = sub
                    for d in pool(td, 10):
                        r = outcome(deserialize, S, copy.deepcopy(d))
                        if r[0] == "crash":
                            continue
                        if not applies:
                            exp = ("unsupported", None)
                        elif r[0] == "ok":
                            v = r[1]
                            for i in range(length):
                                v = Ts[i](f"c{i}", v)
                            exp = ("ok", v)
                        else:
                            exp = ("err", None)
                        got = outcome(deserialize, Ts[-1], copy.deepcopy(d), **kw)
                        ck.check("chain", f"{short(td)}:len={length}:{mode}:{d!r}", got, exp)
                finally:
                    lab.done()

    # -- B4: identity bypasses a registered conversion ------------------------------------------
    for form in ("identity", "expanded"):
        for ctxname in ("bare", "list", "optional", "dict", "tuple", "union", "field"):
            if form == "identity" and ctxname in ("list", "dict", "tuple"):
                # the bare generic `identity` applies to (and is consumed by) the container type
                # itself; the documentation prescribes the expanded form for members: left open
                continue
            lab = Lab()
            try:
                # a dataclass with a registered deserializer from int; before the registration its
                # own deserialization (as an object) is recorded: that is what identity must give
                D1 = lab.track(dataclasses.make_dataclass("D1", [("a", int), ("b", str, dataclasses.field(default="x"))]))
                D1._logical = "D1"
                other = lab.opaque("OpO")
                tp = {"bare": D1, "list": typing.List[D1], "optional": typing.Optional[D1], "dict": typing.Dict[str, D1], "tuple": typing.Tuple[D1, int], "union": typing.Union[int, D1]}.get(ctxname)
                if ctxname == "field":
                    tp = lab.track(dataclasses.make_dataclass("HD", [("x", D1, dataclasses.field(metadata=conv_md(deserialization=identity if form == "identity" else Conversion(identity, source=D1, target=D1))))]))
                    tp._logical = "HD"
                objs = [{"a": 1}, {"a": 2, "b": "y"}, {"a": "bad"}, {}, 5, "s", None, {"a": 1, "zz": 0}]
                wrap = {"bare": lambda o: o, "list": lambda o: [o, {"a": 0}], "optional": lambda o: o, "dict": lambda o: {"k": o}, "tuple": lambda o: [o, 3], "union": lambda o: o, "field": lambda o: {"x": o}}[ctxname]
                data = [wrap(o) for o in objs]
                base = [outcome(deserialize, tp, copy.deepcopy(D)) for D in data]
                deserializer(Conversion(lambda i: D1(i, "from_int"), source=int, target=D1))
                deserializer(lab.conv("fo", int, other))
                kw = {}
                if ctxname != "field":
                    kw["conversion"] = identity if form == "identity" else Conversion(identity, source=D1, target=D1)
                for D, b in zip(data, base):
                    got = outcome(deserialize, tp, copy.deepcopy(D), **kw)
                    exp = b if b[0] != "err" else ("err", None)
                    ck.check("identity-bypass", f"{form}:{ctxname}:{D!r}", got, exp, involved=("DeserializationVisitor._has_conversion", "is_identity"))
                # the registered conversion is still what applies without the bypass
                if ctxname == "bare":
                    ck.check("identity-bypass", f"{form}:registered-still-applies:7", outcome(deserialize, D1, 7), ("ok", D1(7, "from_int")))
            finally:
                lab.done()

    # -- B5: sub-conversions apply only inside their conversion ---------------------------------
    for td in [INT, STR, P.A] + ([Coll("list", INT), Opt(INT), Uni((INT, STR))] if tier == "thorough" else []):
        S = R(td)
        lab = Lab()
        try:
            T1, T2 = lab.opaque("Op1"), lab.opaque("Op2")
            inner = lab.conv("in", S, T1)
            reg = lab.conv("reg", S, T1)
            outer = lab.conv("out", typing.List[T1], T2, sub_conversion=inner)
            outer_nosub = lab.conv("out", typing.List[T1], T2)
            deserializer(reg)
            good = data_for(td, tier, rng)[1]
            for d in pool(td, 8):
                r = outcome(deserialize, S, copy.deepcopy(d))
                if r[0] == "crash":
                    continue
                okv = r[0] == "ok"
                # (a) inside the conversion: the sub-conversion, not the registered one
                got = outcome(deserialize, T2, [copy.deepcopy(d), copy.deepcopy(good)], conversion=outer)
                g = outcome(deserialize, S, copy.deepcopy(good))[1]
                exp = ("ok", T2("out", [T1("in", r[1]), T1("in", g)])) if okv else ("err", None)
                ck.check("sub-conversion", f"{short(td)}:inside:{d!r}", got, exp)
                # (b) without sub-conversion: the registered one
                got = outcome(deserialize, T2, [copy.deepcopy(d)], conversion=outer_nosub)
                exp = ("ok", T2("out", [T1("reg", r[1])])) if okv else ("err", None)
                ck.check("sub-conversion", f"{short(td)}:none:{d!r}", got, exp)
                # (c) next to the conversion (tuple member): T1 outside T2 is not concerned
                got = outcome(deserialize, typing.Tuple[T2, T1], [[copy.deepcopy(d)], copy.deepcopy(d)], conversion=outer)
                exp = ("ok", (T2("out", [T1("in", r[1])]), T1("reg", r[1]))) if okv else ("err", None)
                ck.check("sub-conversion", f"{short(td)}:beside:{d!r}", got, exp)
                # (d) registered conversion with a sub-conversion, used inside a field
                lab2 = Lab()
                try:
                    T3 = lab2.opaque("Op3")
                    deserializer(lab2.conv("out3", typing.Dict[str, T1], T3, sub_conversion=inner))
                    H = dataclasses.make_dataclass("H3", [("p", T3), ("q", T1)])
                    H._logical = "H3"
                    got = outcome(deserialize, H, {"p": {"k": copy.deepcopy(d)}, "q": copy.deepcopy(d)})
                    exp = ("ok", Rec("H3", {"p": T3("out3", {"k": T1("in", r[1])}), "q": T1("reg", r[1])})) if okv else ("err", None)
                    ck.check("sub-conversion", f"{short(td)}:registered-in-field:{d!r}", got, exp)
                finally:
                    lab2.done()
        finally:
            lab.done()

    # -- B6: LSP for dynamic deserializers; deserializers are not inherited ----------------------
    lab = Lab()
    try:
        Base = lab.opaque("Base")
        Sub = lab.opaque("Sub", Base)
        SubSub = lab.opaque("SubSub", Sub)
        Other = lab.opaque("Other")
        to_sub = lab.conv("sub", int, Sub)
        to_base = lab.conv("base", int, Base)
        to_other = lab.conv("other", int, Other)
        for d in (1, "a", None):
            ok = type(d) is int
            # a deserializer of a subclass is acceptable where the base class is requested
            ck.check("lsp", f"deserialize(Base, {d!r}, conversion=int->Sub)", outcome(deserialize, Base, d, conversion=to_sub), ("ok", Sub("sub", d)) if ok else ("err", None))
            ck.check("lsp", f"deserialize(List[Base], [{d!r}], conversion=int->Sub)", outcome(deserialize, typing.List[Base], [d], conversion=to_sub), ("ok", [Sub("sub", d)]) if ok else ("err", None))
            # ... but not the converse, nor an unrelated class
            ck.check("lsp", f"deserialize(Sub, {d!r}, conversion=int->Base)", outcome(deserialize, Sub, d, conversion=to_base), ("unsupported", None))
            ck.check("lsp", f"deserialize(Base, {d!r}, conversion=int->Other)", outcome(deserialize, Base, d, conversion=to_other), ("unsupported", None))
            ck.check("lsp", f"deserialize(Base, {d!r}, conversion=(int->Other, int->Sub))", outcome(deserialize, Base, d, conversion=(to_other, to_sub)), ("ok", Sub("sub", d)) if ok else ("err", None))
        # registered deserializers: exact class only
        deserializer(to_base)
        for d in (1, "a"):
            ok = type(d) is int
            ck.check("not-inherited", f"deserialize(Base, {d!r}) registered int->Base", outcome(deserialize, Base, d), ("ok", Base("base", d)) if ok else ("err", None))
            ck.check("not-inherited", f"deserialize(Sub, {d!r}) registered int->Base only", outcome(deserialize, Sub, d), ("unsupported", None))
            ck.check("not-inherited", f"deserialize(SubSub, {d!r}) registered int->Base only", outcome(deserialize, SubSub, d), ("unsupported", None))
        deserializer(lab.conv("subsub", str, SubSub))
        ck.check("not-inherited", "deserialize(SubSub, 'a') registered str->SubSub", outcome(deserialize, SubSub, "a"), ("ok", SubSub("subsub", "a")))
        ck.check("not-inherited", "deserialize(Sub, 'a') registered on Base and SubSub only", outcome(deserialize, Sub, "a"), ("unsupported", None))
        ck.check("not-inherited", "deserialize(Base, 'a') registered int->Base, str->SubSub", outcome(deserialize, Base, "a"), ("err", None))
    finally:
        lab.done()

    # -- B7: generic conversions -----------------------------------------------------------------
    TV = typing.TypeVar("TV")
    KV = typing.TypeVar("KV")
    gen_args = [INT, STR, Coll("list", INT), P.A, Opt(INT), Uni((INT, STR)), Ann(INT, cons(min=0)), P.COLOR, Tup((INT, STR)), Mapp(STR, INT)] + ([P.E, P.NODE, P.TD1, P.NT, Lit(("a", "b")), FLOAT] if tier == "thorough" else [])
    for td in gen_args:
        S = R(td)
        for mode in ("registered", "dynamic", "dynamic_list_source", "dynamic_partial"):
            lab = Lab()
            try:

                class Wrapper(typing.Generic[TV], Op):
                    _logical = "Wrapper"

                lab.track(Wrapper)
                kw = {}
                if mode == "registered":
                    deserializer(Conversion(lambda s: Wrapper("w", s), source=TV, target=Wrapper[TV]))
                    src_of = lambda s: s  # noqa: E731
                    data = pool(td, 10)
                elif mode == "dynamic":
                    kw["conversion"] = Conversion(lambda s: Wrapper("w", s), source=TV, target=Wrapper[TV])
                    src_of = lambda s: s  # noqa: E731
                    data = pool(td, 10)
                elif mode == "dynamic_list_source":
                    kw["conversion"] = Conversion(lambda s: Wrapper("w", s), source=typing.List[TV], target=Wrapper[TV])
                    data = [[d] for d in pool(td, 8)] + [[], 1]
                else:
                    # partially specialised generic: Dict[str, TV] -> Wrapper[TV]
                    kw["conversion"] = Conversion(lambda s: Wrapper("w", s), source=typing.Dict[str, TV], target=Wrapper[TV])
                    data = [{"k": d} for d in pool(td, 8)] + [{}, {1: 2}, []]
                SS = {"registered": S, "dynamic": S, "dynamic_list_source": typing.List[S], "dynamic_partial": typing.Dict[str, S]}[mode]
                for d in data:
                    r = outcome(deserialize, SS, copy.deepcopy(d))
                    if r[0] == "crash":
                        continue
                    got = outcome(deserialize, Wrapper[S], copy.deepcopy(d), **kw)
                    exp = ("ok", Wrapper("w", r[1])) if r[0] == "ok" else ("err", None)
                    ck.check("generic", f"Wrapper[{short(td)}]:{mode}:{d!r}", got, exp, involved=("DeserializationVisitor._has_conversion", "subtyping_substitution"))
                    if mode == "registered":
                        got = outcome(deserialize, typing.List[Wrapper[S]], [copy.deepcopy(d)], **kw)
                        exp = ("ok", [Wrapper("w", r[1])]) if r[0] == "ok" else ("err", None)
                        ck.check("generic", f"List[Wrapper[{short(td)}]]:{mode}:{d!r}", got, exp)
            finally:
                lab.done()

    # -- B7b: several generic deserializers of one generic target, each with its own TypeVars ------
    UV, VV, WV = typing.TypeVar("UV"), typing.TypeVar("VV"), typing.TypeVar("WV")
    # (tag, source as a function of the type variable, the same source for a concrete argument)
    shapes = {
        "list": (lambda v: typing.List[v]),
        "mapping": (lambda v: typing.Mapping[str, v]),
        "optional": (lambda v: typing.Optional[v]),
        "bare": (lambda v: v),
        "nested": (lambda v: typing.List[typing.Dict[str, v]]),
    }
    # ("nested": the type variable two levels deep -- alone, so that its finding stays apart)
    combos = [("list", "mapping"), ("mapping", "list"), ("list", "mapping", "bare"), ("bare", "list"), ("optional", "mapping"), ("mapping", "optional", "list"), ("nested",)]
    for td in gen_args:
        S = R(td)
        base_data = pool(td, 6)
        good = data_for(td, tier, rng)[1]
        data = []
        for d in base_data + ["x", 1, None]:
            data += [d, [d], [copy.deepcopy(good), d], {"a": d}, {"a": copy.deepcopy(good), "b": d}, [{"k": d}], [{}]]
        data += [[], {}]
        for combo in combos:
            for typevars in ("distinct", "shared"):
                for mode in ("registered", "dynamic_tuple"):
                    lab = Lab()
                    try:

                        class Box(typing.Generic[TV], Op):
                            _logical = "Box"

                        lab.track(Box)
                        tvs = [UV, VV, WV] if typevars == "distinct" else [TV, TV, TV]
                        convs = [Conversion((lambda s, tag=f"g{i}": Box(tag, s)), source=shapes[shape](tv), target=Box[tv]) for i, (shape, tv) in enumerate(zip(combo, tvs))]
                        kw = {}
                        if mode == "registered":
                            for c in convs:
                                deserializer(c)
                        else:
                            kw["conversion"] = tuple(convs)
                        srcs_real = [shapes[shape](S) for shape in combo]
                        seen_d = set()
                        for d in data:
                            if repr(d) in seen_d:
                                continue
                            seen_d.add(repr(d))
                            exp: Tuple[str, Any] = ("err", None)
                            for i, sr in enumerate(srcs_real):
                                r = outcome(deserialize, sr, copy.deepcopy(d))
                                if r[0] == "crash":
                                    exp = ("skip", None)
                                    break
                                if r[0] == "ok":
                                    exp = ("ok", Box(f"g{i}", r[1]))
                                    break
                            if exp[0] == "skip":
                                continue
                            got = outcome(deserialize, Box[S], copy.deepcopy(d), **kw)
                            ck.check("generic-several" if combo != ("nested",) else "generic-nested-typevar", f"Box[{short(td)}]<-{'+'.join(combo)}:{typevars}:{mode}:{d!r}", got, exp, involved=("DeserializationVisitor._has_conversion", "subtyping_substitution", "ConversionUnionMethod"))
                    finally:
                        lab.done()

    # -- B8: lazy registered conversions and recursive conversions -------------------------------
    for td in [INT, STR, P.A] + ([Coll("list", INT), P.NODE] if tier == "thorough" else []):
        S = R(td)
        lab = Lab()
        try:
            T = lab.opaque("OpT")
            calls = []

            def get(T=T, S=S, calls=calls):
                calls.append(1)
                return Conversion(lambda s: T("lazy", s), source=S, target=T)

            deserializer(lazy=get, target=T)
            for d in pool(td, 8):
                r = outcome(deserialize, S, copy.deepcopy(d))
                if r[0] == "crash":
                    continue
                ck.check("lazy", f"{short(td)}:registered:{d!r}", outcome(deserialize, T, copy.deepcopy(d)), ("ok", T("lazy", r[1])) if r[0] == "ok" else ("err", None))
                ck.check("lazy", f"{short(td)}:dynamic:{d!r}", outcome(deserialize, typing.List[T], [copy.deepcopy(d)], conversion=LazyConversion(lambda: lab.conv("dyn", S, T))), ("ok", [T("dyn", r[1])]) if r[0] == "ok" else ("err", None))
        finally:
            lab.done()
    # recursive: Tree <- List[Union[int, Tree]] with the conversion as its own lazy sub-conversion,
    # dynamic and registered
    for mode in ("dynamic", "registered"):
        lab = Lab()
        try:
            Tree = lab.opaque("Tree")
            holder: List[Any] = [None]
            rec = Conversion(lambda xs: Tree("t", xs), source=typing.List[typing.Union[int, Tree]], target=Tree, sub_conversion=LazyConversion(lambda: holder[0]) if mode == "dynamic" else None)
            holder[0] = rec
            kw = {}
            if mode == "dynamic":
                kw["conversion"] = rec
            else:
                deserializer(rec)

            def expect(d):
                if type(d) is not list:
                    raise ValueError
                out = []
                for x in d:
                    if type(x) is int:
                        out.append(x)
                    else:
                        out.append(expect(x))
                return Tree("t", out)

            for d in ([], [1], [1, [2, [3]]], [[[]]], [1, "a"], [[1, [None]]], 3, [1, [2, {"a": 1}]], [[1], [2], [[3]]]):
                try:
                    exp = ("ok", expect(d))
                except ValueError:
                    exp = ("err", None)
                ck.check("recursive", f"{mode}:{d!r}", outcome(deserialize, Tree, copy.deepcopy(d), **kw), exp, involved=("RecMethod", "ConversionMethod", "LazyConversion"))
        finally:
            lab.done()
    types.dispose()


# ---------------------------------------------------------------------------------------------
# driver C: serialization rules -- inheritance of serializers, identity, LSP, sub-conversions,
# generic and recursive serializers


METHOD_SERIALIZERS_SRC = """
class Bar(Op):
    _logical = "Bar"

    @serializer
    def ser(self) -> int:
        return 0


class Bar2(Bar):
    _logical = "Bar2"

    def ser(self) -> int:
        return 1


class Bar3(Bar2):
    _logical = "Bar3"


class Baz(Op):
    _logical = "Baz"

    @serializer
    @property
    def ser(self) -> str:
        return "p:" + str(self.payload)


class Baz2(Baz):
    _logical = "Baz2"
"""


GENERIC_WRAPPER_SRC = """
TV = typing.TypeVar("TV")


class Wrapper(typing.Generic[TV], Op):
    _logical = "Wrapper"

    @serializer
    def unwrap(self) -> TV:
        return self.payload
"""


def nearest_serializer(cls: type, registered: Dict[type, Tuple[str, Optional[bool]]]) -> Optional[str]:
    """the statement: subclasses inherit a serializer, except one declared with inherited=False,
    which serves its own class only -- walk the MRO from the class itself"""
    for c in cls.__mro__:
        if c in registered:
            tag, inherited = registered[c]
            if c is cls or inherited in (None, True):
                return tag
    return None


def run_rules_ser(report, tier: str, seed: int):
    import itertools

    from apischema import identity, serialize
    from apischema.conversions import Conversion, LazyConversion, serializer
    from apischema.metadata import conversion as conv_md

    types = Types("c12c")
    R = types.real
    log = report.driver(
        "conv_rules_ser",
        bound="3-level class hierarchy x every assignment of {no serializer, function, Conversion inherited=None/True/False, lazy Conversion inherited=False} to the three levels (216 graphs; quick: 90 seeded) x serialize of an instance of each level through its own and its ancestors' types, bare and in a list; method serializers overridden in subclasses; identity bypass x 6 contexts x 2 forms; LSP; sub-conversions; generic serializers x 10 arguments; recursive serializers",
    )
    log.rule("case = (scenario, parameters, value): the serializer expected at a class is the nearest one in its MRO that is its own or inheritable; the rest of the expectation is serialize(U, g(v)) computed by the public API without conversions")
    ck = Checker(log, "ser-rule")
    rng = random.Random(seed + 11)

    # -- C1: inheritance ---------------------------------------------------------------------------
    kinds = [None, "function", "conv", "conv_true", "conv_false", "lazy_false"]
    assignments = list(itertools.product(kinds, repeat=3))
    if tier == "quick":
        must = [a for a in assignments if sum(k is not None for k in a) == 1 or a in (("conv", "conv_false", None), ("function", "lazy_false", None), ("conv_false", None, None), ("conv_false", "conv_false", None), ("conv", None, "conv_false"), ("conv_false", "conv", None), ("lazy_false", None, None), ("conv_true", "conv_false", "conv_false"))]
        rest = [a for a in assignments if a not in must]
        rng.shuffle(rest)
        assignments = must + rest[: 90 - len(must)]
    for assign in assignments:
        lab = Lab()
        try:
            L0 = lab.opaque("L0")
            L1 = lab.opaque("L1", L0)
            L2 = lab.opaque("L2", L1)
            levels = [L0, L1, L2]
            registered: Dict[type, Tuple[str, Optional[bool]]] = {}
            for i, (cls, kind) in enumerate(zip(levels, assign)):
                if kind is None:
                    continue
                tag = f"g{i}"
                fn = lambda v, tag=tag: [tag, v.payload]  # noqa: E731
                if kind == "function":
                    fn.__annotations__ = {"v": cls, "return": typing.List[typing.Any]}
                    serializer(fn)
                    registered[cls] = (tag, None)
                elif kind == "lazy_false":
                    serializer(lazy=lambda fn=fn, cls=cls: Conversion(fn, source=cls, target=typing.List[typing.Any], inherited=False), source=cls)
                    registered[cls] = (tag, False)
                else:
                    inh = {"conv": None, "conv_true": True, "conv_false": False}[kind]
                    serializer(Conversion(fn, source=cls, target=typing.List[typing.Any], inherited=inh))
                    registered[cls] = (tag, inh)
            for i, cls in enumerate(levels):
                v = cls("v", i)
                # serialize through the value's own class and through every ancestor type
                for j in range(i + 1):
                    via = levels[j]
                    # the conversion is selected on the *declared* type
                    tag = nearest_serializer(via, registered)
                    exp = ("ok", [tag, i]) if tag is not None else ("unsupported", None)
                    ck.check("inherited-serializer", f"{assign}:serialize(L{j}, L{i}())", outcome(serialize, via, v), exp, involved=("default_serialization",))
                    exp = ("ok", [[tag, i]]) if tag is not None else ("unsupported", None)
                    ck.check("inherited-serializer", f"{assign}:serialize(List[L{j}], [L{i}()])", outcome(serialize, typing.List[via], [v]), exp, involved=("default_serialization",))
                # untyped serialization uses the runtime class
                tag = nearest_serializer(cls, registered)
                if tag is not None:
                    ck.check("inherited-serializer", f"{assign}:serialize(L{i}()) untyped", outcome(serialize, v), ("ok", [tag, i]), involved=("default_serialization",))
        finally:
            lab.done()
    # method / property serializers, overridden in a subclass
    lab = Lab()
    try:

        # (classes defined at the top level of a module: apischema locates the owner of a method
        # serializer through its __qualname__ and module globals)
        ns: Dict[str, Any] = {"__name__": "verif_conv_methods", "serializer": serializer, "Op": Op}
        exec(METHOD_SERIALIZERS_SRC, ns)
        Bar, Bar2, Bar3, Baz, Baz2 = (ns[n] for n in ("Bar", "Bar2", "Bar3", "Baz", "Baz2"))
        for c in (Bar, Bar2, Bar3, Baz, Baz2):
            lab.track(c)
        ck.check("inherited-serializer", "method:Bar", outcome(serialize, Bar, Bar("v", 1)), ("ok", 0))
        ck.check("inherited-serializer", "method:Bar2 overrides", outcome(serialize, Bar2, Bar2("v", 1)), ("ok", 1))
        ck.check("inherited-serializer", "method:Bar3 inherits the override", outcome(serialize, Bar3, Bar3("v", 1)), ("ok", 1))
        ck.check("inherited-serializer", "method:List[Bar] holding a Bar2", outcome(serialize, typing.List[Bar], [Bar("v", 1), Bar2("v", 1)]), ("ok", [0, 1]))
        ck.check("inherited-serializer", "property:Baz", outcome(serialize, Baz, Baz("v", 1)), ("ok", "p:1"))
        ck.check("inherited-serializer", "property:Baz2 inherits", outcome(serialize, Baz2, Baz2("v", 2)), ("ok", "p:2"))
    finally:
        lab.done()

    # -- C2: identity bypass ---------------------------------------------------------------------
    for form in ("identity", "expanded"):
        for ctxname in ("bare", "list", "optional", "dict", "tuple", "union", "field"):
            if form == "identity" and ctxname in ("list", "dict", "tuple"):
                continue  # see run_rules_deser
            lab = Lab()
            try:
                D1 = lab.track(dataclasses.make_dataclass("D1", [("a", int), ("b", str, dataclasses.field(default="x"))]))
                D1._logical = "D1"
                byp = identity if form == "identity" else Conversion(identity, source=D1, target=D1)
                tp = {"bare": D1, "list": typing.List[D1], "optional": typing.Optional[D1], "dict": typing.Dict[str, D1], "tuple": typing.Tuple[D1, int], "union": typing.Union[int, D1]}.get(ctxname)
                if ctxname == "field":
                    tp = lab.track(dataclasses.make_dataclass("HD", [("x", D1, dataclasses.field(metadata=conv_md(serialization=byp))), ("y", D1)]))
                v1 = D1(1, "y")
                val = {"bare": v1, "list": [v1, D1(2)], "optional": v1, "dict": {"k": v1}, "tuple": (v1, 3), "union": v1, "field": None}[ctxname]
                if ctxname == "field":
                    val = tp(v1, D1(2))
                base = outcome(serialize, tp, val)
                serializer(Conversion(lambda d: d.a, source=D1, target=int))
                conv_res = outcome(serialize, tp, val)
                kw = {} if ctxname == "field" else {"conversion": byp}
                got = outcome(serialize, tp, val, **kw)
                exp = base
                if ctxname == "field":
                    exp = ("ok", {"x": {"a": 1, "b": "y"}, "y": 2})  # bypass only where declared
                ck.check("identity-bypass", f"{form}:{ctxname}", got, exp, involved=("SerializationVisitor._has_conversion", "is_identity"))
                exp2 = {"bare": 1, "list": [1, 2], "optional": 1, "dict": {"k": 1}, "tuple": [1, 3], "union": 1}.get(ctxname)
                if exp2 is not None:
                    ck.check("identity-bypass", f"{form}:{ctxname}:registered-applies-without-bypass", conv_res, ("ok", exp2))
            finally:
                lab.done()

    # -- C3: LSP for dynamic serializers ---------------------------------------------------------
    lab = Lab()
    try:
        Base = lab.opaque("Base")
        Sub = lab.opaque("Sub", Base)
        Other = lab.opaque("Other")
        from_base = Conversion(lambda v: ["base", v.payload], source=Base, target=typing.List[typing.Any])
        from_sub = Conversion(lambda v: ["sub", v.payload], source=Sub, target=typing.List[typing.Any])
        from_other = Conversion(lambda v: ["other", v.payload], source=Other, target=typing.List[typing.Any])
        ck.check("lsp", "serialize(Sub, conversion=Base->)", outcome(serialize, Sub, Sub("v", 1), conversion=from_base), ("ok", ["base", 1]))
        ck.check("lsp", "serialize(List[Sub], conversion=Base->)", outcome(serialize, typing.List[Sub], [Sub("v", 1)], conversion=from_base), ("ok", [["base", 1]]))
        ck.check("lsp", "serialize(Base, conversion=Sub->)", outcome(serialize, Base, Base("v", 1), conversion=from_sub), ("unsupported", None))
        ck.check("lsp", "serialize(Base, conversion=Other->)", outcome(serialize, Base, Base("v", 1), conversion=from_other), ("unsupported", None))
        ck.check("lsp", "serialize(Sub, conversion=(Other->, Base->))", outcome(serialize, Sub, Sub("v", 1), conversion=(from_other, from_base)), ("ok", ["base", 1]))
        ck.check("lsp", "serialize(Sub, conversion=(Sub->, Base->)): first applicable", outcome(serialize, Sub, Sub("v", 1), conversion=(from_sub, from_base)), ("ok", ["sub", 1]))
        ck.check("lsp", "serialize(Sub, conversion=(Base->, Sub->)): first applicable", outcome(serialize, Sub, Sub("v", 1), conversion=(from_base, from_sub)), ("ok", ["base", 1]))
    finally:
        lab.done()

    # -- C4: sub-conversions, chains ---------------------------------------------------------------
    tgt = [INT, STR, P.A, Coll("list", INT), Opt(INT), Uni((INT, STR))] + ([P.E, P.NODE, Tup((INT, STR)), Mapp(STR, INT), P.COLOR] if tier == "thorough" else [])
    for td in tgt:
        U = R(td)
        vals = target_values(types, td, tier)
        if not vals:
            continue
        lab = Lab()
        try:
            T1, T2 = lab.opaque("Op1"), lab.opaque("Op2")
            inner = lab.ser("in", T1, U)
            reg = lab.ser("reg", T1, U, alt=True)
            outer = Conversion(lambda v: v.payload, source=T2, target=typing.List[T1], sub_conversion=inner)
            outer_nosub = Conversion(lambda v: v.payload, source=T2, target=typing.List[T1])
            serializer(reg)
            for i, pv in enumerate(vals):
                alt = vals[(i + 1) % len(vals)]
                t1 = T1("v", pv, alt)
                v2 = T2("w", [t1])
                sp, sa = outcome(serialize, U, pv), outcome(serialize, U, alt)
                if sp[0] != "ok" or sa[0] != "ok":
                    continue
                ck.check("sub-conversion", f"{short(td)}:inside:{pv!r}", outcome(serialize, T2, v2, conversion=outer), ("ok", [sp[1]]))
                ck.check("sub-conversion", f"{short(td)}:none:{pv!r}", outcome(serialize, T2, v2, conversion=outer_nosub), ("ok", [sa[1]]))
                ck.check("sub-conversion", f"{short(td)}:beside:{pv!r}", outcome(serialize, typing.Tuple[T2, T1], (v2, t1), conversion=outer), ("ok", [[sp[1]], sa[1]]))
                # chain: T2 -> List[T1] registered, T1 -> U registered
                lab2 = Lab()
                try:
                    T3 = lab2.opaque("Op3")
                    serializer(Conversion(lambda v: v.payload, source=T3, target=typing.Dict[str, T1]))
                    v3 = T3("z", {"k": t1})
                    ck.check("chain", f"{short(td)}:registered:{pv!r}", outcome(serialize, T3, v3), ("ok", {"k": sa[1]}))
                    # (whether a dynamic conversion survives a registered conversion of a
                    # non-container class *to* a container is left open by the statement)
                    H = dataclasses.make_dataclass("H3", [("p", T3), ("q", T1)])
                    ck.check("chain", f"{short(td)}:in-fields-dynamic-not-applied:{pv!r}", outcome(serialize, H, H(v3, t1), conversion=inner), ("ok", {"p": {"k": sa[1]}, "q": sa[1]}))
                finally:
                    lab2.done()
        finally:
            lab.done()

    # -- C5: generic serializers ---------------------------------------------------------------------
    TV = typing.TypeVar("TV")
    for td in tgt:
        U = R(td)
        vals = target_values(types, td, tier)
        for mode in ("registered_method", "dynamic", "dynamic_mapping_to_sequence"):
            lab = Lab()
            try:

                if mode == "registered_method":
                    ns: Dict[str, Any] = {"__name__": "verif_conv_generic", "serializer": serializer, "Op": Op, "typing": typing}
                    exec(GENERIC_WRAPPER_SRC, ns)
                    Wrapper, WTV = ns["Wrapper"], ns["TV"]
                else:
                    WTV = TV

                    class Wrapper(typing.Generic[TV], Op):  # type: ignore
                        _logical = "Wrapper"

                lab.track(Wrapper)
                kw = {}
                if mode == "dynamic":
                    kw["conversion"] = Conversion(lambda w: w.payload, source=Wrapper[WTV], target=WTV)
                for pv in vals:
                    su = outcome(serialize, U, pv)
                    if su[0] != "ok":
                        continue
                    if mode == "dynamic_mapping_to_sequence":
                        # documented example: partially specialised generic dynamic conversion
                        def keys_by_priority(m):
                            return [k for k, _ in sorted(m.items(), key=lambda kv: kv[1])]

                        keys_by_priority.__annotations__ = {"m": typing.Mapping[TV, int], "return": typing.Sequence[TV]}

                        try:
                            hash(pv)
                        except TypeError:
                            continue
                        got = outcome(serialize, typing.Dict[U, int], {pv: 1}, conversion=keys_by_priority)
                        ck.check("generic", f"Dict[{short(td)},int]->Sequence:{pv!r}", got, ("ok", [su[1]]), involved=("SerializationVisitor._has_conversion", "subtyping_substitution"))
                        continue
                    ck.check("generic", f"Wrapper[{short(td)}]:{mode}:{pv!r}", outcome(serialize, Wrapper[U], Wrapper("w", pv), **kw), su, involved=("SerializationVisitor._has_conversion", "subtyping_substitution"))
                    ck.check("generic", f"List[Wrapper[{short(td)}]]:{mode}:{pv!r}", outcome(serialize, typing.List[Wrapper[U]], [Wrapper("w", pv)], **kw), ("ok", [su[1]]), involved=("SerializationVisitor._has_conversion", "subtyping_substitution"))
            finally:
                lab.done()

    # -- C6: recursive serializers (documented pattern) ----------------------------------------------
    for mode in ("dynamic", "registered", "dynamic_without_recursion"):
        lab = Lab()
        try:
            Tree = lab.opaque("Tree")
            holder: List[Any] = [None]
            rec = Conversion(lambda t: t.payload, source=Tree, target=typing.List[typing.Union[int, Tree]], sub_conversion=LazyConversion(lambda: holder[0]) if mode == "dynamic" else None)
            holder[0] = rec
            kw = {}
            if mode == "registered":
                serializer(rec)
            else:
                kw["conversion"] = rec
            tree = Tree("t", [0, Tree("t", [1, Tree("t", [])]), 2])
            if mode == "dynamic_without_recursion":
                # without the recursive sub-conversion the inner trees have no conversion left:
                # the square with the target type, which is used without any conversion
                U = typing.List[typing.Union[int, Tree]]
                ck.check("recursive", mode, outcome(serialize, Tree, tree, **kw), outcome(serialize, U, tree.payload))
                ck.check("recursive", mode + ":flat", outcome(serialize, Tree, Tree("t", [0, 1]), **kw), ("ok", [0, 1]))
            else:
                ck.check("recursive", mode, outcome(serialize, Tree, tree, **kw), ("ok", [0, [1, []], 2]), involved=("RecMethod", "ConversionMethod", "LazyConversion"))
                ck.check("recursive", mode + ":in-list", outcome(serialize, typing.List[Tree], [tree], **kw), ("ok", [[0, [1, []], 2]]), involved=("RecMethod", "ConversionMethod", "LazyConversion"))
        finally:
            lab.done()
    types.dispose()


# ---------------------------------------------------------------------------------------------
# driver D: JSON schemas


def norm_schema(sch) -> Any:
    """schema without `$schema`, with the references to the per-case classes (Op*, Holder*,
    Bag*: their names differ between the two sides of a square) inlined"""
    sch = copy.deepcopy(dict(sch))
    sch.pop("$schema", None)
    defs = sch.get("$defs", {})
    local = {k for k in defs if k.startswith(("Op", "Holder", "Bag", "D1", "HD", "Wrapper", "Base", "Sub", "Box"))}

    def rec(x, depth=0):
        if depth > 40:
            return x
        if isinstance(x, dict):
            if "$ref" in x and isinstance(x["$ref"], str) and x["$ref"].startswith("#/$defs/") and x["$ref"][8:] in local:
                target = rec(copy.deepcopy(defs[x["$ref"][8:]]), depth + 1)
                rest = {k: rec(v, depth + 1) for k, v in x.items() if k != "$ref"}
                return {**target, **rest}
            return {k: rec(v, depth + 1) for k, v in x.items()}
        if isinstance(x, list):
            return [rec(v, depth + 1) for v in x]
        return x

    out = rec({k: v for k, v in sch.items() if k != "$defs"})
    kept = {k: rec(v) for k, v in defs.items() if k not in local}
    if kept:
        out["$defs"] = kept
    return out


def run_schemas(report, tier: str, seed: int):
    from apischema import identity, schema as ap_schema, type_name
    from apischema.conversions import Conversion, deserializer, serializer
    from apischema.conversions.converters import default_deserialization, default_serialization
    from apischema.json_schema import deserialization_schema, serialization_schema
    from apischema.metadata import conversion as conv_md
    from apischema.typing import Annotated

    types = Types("c12d")
    R = types.real
    srcs = source_pool(tier)
    if tier == "quick":  # schema generation is the slow operation: a representative half
        srcs = [INT, STR, Opt(INT), Coll("list", INT), Tup((INT, STR)), Mapp(STR, INT), P.COLOR, P.A, P.E, P.NODE, Uni((INT, STR)), Ann(INT, cons(min=0, max=10)), P.POS]
    ctxs = contexts(tier)
    placements = ["registered", "registered_annotated_T", "dynamic", "dynamic_over_registered", "annotated", "default_conversion", "default_conversion_annotated_T", "field"]
    log = report.driver(
        "conv_schemas",
        bound=f"{len(srcs)} source / target types x placements {placements} x {len(ctxs)} contexts x {{deserialization_schema, serialization_schema}}; the registered conversion f0 / g0 has another source / target (a string constant) than the placed one, so that the position at which each conversion applies is visible in the schema; plus several deserializers (anyOf of the sources), chains, generic, identity bypass",
    )
    log.rule("case = (type S/U, placement, context, direction): schema(C[T], placement) == schema(C[S or U at the positions where the placed conversion applies, S0 / U0 where the registered one applies]) after inlining the per-case class references; with `schema(...)` annotations on T (registered / default placements): == schema(C[Annotated[S, the same annotations]])")
    ck = Checker(log, "schema")
    S0 = typing.List[bool]  # source / target of the registered f0 / g0: in no pool type
    ann_kw = dict(title="T title", description="T doc", extra={"x-op": 1})

    for td in srcs:
        S = R(td)
        for direction in ("deser", "ser"):
            if direction == "ser" and isinstance(td, Coll) and td.kind == "set":
                pass
            schema_fn = deserialization_schema if direction == "deser" else serialization_schema
            register = deserializer if direction == "deser" else serializer
            default = default_deserialization if direction == "deser" else default_serialization
            for placement in placements:
                for mk_ctx in ctxs:
                    lab = Lab()
                    try:
                        T = lab.opaque("OpT")
                        if mk_ctx().objects:
                            # T stands at two positions of the object: without this it would be
                            # emitted as a `$ref` (Optional[$ref] is then spelt anyOf instead of a
                            # type list -- equivalent, but not comparable structurally)
                            type_name(None)(T)
                        annotated_T = placement.endswith("_annotated_T")
                        if annotated_T:
                            ap_schema(**ann_kw)(T)
                        base = placement.replace("_annotated_T", "")
                        if direction == "deser":
                            c, c0 = lab.conv("f", S, T), lab.conv("f0", S0, T)
                            md = lambda: conv_md(deserialization=c)  # noqa: E731
                        else:
                            c, c0 = lab.ser("g", T, S), lab.ser("g0", T, S0, alt=True)
                            md = lambda: conv_md(serialization=c)  # noqa: E731
                        Sx: Any = Annotated[S, ap_schema(**ann_kw)] if annotated_T else S
                        pos = {"x": Sx, "y": Sx}
                        kw: Dict[str, Any] = {}
                        X: Any = T
                        ctx = mk_ctx()
                        if isinstance(td, (Opt, Uni)) and (ctx.objects or isinstance(ctx, (OptOf, UnionOf, NestedOf))):
                            continue  # typing flattens Optional[Optional[..]] on the S side only
                        if ctx.objects and (isinstance(td, Lit) or (isinstance(td, (Ann, NewT)) and isinstance(td.t, (Uni, Opt)))):
                            # the S side `y: Optional[Literal[..]] = None` (or Optional[Annotated[
                            # Union[..]]]) loses its `default`: the default cannot be serialized
                            # (known findings of C13 on Literal / nested-union members of a union),
                            # so it is no reference here
                            continue
                        expect_unsupported = False
                        if base == "registered":
                            register(c)
                        elif base == "dynamic":
                            kw["conversion"] = c
                            expect_unsupported = not ctx.reach
                        elif base == "dynamic_over_registered":
                            register(c0)
                            kw["conversion"] = c
                            if not ctx.reach:
                                pos = {"x": S0, "y": S0}
                        elif base == "annotated":
                            register(c0)
                            X = Annotated[T, md()]
                        elif base == "default_conversion":
                            register(c0)
                            kw["default_conversion"] = _default_with({T: c}, default)
                        elif base == "field":
                            if not ctx.objects:
                                continue
                            register(c0)
                            ctx = type(ctx)(inner=ctx.inner, listed=ctx.listed, field_md=lambda side: md() if side == "T" else None)
                            pos = {"x": S, "y": S0}
                        CT = ctx.tp(X, lab, "T")
                        CS = ctx.tp((pos["x"], pos["y"]) if ctx.objects else pos["x"], lab, "S")
                        got = outcome(schema_fn, CT, **kw)
                        ref = outcome(schema_fn, CS)
                        if ref[0] != "ok":
                            continue
                        exp = ("unsupported", None) if expect_unsupported else ("ok", norm_schema(ref[1]))
                        if got[0] == "ok":
                            got = ("ok", norm_schema(got[1]))
                        ck.check(f"{direction}-square", f"{short(td)}:{placement}:{ctx.name}", got, exp, involved=("SchemaBuilder.visit_conversion", "ConversionsVisitor"))
                    finally:
                        lab.done()
        # several deserializers: the schema of the union of the sources, in registration order
        for other in (INT, STR, Coll("list", STR), P.B):
            if other == td or isinstance(td, (Opt, Uni)):
                continue  # typing.Union would flatten / merge the members on the reference side
            lab = Lab()
            try:
                T = lab.opaque("OpT")
                deserializer(lab.conv("f0", S, T))
                deserializer(lab.conv("f1", R(other), T))
                got = outcome(deserialization_schema, T)
                exp = outcome(deserialization_schema, typing.Union[S, R(other)])
                if exp[0] == "ok" and got[0] == "ok":
                    got, exp = ("ok", norm_schema(got[1])), ("ok", norm_schema(exp[1]))
                ck.check("several-deserializers", f"{short(td)}+{short(other)}", got, exp, involved=("SchemaBuilder._visited_union",))
            finally:
                lab.done()
        # chain and generic
        lab = Lab()
        try:
            T1, T2 = lab.opaque("Op1"), lab.opaque("Op2")
            deserializer(lab.conv("c0", S, T1))
            deserializer(lab.conv("c1", T1, T2))
            serializer(lab.ser("g1", T2, T1))
            serializer(lab.ser("g0", T1, S))
            for fn in (deserialization_schema, serialization_schema):
                got, exp = outcome(fn, typing.List[T2]), outcome(fn, typing.List[S])
                if exp[0] == "ok" and got[0] == "ok":
                    got, exp = ("ok", norm_schema(got[1])), ("ok", norm_schema(exp[1]))
                ck.check("chain", f"{short(td)}:{fn.__name__}", got, exp)
            TV = typing.TypeVar("TV")

            class Wrapper(typing.Generic[TV], Op):
                pass

            lab.track(Wrapper)
            deserializer(Conversion(lambda x: Wrapper("w", x), source=TV, target=Wrapper[TV]))
            serializer(Conversion(lambda w: w.payload, source=Wrapper[TV], target=TV))
            for fn in (deserialization_schema, serialization_schema):
                got, exp = outcome(fn, typing.Dict[str, Wrapper[S]]), outcome(fn, typing.Dict[str, S])
                if exp[0] == "ok" and got[0] == "ok":
                    got, exp = ("ok", norm_schema(got[1])), ("ok", norm_schema(exp[1]))
                ck.check("generic", f"{short(td)}:{fn.__name__}", got, exp)
        finally:
            lab.done()
    # several generic deserializers (own TypeVars each): anyOf of the *specialised* sources
    UV, VV = typing.TypeVar("UV"), typing.TypeVar("VV")
    for td in srcs:
        if isinstance(td, (Opt, Uni)):
            continue
        S = R(td)
        for mode in ("registered", "dynamic_tuple"):
            for order in (0, 1):
                lab = Lab()
                try:

                    class Box(typing.Generic[UV], Op):
                        pass

                    lab.track(Box)
                    convs = [Conversion(lambda s: Box("l", s), source=typing.List[UV], target=Box[UV]), Conversion(lambda s: Box("m", s), source=typing.Mapping[str, VV], target=Box[VV])]
                    reals = [typing.List[S], typing.Mapping[str, S]]
                    if order:
                        convs.reverse()
                        reals.reverse()
                    kw = {}
                    if mode == "registered":
                        for c in convs:
                            deserializer(c)
                    else:
                        kw["conversion"] = tuple(convs)
                    got, exp = outcome(deserialization_schema, Box[S], **kw), outcome(deserialization_schema, typing.Union[reals[0], reals[1]])
                    if exp[0] == "ok" and got[0] == "ok":
                        got, exp = ("ok", norm_schema(got[1])), ("ok", norm_schema(exp[1]))
                    ck.check("generic-several", f"Box[{short(td)}]:{mode}:order={order}", got, exp, involved=("DeserializationVisitor._has_conversion", "SchemaBuilder._visited_union"))
                finally:
                    lab.done()
    # identity bypass
    for form in ("identity", "expanded"):
        for fn, register in ((deserialization_schema, deserializer), (serialization_schema, serializer)):
            lab = Lab()
            try:
                D1 = lab.track(dataclasses.make_dataclass("D1", [("a", int), ("b", str, dataclasses.field(default="x"))]))
                byp = identity if form == "identity" else Conversion(identity, source=D1, target=D1)
                tps = {"bare": D1, "optional": typing.Optional[D1], "union": typing.Union[int, D1]}
                if form == "expanded":
                    tps.update({"list": typing.List[D1], "tuple": typing.Tuple[D1, int]})
                base = {k: outcome(fn, tp) for k, tp in tps.items()}
                if fn is deserialization_schema:
                    register(Conversion(lambda i: D1(i), source=int, target=D1))
                else:
                    register(Conversion(lambda d: d.a, source=D1, target=int))
                for k, tp in tps.items():
                    got = outcome(fn, tp, conversion=byp)
                    ck.check("identity-bypass", f"{form}:{fn.__name__}:{k}", got, base[k], involved=("SchemaBuilder.visit_conversion", "is_identity"))
                    conv = outcome(fn, tp)
                    if conv[0] == "ok" and base[k][0] == "ok" and conv[1] == base[k][1]:
                        report.tool_error(f"schema identity-bypass: registered conversion not visible in {fn.__name__}({k})")
            finally:
                lab.done()
    types.dispose()


def run(report, tier: str, seed: int):
    try:
        run_squares_deser(report, tier, seed)
        run_squares_ser(report, tier, seed)
        run_rules_deser(report, tier, seed)
        run_rules_ser(report, tier, seed)
        run_schemas(report, tier, seed)
    finally:
        unregister_bag()
