"""Shared pieces of the C05 / C08 / C14 drivers (round trip, optimisation options, coercion).

Nothing here decides conformance with apischema code: values are the *reference images* of
valid data (drivers/model.py), canonical forms are computed from the type descriptions."""
from __future__ import annotations

import copy
import dataclasses
import enum
from typing import Any, Callable, Dict, Iterator, List, Optional, Tuple

from . import model as M
from . import pools as P
from .deser_e2e import camel, deep_eq, short
from .model import Ann, AnyT, Coll, Disc, Enm, Fld, Lit, Mapp, NewT, Obj, Opt, Prim, Ref, Tup, Uni

ALL_OBJS = P.OBJECTS + [P.PQ_Q, P.A2, P.CAT, P.DOG, P.BIRD, P.FISH]


def custom_aliaser(s: str) -> str:
    """the `custom` aliaser of the quantifier: injective, changes every name"""
    return "x-" + s[::-1]


ALIASERS: Dict[str, Optional[Callable[[str], str]]] = {"identity": None, "camelCase": camel, "custom": custom_aliaser}


def new_realm(tag: str, extra: Tuple[Obj, ...] = ()) -> M.Realm:
    realm = M.Realm(tag)
    M.install_typing(realm)
    for o in ALL_OBJS:
        M.realize(o, realm)
    install_ext(realm)
    for o in extra:
        M.realize(o, realm)
    return realm


def children(td) -> List[Any]:
    if isinstance(td, (Opt, Coll, Ann, NewT)):
        return [td.t]
    if isinstance(td, Uni):
        return list(td.alts)
    if isinstance(td, Tup):
        return list(td.elts)
    if isinstance(td, Mapp):
        return [td.k, td.v]
    if isinstance(td, Obj):
        return [f.t for f in td.fields]
    if isinstance(td, Disc):
        return list(td.alts)
    return []


def any_node(td, pred, realm: Optional[M.Realm] = None, _seen=None) -> bool:
    """does some node of the description (references followed once) satisfy pred"""
    _seen = _seen if _seen is not None else set()
    if isinstance(td, Ref):
        if td.name in _seen or realm is None or td.name not in realm.descs:
            return False
        _seen.add(td.name)
        return any_node(realm.descs[td.name], pred, realm, _seen)
    if isinstance(td, Obj):
        if td.name in _seen:
            return False
        _seen.add(td.name)
    if pred(td):
        return True
    return any(any_node(c, pred, realm, _seen) for c in children(td))


def has_union(td, realm=None) -> bool:
    return any_node(td, lambda t: isinstance(t, (Uni, Opt, Disc)), realm)


def has_obj(td, realm=None) -> bool:
    return any_node(td, lambda t: isinstance(t, (Obj, Ref, Disc)), realm) or isinstance(td, Ref)


def has_field(td, pred, realm=None) -> bool:
    return any_node(td, lambda t: isinstance(t, Obj) and any(pred(f) for f in t.fields), realm)


def has_fallback(td, realm=None) -> bool:
    return has_field(td, lambda f: f.fall_back, realm)


def mutable_containers(x, out: Optional[Dict[int, Any]] = None) -> Dict[int, Any]:
    """id -> object for every mutable container (list / dict / set / bytearray / deque, and the
    instance dictionaries of objects) reachable from x"""
    out = out if out is not None else {}

    def rec(y):
        if isinstance(y, (list, dict, set)) or type(y).__name__ == "deque":
            if id(y) in out:
                return
            out[id(y)] = y
            if isinstance(y, dict):
                for k, v in y.items():
                    rec(k)
                    rec(v)
            else:
                for v in y:
                    rec(v)
        elif isinstance(y, (tuple, frozenset)):
            for v in y:
                rec(v)
        elif dataclasses.is_dataclass(y) and not isinstance(y, type):
            d = getattr(y, "__dict__", None)
            if d is not None:
                if id(d) in out:
                    return
                out[id(d)] = d
            for f in dataclasses.fields(y):
                rec(getattr(y, f.name, None))

    rec(x)
    return out


def shared_containers(a, b) -> List[Any]:
    ia, ib = mutable_containers(a), mutable_containers(b)
    return [ia[i] for i in ia if i in ib]


def jsonable(x) -> bool:
    """made only of dict with string keys, list, str, int, float, bool and None"""
    if x is None or type(x) in (bool, int, float, str):
        return True
    if type(x) is list:
        return all(jsonable(y) for y in x)
    if type(x) is dict:
        return all(type(k) is str and jsonable(v) for k, v in x.items())
    return False


def call(f, *a, **kw) -> Tuple[str, Any]:
    """('ok', value) | ('err', [(loc, msg)...]) | ('crash', text)"""
    from apischema import ValidationError

    try:
        return ("ok", f(*a, **kw))
    except ValidationError as e:
        try:
            return ("err", [(tuple(x["loc"]), x["err"]) for x in e.errors])
        except Exception as e2:  # pragma: no cover
            return ("crash", f"errors not computable: {e2!r}")
    except RecursionError:
        return ("crash", "RecursionError")
    except Exception as e:
        return ("crash", f"{type(e).__name__}: {e}")


class _NaN:
    def __repr__(self):
        return "NaN"


NAN = _NaN()


def denan(x):
    """float('nan') replaced by one token inside built-in containers, so that sets holding distinct
    nan objects compare equal"""
    if isinstance(x, float) and x != x:
        return NAN
    if type(x) in (list, tuple, set, frozenset):
        return type(x)(denan(y) for y in x)
    if type(x) is dict:
        return {denan(k): denan(v) for k, v in x.items()}
    return x


def same_outcome(a: Tuple[str, Any], b: Tuple[str, Any]) -> bool:
    """identical results: equal values with the same runtime classes, or identical error lists"""
    if a[0] != b[0]:
        return False
    if a[0] == "ok":
        return deep_eq(denan(a[1]), denan(b[1]))
    if a[0] == "err":
        return a[1] == b[1]
    return a[1] == b[1]


def rs(x, n: int = 300) -> str:
    s = repr(x)
    return s if len(s) <= n else s[: n - 3] + "..."


# ---------------------------------------------------------------------------------------------
# extensions of the description language (wrapped around model.py, which is not edited): the real
# class is registered in the Realm under its name and referred to with `M.Ref(name)`;
# `ExtRef` (subclass of `M.Ref_`) gives these descriptions their reference semantics.


@dataclasses.dataclass(frozen=True)
class SubP(M.TD):
    """class <name>(<base>): pass -- a subclass of a primitive: conforms like the primitive, the
    image is an instance of the subclass"""

    name: str
    base: str  # int | str | float


@dataclasses.dataclass(frozen=True)
class EnmMix(M.TD):
    """class <name>(<base>, Enum) -- IntEnum-like / str-Enum: by value, like Enm"""

    name: str
    base: str  # int | str
    members: Tuple[Tuple[str, Any], ...]


USER_ID = SubP("UserIdSub", "int")
SLUG = SubP("SlugSub", "str")
RATIO = SubP("RatioSub", "float")
LEVEL = EnmMix("LevelMix", "int", (("LOW", 1), ("HIGH", 2)))
MOOD = EnmMix("MoodMix", "str", (("OK", "ok"), ("KO", "ko")))
EXT_DESCS = (USER_ID, SLUG, RATIO, LEVEL, MOOD)
R_USER_ID, R_SLUG, R_RATIO, R_LEVEL, R_MOOD = (Ref(x.name) for x in EXT_DESCS)
POST = Obj("dataclass", "PostSub", (Fld("author", R_USER_ID), Fld("slug", R_SLUG), Fld("level", Opt(R_LEVEL), has_default=True, default=None), Fld("ratios", Coll("list", R_RATIO), factory="list")))
EXT_OBJS = (POST,)
EXT_TYPES: List[Any] = [R_USER_ID, R_SLUG, R_RATIO, R_LEVEL, R_MOOD, Coll("list", R_USER_ID), Opt(R_SLUG), Mapp(P.STR, R_RATIO), Mapp(R_SLUG, P.INT), Tup((R_USER_ID, R_MOOD)), Coll("set", R_LEVEL), Uni((R_USER_ID, R_SLUG)), POST, Coll("list", POST)]
# valid data for the extension types (pools.valid_samples does not know them)
EXT_SAMPLES: Dict[Any, List[Any]] = {
    R_USER_ID: [0, 42],
    R_SLUG: ["ab", ""],
    R_RATIO: [2.5, 1],
    R_LEVEL: [1, 2],
    R_MOOD: ["ok", "ko"],
    Coll("list", R_USER_ID): [[], [1, 2]],
    Opt(R_SLUG): [None, "ab"],
    Mapp(P.STR, R_RATIO): [{}, {"k": 1.5, "l": 2}],
    Mapp(R_SLUG, P.INT): [{}, {"k": 1}],
    Tup((R_USER_ID, R_MOOD)): [[7, "ok"]],
    Coll("set", R_LEVEL): [[1, 2], [2]],
    Uni((R_USER_ID, R_SLUG)): [3, "x"],
    POST: [{"author": 1, "slug": "s"}, {"author": 2, "slug": "a-b", "level": 2, "ratios": [0.5, 1]}],
    Coll("list", POST): [[{"author": 1, "slug": ""}, {"author": 2, "slug": "z", "level": 1}]],
}


def install_ext(realm: M.Realm):
    """build the real classes of the extension descriptions in the realm"""
    for x in EXT_DESCS:
        if x.name in realm.built:
            continue
        base = {"int": int, "str": str, "float": float}[x.base]
        if isinstance(x, SubP):
            cls = type(x.name, (base,), {"__module__": realm.name})
        else:
            cls = enum.Enum(x.name, list(x.members), module=realm.name, type=base)
        setattr(realm.module, x.name, cls)
        realm.built[x.name] = cls
        realm.descs[x.name] = x  # type: ignore
    for o in EXT_OBJS:
        M.realize(o, realm)


class ExtRef(M.Ref_):
    """reference deserialization extended to SubP / EnmMix"""

    def deser(self, td, d, c=None):
        if isinstance(td, SubP):
            return self.realm.built[td.name](self.deser(Prim(td.base), d, c))
        if isinstance(td, EnmMix):
            return self.deser(Enm(td.name, td.members), d, c)
        return super().deser(td, d, c)


def ext_ref_deserialize(td, d, realm: M.Realm, opts: M.Opts):
    try:
        return ("ok", ExtRef(realm, opts).deser(td, d))
    except TypeError:  # data with keys of mixed classes: outside the reference's domain (never a value source)
        return ("err", [((), "outside the reference domain")])
    except M.Rejected as r:
        try:
            return ("err", r.err.flat())
        except TypeError:  # keys of mixed classes (non-string keys) cannot be ordered by Err.flat
            return ("err", [((), "rejected")])


def ext_samples(td) -> List[Any]:
    return [copy.deepcopy(s) for s in EXT_SAMPLES.get(td, [])]
