"""Shared pieces of the C05 / C08 / C14 drivers (round trip, optimisation options, coercion).

Nothing here decides conformance with apischema code: values are the *reference images* of
valid data (drivers/model.py), canonical forms are computed from the type descriptions."""
from __future__ import annotations

import copy
import dataclasses
import enum
from typing import Any, Callable, Dict, Iterator, List, Optional, Tuple

from . import model as M
from . import pools as P
from .deser_e2e import camel, deep_eq, short
from .model import Ann, AnyT, Coll, Disc, Enm, Fld, Lit, Mapp, NewT, Obj, Opt, Prim, Ref, Tup, Uni

ALL_OBJS = P.OBJECTS + [P.PQ_Q, P.A2, P.CAT, P.DOG, P.BIRD, P.FISH]


def custom_aliaser(s: str) -> str:
    """the `custom` aliaser of the quantifier: injective, changes every name"""
    return "x-" + s[::-1]


ALIASERS: Dict[str, Optional[Callable[[str], str]]] = {"identity": None, "camelCase": camel, "custom": custom_aliaser}


def new_realm(tag: str, extra: Tuple[Obj, ...] = ()) -> M.Realm:
    realm = M.Realm(tag)
    M.install_typing(realm)
    for o in ALL_OBJS + list(extra):
        M.realize(o, realm)
    return realm


def children(td) -> List[Any]:
    if isinstance(td, (Opt, Coll, Ann, NewT)):
        return [td.t]
    if isinstance(td, Uni):
        return list(td.alts)
    if isinstance(td, Tup):
        return list(td.elts)
    if isinstance(td, Mapp):
        return [td.k, td.v]
    if isinstance(td, Obj):
        return [f.t for f in td.fields]
    if isinstance(td, Disc):
        return list(td.alts)
    return []


def any_node(td, pred, realm: Optional[M.Realm] = None, _seen=None) -> bool:
    """does some node of the description (references followed once) satisfy pred"""
    _seen = _seen if _seen is not None else set()
    if isinstance(td, Ref):
        if td.name in _seen or realm is None or td.name not in realm.descs:
            return False
        _seen.add(td.name)
        return any_node(realm.descs[td.name], pred, realm, _seen)
    if isinstance(td, Obj):
        if td.name in _seen:
            return False
        _seen.add(td.name)
    if pred(td):
        return True
    return any(any_node(c, pred, realm, _seen) for c in children(td))


def has_union(td, realm=None) -> bool:
    return any_node(td, lambda t: isinstance(t, (Uni, Opt, Disc)), realm)


def has_obj(td, realm=None) -> bool:
    return any_node(td, lambda t: isinstance(t, (Obj, Ref, Disc)), realm) or isinstance(td, Ref)


def has_field(td, pred, realm=None) -> bool:
    return any_node(td, lambda t: isinstance(t, Obj) and any(pred(f) for f in t.fields), realm)


def has_fallback(td, realm=None) -> bool:
    return has_field(td, lambda f: f.fall_back, realm)


def mutable_containers(x, out: Optional[Dict[int, Any]] = None) -> Dict[int, Any]:
    """id -> object for every mutable container (list / dict / set / bytearray / deque, and the
    instance dictionaries of objects) reachable from x"""
    out = out if out is not None else {}

    def rec(y):
        if isinstance(y, (list, dict, set)) or type(y).__name__ == "deque":
            if id(y) in out:
                return
            out[id(y)] = y
            if isinstance(y, dict):
                for k, v in y.items():
                    rec(k)
                    rec(v)
            else:
                for v in y:
                    rec(v)
        elif isinstance(y, (tuple, frozenset)):
            for v in y:
                rec(v)
        elif dataclasses.is_dataclass(y) and not isinstance(y, type):
            d = getattr(y, "__dict__", None)
            if d is not None:
                if id(d) in out:
                    return
                out[id(d)] = d
            for f in dataclasses.fields(y):
                rec(getattr(y, f.name, None))

    rec(x)
    return out


def shared_containers(a, b) -> List[Any]:
    ia, ib = mutable_containers(a), mutable_containers(b)
    return [ia[i] for i in ia if i in ib]


def jsonable(x) -> bool:
    """made only of dict with string keys, list, str, int, float, bool and None"""
    if x is None or type(x) in (bool, int, float, str):
        return True
    if type(x) is list:
        return all(jsonable(y) for y in x)
    if type(x) is dict:
        return all(type(k) is str and jsonable(v) for k, v in x.items())
    return False


def call(f, *a, **kw) -> Tuple[str, Any]:
    """('ok', value) | ('err', [(loc, msg)...]) | ('crash', text)"""
    from apischema import ValidationError

    try:
        return ("ok", f(*a, **kw))
    except ValidationError as e:
        try:
            return ("err", [(tuple(x["loc"]), x["err"]) for x in e.errors])
        except Exception as e2:  # pragma: no cover
            return ("crash", f"errors not computable: {e2!r}")
    except RecursionError:
        return ("crash", "RecursionError")
    except Exception as e:
        return ("crash", f"{type(e).__name__}: {e}")


def same_outcome(a: Tuple[str, Any], b: Tuple[str, Any]) -> bool:
    """identical results: equal values with the same runtime classes, or identical error lists"""
    if a[0] != b[0]:
        return False
    if a[0] == "ok":
        return deep_eq(a[1], b[1])
    if a[0] == "err":
        return a[1] == b[1]
    return a[1] == b[1]


def rs(x, n: int = 300) -> str:
    s = repr(x)
    return s if len(s) <= n else s[: n - 3] + "..."
