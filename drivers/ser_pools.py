"""Type pool and value generator of the serialization drivers (C04 / C07): the type space of C01
(drivers/pools.py) plus the serialization-only features of the C04 quantifier (serialized
methods / properties, skip(serialization_if / serialization_default), none_as_undefined,
Undefined fields, with_fields_set classes, init=False fields) and the conversions of the C07
quantifier (field, dynamic, registered)."""
from __future__ import annotations

import random
import types as pytypes
from typing import Any, Dict, List, Optional

from . import model as M
from . import model_ser as S
from . import pools as P
from .model_ser import Conv, Dyn, SerM, SFld, SObj, Spec, TVar
from .pools import A, B, BOOL, FLOAT, INT, NONE, STR, Ann, AnyT, Coll, Disc, Enm, Fld, Lit, Mapp, NewT, Obj, Opt, Prim, Ref, TD, Tup, Uni, cons

TD3_ = Obj("typeddict", "TD3", (Fld("some_key", INT), Fld("opt_key", Opt(STR), td_required=False)))
# -- serialized methods / properties ---------------------------------------------------------
SM1 = SObj(
    "dataclass",
    "SM1",
    (Fld("a", INT), Fld("b", Opt(STR), has_default=True, default=None)),
    serialized=(
        SerM("plus_one", INT, "a_plus1"),
        SerM("as_text", STR, "a_str", kind="property"),
        SerM("seven_up", INT, "const7", alias="seven"),
        SerM("maybe", INT, "undef_if_a0", undefined=True),
        SerM("opt_val", Opt(INT), "none_if_a0"),
        SerM("twice", Coll("list", INT), "list_a", kind="function"),
    ),
)
SM2 = SObj("dataclass", "SM2", (), serialized=(SerM("only", INT, "const7", kind="property"), SerM("never", STR, "undef", undefined=True), SerM("pair", Tup((INT, STR)), "const_pair")))
S.BODIES["const_pair"] = lambda s: (1, "p")
SM3 = SObj("dataclass", "SM3", (Fld("a", INT, alias="A"),), serialized=(SerM("a_txt", INT, "a_plus1", alias="some_alias", conv=Conv("str", INT, STR)), SerM("null", Opt(STR), "none", kind="property")))
# error handlers (docs "Error handling") and generic owners (docs "Generic serialized methods")
SM4 = SObj(
    "dataclass",
    "SM4",
    (Fld("a", INT),),
    serialized=(
        SerM("risky_none", INT, "raise_if_a0", on_error="none"),
        SerM("risky_text", INT, "raise_if_a0", on_error="text", kind="property"),
        SerM("risky_undef", INT, "raise_if_a0", on_error="undef"),
        SerM("risky_int", STR, "a_str_or_raise", on_error="minus1", alias="r_i"),
    ),
)
S.BODIES["a_str_or_raise"] = lambda s: S._raise(KeyError("a")) if s.a == 0 else str(s.a)
BOX = SObj(
    "dataclass",
    "Box",
    (SFld("content", TVar()), SFld("fail", BOOL, has_default=True, default=False), SFld("more", Coll("list", TVar()), factory="list")),
    generic=True,
    serialized=(
        SerM("same", TVar(), "content"),
        SerM("boxed", Coll("list", TVar()), "content_list", kind="property"),
        SerM("risky", TVar(), "content_or_raise", on_error="none"),
        SerM("risky_txt", Opt(TVar()), "content_or_raise", on_error="text", alias="r_t"),
    ),
)
SPECS_FS = None
SPECS = [Spec(BOX, INT), Spec(BOX, STR), Spec(BOX, A), Spec(BOX, Opt(INT)), Coll("list", Spec(BOX, INT)), Spec(BOX, Coll("list", P.COLOR))]
# hierarchies where a subclass OVERRIDES an inherited serialized method (the most-derived definition wins)
for _k, _v in (("k_base", "base"), ("k_child", "child"), ("k_grand", "grand"), ("k_other", "other")):
    S.BODIES[_k] = (lambda v: (lambda s: v))(_v)
S.BODIES["a_neg"] = lambda s: -s.a
S.BODIES["a_list"] = lambda s: [s.a]
OV_BASE = SObj(
    "dataclass",
    "OvBase",
    (Fld("a", INT),),
    serialized=(
        SerM("base_kind", STR, "k_base", alias="kind"),  # overridden under the same alias by another function
        SerM("same_name", STR, "k_base"),  # overridden by a re-decorated method of the same name
        SerM("plain_over", INT, "a_plus1"),  # overridden by an undecorated python method
        SerM("as_prop", STR, "k_base"),  # method here, property in the subclass
        SerM("prop_here", INT, "a_plus1", kind="property"),  # property here, method in the subclass
        SerM("with_conv", INT, "a_plus1"),  # the override adds a conversion
        SerM("conv_here", INT, "a_plus1", conv=Conv("str", INT, STR), alias="c_h"),  # the override drops it
        SerM("ordered", INT, "a_plus1", order=-1),  # order metadata on one of them only
        SerM("ext_fn", STR, "k_base", kind="function", alias="ext"),  # external function, overridden
        SerM("kept", INT, "const7"),  # not overridden
    ),
)
OV_CHILD = SObj(
    "dataclass",
    "OvChild",
    OV_BASE.fields + (SFld("b", INT, has_default=True, default=0),),
    base="OvBase",
    own=("b",),
    serialized=S.derive(
        OV_BASE.serialized,
        SerM("child_kind", STR, "k_child", alias="kind"),
        SerM("same_name", STR, "k_child"),
        SerM("plain_over", INT, "a_neg", decorated=False),
        SerM("as_prop", STR, "k_child", kind="property"),
        SerM("prop_here", INT, "a_neg"),
        SerM("with_conv", INT, "a_neg", conv=Conv("str", INT, STR)),
        SerM("conv_here2", Coll("list", INT), "a_list", alias="c_h"),
        SerM("ordered", INT, "a_neg"),
        SerM("ext_fn2", STR, "k_child", kind="function", alias="ext"),
        SerM("added", STR, "k_child", order=5),
    ),
)
# a plain (not re-decorated) subclass overriding, and a third level overriding again / leaving the rest
OV_PLAIN = SObj("dataclass", "OvPlain", OV_BASE.fields, base="OvBase", redecorate=False, serialized=S.derive(OV_BASE.serialized, SerM("kind", STR, "k_other", kind="property"), SerM("kept", INT, "a_neg")))
OV_GRAND = SObj(
    "dataclass",
    "OvGrand",
    OV_CHILD.fields,
    base="OvChild",
    redecorate=False,
    serialized=S.derive(OV_CHILD.serialized, SerM("grand_kind", STR, "k_grand", alias="kind"), SerM("same_name", Opt(STR), "none"), SerM("added", STR, "k_grand", kind="property"), SerM("ext_fn3", STR, "k_grand", kind="function", alias="ext")),
)
# the override on a with_fields_set hierarchy and with an Undefined-able result
OV_FS = SObj("dataclass", "OvFS", (SFld("a", INT), SFld("o", Opt(INT), has_default=True, default=None)), fields_set=True, serialized=(SerM("maybe", INT, "a_plus1"), SerM("lbl", STR, "k_base", alias="label")))
OV_FS2 = SObj("dataclass", "OvFS2", OV_FS.fields, base="OvFS", redecorate=False, serialized=S.derive(OV_FS.serialized, SerM("maybe", INT, "undef_if_a0", undefined=True), SerM("lbl2", STR, "k_child", alias="label")))
# -- skip / none_as_undefined / Undefined ---------------------------------------------------------
SK = SObj(
    "dataclass",
    "SK",
    (
        SFld("bar", AnyT(), skip_ser_if_falsy=True),
        SFld("baz", Coll("list", INT), factory="list", skip_ser_default=True),
        SFld("n", INT, has_default=True, default=3, skip_ser_default=True),
        SFld("both", INT, has_default=True, default=1, skip_ser_default=True, skip_ser_if_falsy=True),
        SFld("hidden", INT, has_default=True, default=1, skip_ser=True),
        SFld("s", STR, has_default=True, default="", skip_ser_if_falsy=True),
    ),
)
# Any-typed fields (None is a value of Any)
ANYF = SObj("dataclass", "AnyF", (SFld("x", AnyT()), SFld("y", AnyT(), has_default=True, default=None), SFld("z", INT, has_default=True, default=0)))
# serialization_default on a None default
SK2 = SObj("dataclass", "SK2", (SFld("on", Opt(INT), has_default=True, default=None, skip_ser_default=True), SFld("k", INT, has_default=True, default=1)))
NU = SObj("dataclass", "NU", (SFld("req", Opt(INT), none_as_undefined=True), SFld("bar", Opt(STR), has_default=True, default=None, none_as_undefined=True), SFld("plain", Opt(STR), has_default=True, default=None)))
UD = SObj(
    "dataclass",
    "UD",
    (
        SFld("r", INT, undefined=True),
        SFld("bar", INT, undefined=True, has_default=True, default_undefined=True),
        SFld("baz", Opt(INT), undefined=True, has_default=True, default_undefined=True),
        SFld("d", STR, undefined=True, has_default=True, default="x"),
    ),
)
# PEP 593 metadata on the whole annotation (Annotated around Optional / Union-with-UndefinedType / plain types),
# for every omission rule, on fields and on serialized-method return types
ANW = SObj(
    "dataclass",
    "ANW",
    (
        SFld("ur", INT, undefined=True, outer=cons(min=0)),
        SFld("n", Ann(Opt(STR), cons(max_len=5))),
        SFld("u", INT, undefined=True, has_default=True, default_undefined=True, outer=cons(min=0)),
        SFld("un", Opt(INT), undefined=True, has_default=True, default_undefined=True, outer=cons(max=100)),
        SFld("nd", Ann(Opt(INT), cons(min=0)), has_default=True, default=None),
        SFld("nu", Ann(Opt(STR), cons(max_len=5)), has_default=True, default=None, none_as_undefined=True),
        SFld("d", Ann(INT, cons(min=0)), has_default=True, default=3),
        SFld("sd", Ann(Opt(INT), cons(max=100)), has_default=True, default=None, skip_ser_default=True),
        SFld("sd1", INT, has_default=True, default=1, skip_ser_default=True, outer=cons(max=100)),
        SFld("sf", Ann(Coll("list", INT), cons(max_items=5)), factory="list", skip_ser_if_falsy=True),
        SFld("on", Ann(Ann(Opt(INT), cons(min=0)), cons(max=50)), has_default=True, default=None),
    ),
    serialized=(
        SerM("m_undef", INT, "undef_if_u_undef", undefined=True, outer=cons(min=0)),
        SerM("m_opt", Ann(Opt(INT), cons(min=0)), "nd_value", kind="property"),
        SerM("m_both", Opt(INT), "nd_or_undef", undefined=True, outer=cons(min=0)),
        SerM("m_plain", Ann(INT, cons(min=0)), "d_value"),
    ),
)
S.BODIES["undef_if_u_undef"] = lambda s: s.u
S.BODIES["nd_value"] = lambda s: s.nd
S.BODIES["nd_or_undef"] = lambda s: S._undefined() if s.d == 3 else s.nd
S.BODIES["d_value"] = lambda s: s.d
# the same wrappers on a with_fields_set class
ANWF = SObj(
    "dataclass",
    "ANWF",
    (
        SFld("a", Ann(INT, cons(min=0))),
        SFld("n", Ann(Opt(STR), cons(max_len=5)), has_default=True, default=None),
        SFld("u", INT, undefined=True, has_default=True, default_undefined=True, outer=cons(min=0)),
        SFld("c", Ann(Opt(INT), cons(min=0)), has_default=True, default=0, default_as_set=True),
    ),
    fields_set=True,
)
# NOT in the pool: the default is Undefined although the annotation does not mention UndefinedType, so an
# instance holding that default is not a value of its own type (outside the premise 'value v of T' of C04 / C07)
UD2 = SObj("dataclass", "UD2", (SFld("a", INT, has_default=True, default_undefined=True), SFld("b", STR, has_default=True, default="x")))
# defaults of every kind (value, None, factory, nested object factory)
DF = SObj(
    "dataclass",
    "DF",
    (
        SFld("i", INT, has_default=True, default=0),
        SFld("o", Opt(INT), has_default=True, default=None),
        SFld("o1", Opt(INT), has_default=True, default=1),
        SFld("l", Coll("list", STR), factory="list"),
        SFld("m", Mapp(STR, INT), factory="dict"),
        SFld("sub", P.A2, factory="obj:A2"),
        SFld("f", FLOAT, has_default=True, default=0.0),
        SFld("t", BOOL, has_default=True, default=False),
    ),
)
# init=False (read-only) fields
RO = SObj("dataclass", "RO", (SFld("a", INT), SFld("ro", INT, has_default=True, default=5, init=False), SFld("ro_l", Coll("list", INT), factory="list", init=False)))
# -- with_fields_set classes ---------------------------------------------------------------
FS1 = SObj(
    "dataclass",
    "FS1",
    (
        SFld("a", INT),
        SFld("b", Opt(STR), has_default=True, default=None),
        SFld("c", INT, has_default=True, default=0, default_as_set=True),
        SFld("d", Coll("list", INT), factory="list"),
        SFld("e", INT, has_default=True, default=2, init=False),
    ),
    fields_set=True,
)
FS2 = SObj(
    "dataclass",
    "FS2",
    (
        SFld("x", INT, has_default=True, default=0, alias="X"),
        SFld("inner", P.A2, factory="obj:A2", flatten=True),
        SFld("u", INT, undefined=True, has_default=True, default_undefined=True),
        SFld("nn", Opt(INT), has_default=True, default=None, none_as_undefined=True),
        SFld("sk", INT, has_default=True, default=4, skip_ser_default=True),
        SFld("extra", Mapp(STR, INT), factory="dict", additional=True),
    ),
    fields_set=True,
)
# inheritance from / to undecorated classes
_FS1F = FS1.fields
FSP = SObj("dataclass", "FSP", _FS1F, base="FS1", redecorate=False, serialized=(SerM("label", STR, "a_str"),))
# NOT in the pool: an undecorated @dataclass subclass is not 'a class decorated with with_fields_set' (premise of C15)
FSD = SObj("dataclass", "FSD", _FS1F + (SFld("z", Opt(INT), has_default=True, default=None),), base="FS1", own=("z",))
UB = SObj("dataclass", "UB", (SFld("a", INT), SFld("b", Opt(STR), has_default=True, default=None)), serialized=(SerM("a_inc", INT, "a_plus1"),))
DS = SObj("dataclass", "DS", UB.fields + (SFld("c", INT, has_default=True, default=0),), base="UB", own=("c",), fields_set=True, serialized=UB.serialized)
SM1S = SObj("dataclass", "SM1S", SM1.fields + (SFld("c", INT, has_default=True, default=0),), base="SM1", own=("c",), serialized=SM1.serialized + (SerM("extra", INT, "const7", kind="property"),))
# a subclass overriding __init__: it assigns its own fields itself (before / after the inherited __init__)
FSC = SObj("dataclass", "FSC", _FS1F + (SFld("tag", STR, has_default=True, default="none"), SFld("late", Opt(INT), has_default=True, default=None)), base="FS1", own=("tag", "late"), custom_init=(("tag", "pre"), ("late", "post")))
FSC2 = SObj("dataclass", "FSC2", _FS1F + (SFld("tag", STR, has_default=True, default="none"),), base="FS1", own=("tag",), custom_init=(("tag", "pre"),), fields_set=True)
# generic with_fields_set class, observed through parametrised aliases
FBOX = SObj("dataclass", "FBox", (SFld("item", TVar()), SFld("label", Opt(STR), has_default=True, default=None), SFld("tags", Coll("list", STR), factory="list")), generic=True, fields_set=True)
HOLD = SObj("dataclass", "Hold", (SFld("box", Spec(FBOX, STR)), SFld("boxes", Coll("list", Spec(FBOX, INT)), factory="list")))
FS3 = SObj("dataclass", "FS3", (SFld("fs", FS1), SFld("fss", Coll("list", FS1), factory="list"), SFld("n", INT, has_default=True, default=0)))
FS4 = SObj("dataclass", "FS4", (SFld("p", P.A2, factory="obj:A2"), SFld("q", Opt(FS1), has_default=True, default=None)), fields_set=True, serialized=(SerM("p_a", INT, "p_a"),))
S.BODIES["p_a"] = lambda s: s.p.a
# -- conversions ---------------------------------------------------------------------------------
C_STR = Conv("str", INT, STR)
C_PAIR = Conv("a_pair", A, Tup((INT, STR)))
C_AB = Conv("a_to_b", A, B)
CV1 = SObj(
    "dataclass",
    "CV1",
    (
        SFld("n", INT, conv=C_STR),
        SFld("xs", Coll("list", INT), factory="list", conv=Conv("len", Coll("list", INT), INT)),
        SFld("o", Opt(INT), has_default=True, default=None, conv=C_STR),
        SFld("ns", Coll("list", INT), factory="list", conv=C_STR),
        SFld("obj", Opt(A), has_default=True, default=None, conv=C_PAIR),
    ),
)
RS = SObj("dataclass", "RS", (Fld("r", INT), Fld("g", INT, has_default=True, default=0)), serializer=Conv("rs_str", Ref("RS"), STR))
RS2 = SObj("dataclass", "RS2", (Fld("r", INT), Fld("g", INT, has_default=True, default=0)), serializer=Conv("rs_a", Ref("RS2"), A))
# "All serializers are naturally inherited"
RSS = SObj("dataclass", "RSS", RS.fields, base="RS", redecorate=False, serializer=RS.serializer)
CV2 = SObj("dataclass", "CV2", (SFld("c", RS), SFld("cs", Coll("list", RS), factory="list"), SFld("d", Opt(RS2), has_default=True, default=None)))
# recursion x conversion: a recursive class with a field conversion from the class itself to a target embedding it again
RSUM = SObj("dataclass", "RSum", (SFld("label", STR), SFld("first_child", Opt(Ref("RN")))))
S.CONV_FUNCS["rn_sum"] = lambda realm, n: realm.built["RSum"](n.name.upper(), n.children[0] if n.children else None)
RN = SObj(
    "dataclass",
    "RN",
    (SFld("name", STR), SFld("children", Coll("list", Ref("RN")), factory="list"), SFld("sibling", Opt(Ref("RN")), has_default=True, default=None, conv=Conv("rn_sum", Ref("RN"), RSUM))),
)
# a TypedDict / class used several times in one type (it is then described once, in $defs)
POST = SObj("dataclass", "Post", (SFld("main_tag", TD3_), SFld("tags", Coll("list", TD3_), factory="list"), SFld("by_name", Mapp(STR, TD3_), factory="dict")))
DYNS = [
    Dyn(A, C_PAIR),
    Dyn(Coll("list", A), C_PAIR),
    Dyn(Opt(A), C_AB),
    Dyn(Mapp(STR, A), C_AB),
    Dyn(Tup((A, INT)), C_PAIR),
    Dyn(Uni((A, STR)), C_PAIR),
    Dyn(INT, C_STR),
    Dyn(Coll("list", INT), C_STR),
    Dyn(P.D, C_PAIR),  # not applied to the fields of a class (dynamic conversions are local)
    Dyn(INT, Conv("int_to_a", INT, A)),
]
# aliaser / class aliaser / flatten with the serialization features
KS = SObj("dataclass", "KS", (SFld("some_field", INT), SFld("other_field", Opt(INT), has_default=True, default=None, none_as_undefined=True), SFld("kept", INT, alias="z_z", no_override_alias=True, has_default=True, default=1)), class_aliaser="prefix")
# snake_case names on fields of every serialization strategy (identity, transforming, optional, aggregate)
AL = SObj(
    "dataclass",
    "AL",
    (
        SFld("plain_int", INT),
        SFld("sub_obj", A),
        SFld("the_color", P.COLOR),
        SFld("with_alias", P.A2, alias="explicit_alias"),
        SFld("sub_list", Coll("list", A), factory="list"),
        SFld("opt_obj", Opt(A), has_default=True, default=None),
        SFld("some_map", Mapp(P.NAME, INT), factory="dict"),
        SFld("a_tuple", Tup((INT, STR)), has_default=True, default=(0, "")),
    ),
)
TD3 = TD3_

SER_OBJECTS: List[TD] = [SM1, SM2, SM3, SM4, ANYF, SK, SK2, NU, UD, DF, RO, FS1, FS2, FS3, FS4, FSP, UB, DS, SM1S, CV1, RS, RS2, RSS, CV2, KS, AL, TD3, FSC, FSC2, RSUM, RN, POST, HOLD, ANW, ANWF, OV_BASE, OV_CHILD, OV_PLAIN, OV_GRAND, OV_FS, OV_FS2]
SER_EXTRA: List[TD] = [
    Coll("list", SM1),
    Opt(SK),
    Mapp(STR, UD),
    Tup((NU, FS1)),
    Coll("list", FS1),
    Uni((FS1, SM2)),
    Coll("list", FSP),
    Opt(DS),
    Uni((RS, INT)),
    Coll("list", OV_BASE),  # holds instances of the declared class only; the subclasses have their own entries
    Tup((OV_BASE, OV_CHILD, OV_GRAND)),
    Coll("list", RSS),
    Uni((Tup((INT, STR)), Tup((INT, STR, BOOL)))),
    Uni((Tup((INT,)), Tup((INT, A)), Coll("list", INT))),
    Coll("set", P.COLOR),
    Coll("frozenset", Tup((INT, STR))),
    Mapp(P.NAME, Coll("list", P.COLOR)),
    Enm("MixedP", (("I", 1), ("S", "s"), ("B", True))),
    Coll("list", TD3),
    Opt(RO),
]


MIXED = Enm("Mixed", (("I", 1), ("S", "s"), ("N", None), ("T", (1, 2))))


def ser_pool(tier: str, conversions: bool = True, for_schema: bool = False) -> List[TD]:
    pool = list(P.type_pool(tier)) + SER_OBJECTS + SER_EXTRA + SPECS
    pool += [Spec(FBOX, INT), Spec(FBOX, Opt(A)), Coll("list", Spec(FBOX, STR)), Tup((P.TD2, Opt(P.TD2))), Coll("list", Tup((TD3, TD3))), Tup((A, Opt(A), Coll("list", A)))]
    if not for_schema:
        # schema generation documents "Only primitive types are supported for Literal/Enum"
        pool.append(MIXED)
    if conversions:
        pool += DYNS
    if tier == "thorough":
        pool += [Coll("list", o) for o in SER_OBJECTS] + [Opt(o) for o in SER_OBJECTS] + [Mapp(STR, o) for o in (SM1, SK, UD, FS2, CV1)]
    return pool


def prepare_realm(realm: M.Realm):
    M.install_typing(realm)
    for o in P.OBJECTS + [P.PQ_Q, P.A2, P.CAT, P.DOG, P.BIRD, P.FISH]:
        M.realize(o, realm)
    for o in SER_OBJECTS:
        S.realize(o, realm)


# ---------------------------------------------------------------------------
# values


class Gen:
    """values of a described type, by construction (constructor calls with every subset shape of
    the optional arguments, attribute assignment for init=False fields, boundary values: default,
    None, Undefined, falsy)"""

    def __init__(self, realm: M.Realm, tier: str, rng: random.Random):
        self.realm, self.tier, self.rng = realm, tier, rng
        self.width = 3 if tier == "quick" else 4
        self.nrand = 4 if tier == "quick" else 16
        self._memo: Dict[Any, List[Any]] = {}

    def values(self, td: TD, depth: int = 0) -> List[Any]:
        key = (td, min(depth, 3))
        try:
            if key in self._memo:
                return self._memo[key]
        except TypeError:
            key = None
        out = [v for v in self._values(td, depth) if S.check_cons(td, v, self.realm)]
        out = _dedupe(out)
        if key is not None:
            self._memo[key] = out
        return out

    def _values(self, td: TD, depth: int) -> List[Any]:
        U = S._undefined()
        w = self.width if depth == 0 else 2
        if isinstance(td, Dyn):
            return self.values(td.t, depth)
        if isinstance(td, Spec):
            return self.values(S.subst(td.obj, td.arg), depth)
        if isinstance(td, Prim):
            return {"int": [7, 0, -1], "float": [2.5, 0.0, 1.0], "str": ["ab", "", "a"], "bool": [True, False], "none": [None]}[td.name]
        if isinstance(td, AnyT):
            a = self.realm.built["A"](3, "y")
            color = self.realm.built.get("Color")
            vals: List[Any] = [1, "a", [1, "b", None], {"k": [1, (2, 3)], "l": {"m": 1.5}}, (1, "t"), None, 0, "", True, 2.5, a, [a], {"a": a}, {1, 2}]
            if color is not None:
                vals += [color.R, [color.G], {"c": color.R}]
            return vals
        if isinstance(td, (Ann, NewT)):
            base = list(self.values(td.t, depth))
            c = td.cons
            if c:
                t = S.strip(td.t, self.realm)
                for x in P._cons_samples(t, dict(c.kw)):
                    x = _coerce_to(t, x, self)
                    if x is not _SKIP and S.conforms(td.t, x, self.realm) and S.check_cons(td.t, x, self.realm):
                        base.append(x)
            return base
        if isinstance(td, Ref):
            return self.values(self.realm.descs[td.name], depth + 1)
        if isinstance(td, Opt):
            return self.values(td.t, depth)[:w] + [None]
        if isinstance(td, Uni):
            return [v for a in td.alts for v in self.values(a, depth)[:2]]
        if isinstance(td, Coll):
            xs = self.values(td.t, depth + 1)
            seqs = [[], xs[:1], xs[:2], xs[1:2] * 2, xs[: w + 1]]
            mk: List[Any] = {
                "list": [list],
                "sequence": [list, tuple],
                "collection": [list, tuple, _try_set],
                "mutableseq": [list],
                "set": [_try_set],
                "abstractset": [_try_set, _try_frozenset],
                "frozenset": [_try_frozenset],
                "tuplevar": [tuple],
            }[td.kind]
            out = []
            for m in mk:
                for s in seqs:
                    v = m(s)
                    if v is not _SKIP:
                        out.append(v)
            return out
        if isinstance(td, Tup):
            firsts = [self.values(e, depth + 1) for e in td.elts]
            out = [tuple(f[0] for f in firsts)]
            for i, f in enumerate(firsts):
                for x in f[1:w]:
                    out.append(tuple(x if j == i else g[0] for j, g in enumerate(firsts)))
            return out
        if isinstance(td, Mapp):
            ks = [k for k in self.values(td.k, depth + 1) if _hashable(k)]
            vs = self.values(td.v, depth + 1)
            out = [{}, {ks[0]: vs[0]}]
            if len(ks) > 1:
                out.append({ks[0]: vs[0], ks[1]: vs[-1]})
                out.append({k: vs[i % len(vs)] for i, k in enumerate(ks[:w])})
            if td.kind == "mapping":
                out += [pytypes.MappingProxyType(dict(d)) for d in out[:2]]
            return out
        if isinstance(td, Lit):
            return list(td.values)
        if isinstance(td, Enm):
            S.realize(td, self.realm)
            return list(self.realm.built[td.name])
        if isinstance(td, Disc):
            return [v for a in td.alts for v in self.values(a, depth + 1)[: w + 1]]
        if isinstance(td, Obj):
            return self._obj_values(td, depth)
        raise TypeError(td)

    def shallow(self, td: TD) -> Any:
        """one smallest value (ends the recursion of recursive types)"""
        if isinstance(td, (Opt,)) or (isinstance(td, Prim) and td.name == "none"):
            return None
        if isinstance(td, Coll):
            return self.values(Coll(td.kind, INT), 9)[0]
        if isinstance(td, Mapp):
            return {}
        if isinstance(td, Spec):
            return self.shallow(S.subst(td.obj, td.arg))
        if isinstance(td, (Ann, NewT, Dyn)):
            return self.shallow(td.t)
        if isinstance(td, Ref):
            return self.shallow(self.realm.descs[td.name])
        if isinstance(td, Uni):
            return self.shallow(td.alts[0])
        if isinstance(td, Disc):
            return self.shallow(td.alts[0])
        if isinstance(td, Tup):
            return tuple(self.shallow(e) for e in td.elts)
        if isinstance(td, Obj):
            S.realize(td, self.realm)
            req = {f.name: self.shallow(f.t) for f in td.fields if (f.td_required if td.kind == "typeddict" else (f.required and f.init))}
            if td.kind == "typeddict":
                return req
            v = self.realm.built[td.name](**req)
            if S.tracks(td, self.realm):
                S.expect_set(self.realm, v, set(req) | S.always_set(td))
            return v
        return self.values(td, 9)[0]

    def field_values(self, td: Obj, f: Fld, depth: int) -> List[Any]:
        t = S.field_type(f)
        base = list(self.values(t, depth + 1))
        if f.pattern is not None:
            # a pattern-properties field holds the properties whose name matches the pattern
            import re

            pat = re.compile(f.pattern)
            stem = f.pattern.lstrip("^").rstrip("$")
            vs = self.values(S.strip(f.t, self.realm).v, depth + 2)
            base = [m for m in base if all(isinstance(k, str) and pat.match(k) for k in m)]
            for m in ({stem + "1": vs[0]}, {stem + "1": vs[0], stem + "_b": vs[-1]}):
                if all(pat.match(k) for k in m):
                    base.insert(0, m)
        out = base[: self.width + 1]
        # boundary values of the omission rule: falsy, None, default, Undefined
        for x in base:
            if not x and not any(type(y) is type(x) and y == x for y in out):
                out.append(x)
        if S.has_default(td, f):
            d = S.default_value(f, self.realm)
            if not any(type(y) is type(d) and S._eq(y, d) for y in out):
                out.append(d)
        if getattr(f, "undefined", False):
            out.append(S._undefined())
        return out

    def _obj_values(self, td: Obj, depth: int) -> List[Any]:
        realm = self.realm
        S.realize(td, realm)
        if depth >= 3:
            return [self.shallow(td)]
        cand = {f.name: self.field_values(td, f, depth) for f in td.fields}
        if td.kind == "typeddict":
            full = {f.name: cand[f.name][0] for f in td.fields}
            out: List[Any] = [dict(full)]
            req = {f.name: full[f.name] for f in td.fields if f.td_required}
            # additional keys early, so that they also occur when the TypedDict is nested
            out.append({**req, "extra_key": [1, (2, "t")], "zz": None})
            if req != full:
                out.append(dict(req))
            if depth < 2:
                for f in td.fields:
                    for x in cand[f.name][1:]:
                        out.append({**full, f.name: x})
                out.append({**full, "zz": 1})
            return out
        cls = realm.built[td.name]
        init = [f for f in td.fields if f.init]
        post = [f for f in td.fields if not f.init]

        is_tracked = S.tracks(td, realm)

        def build(kwargs, assign=None):
            v = cls(**kwargs)
            for k, x in (assign or {}).items():
                setattr(v, k, x)
            if is_tracked:
                # the documented tracked set of this value: arguments given + default_as_set + init=False + assigned
                S.expect_set(realm, v, set(kwargs) | S.always_set(td) | set(assign or ()))
            return v

        def mark(v, op, *names):
            """set_fields / unset_fields on a built value, with the documented effect on its set"""
            from apischema.fields import set_fields, unset_fields

            cur = S.expected_tracked(realm, v)
            (set_fields if op == "set" else unset_fields)(v, *names)
            S.expect_set(realm, v, (cur | set(names)) if op == "set" else (cur - set(names)))
            return v

        full = {f.name: cand[f.name][0] for f in init}
        minimal = {f.name: full[f.name] for f in init if f.required}
        out = [build(full)]
        if minimal != full:
            out.append(build(minimal))
        if depth >= 2:
            return out
        for f in init:
            for x in cand[f.name][1:]:
                out.append(build({**full, f.name: x}))
                if is_tracked and not f.required:
                    out.append(build({**minimal, f.name: x}))
            if not f.required:
                out.append(build({k: x for k, x in full.items() if k != f.name}))
        for f in post:
            for x in cand[f.name]:
                out.append(build(full, {f.name: x}))
                out.append(build(minimal, {f.name: x}))
        for _ in range(self.nrand if depth == 0 else 1):
            kwargs = {f.name: self.rng.choice(cand[f.name]) for f in init if f.required or self.rng.random() < 0.6}
            assign = {f.name: self.rng.choice(cand[f.name]) for f in post if self.rng.random() < 0.5}
            out.append(build(kwargs, assign))
        if is_tracked:
            # the tracked set is part of the value: also values whose fields were marked unset / set
            optional = [f.name for f in td.fields if not f.required or not f.init]
            for f in td.fields:
                if f.name in optional:
                    out.append(mark(build(full), "unset", f.name))
                    out.append(mark(build(minimal), "set", f.name))
            out.append(mark(build(full), "unset", *optional))
            out.append(mark(build(minimal), "set", *[f.name for f in td.fields]))
        return out


_SKIP = object()


def _hashable(x) -> bool:
    try:
        hash(x)
        return True
    except TypeError:
        return False


def _try_set(xs):
    return set(xs) if all(map(_hashable, xs)) else _SKIP


def _try_frozenset(xs):
    return frozenset(xs) if all(map(_hashable, xs)) else _SKIP


def _coerce_to(t: TD, x, gen: "Gen"):
    """a boundary sample of the constraint, as a Python value of the described type"""
    if isinstance(t, Prim):
        if t.name == "float" and type(x) in (int, float):
            return float(x)
        return x
    if isinstance(t, Coll) and isinstance(x, list):
        m = {"list": list, "sequence": list, "collection": list, "mutableseq": list, "set": _try_set, "abstractset": _try_set, "frozenset": _try_frozenset, "tuplevar": tuple}[t.kind]
        if isinstance(S.strip(t.t, gen.realm), Prim) and S.strip(t.t, gen.realm).name == "float":
            x = [float(y) for y in x]
        return m(x)
    if isinstance(t, (Uni, AnyT, Mapp)):
        return x
    return _SKIP


def describe(v) -> str:
    """a printable identification of a value, including the tracked field set"""
    r = canon(v)
    fs = _tracked_deep(v)
    return r + (f" set={fs}" if fs else "")


def canon(v) -> str:
    """repr with the elements of sets in a fixed order (independent of string hashing)"""
    if isinstance(v, (set, frozenset)):
        body = ", ".join(sorted(canon(x) for x in v))
        return ("{" + body + "}" if v else "set()") if isinstance(v, set) else "frozenset({" + body + "})"
    if type(v) is list:
        return "[" + ", ".join(canon(x) for x in v) + "]"
    if type(v) is tuple:
        return "(" + ", ".join(canon(x) for x in v) + ("," if len(v) == 1 else "") + ")"
    if type(v) is dict:
        return "{" + ", ".join(f"{canon(k)}: {canon(x)}" for k, x in v.items()) + "}"
    return repr(v)


def _tracked_deep(v, depth=0) -> str:
    import dataclasses

    if depth > 3:
        return ""
    parts = []
    t = S.tracked(v) if dataclasses.is_dataclass(v) and not isinstance(v, type) else None
    if t is not None:
        parts.append("{" + ",".join(sorted(t)) + "}")
    if dataclasses.is_dataclass(v) and not isinstance(v, type):
        for f in dataclasses.fields(v):
            s = _tracked_deep(getattr(v, f.name, None), depth + 1)
            if s:
                parts.append(f"{f.name}:{s}")
    elif isinstance(v, (list, tuple)):
        for i, x in enumerate(v):
            s = _tracked_deep(x, depth + 1)
            if s:
                parts.append(f"{i}:{s}")
    elif isinstance(v, dict):
        for k, x in v.items():
            s = _tracked_deep(x, depth + 1)
            if s:
                parts.append(f"{k}:{s}")
    return " ".join(parts)


def _dedupe(vals: List[Any]) -> List[Any]:
    seen = set()
    out = []
    for v in vals:
        k = (type(v).__name__, describe(v))
        if k not in seen:
            seen.add(k)
            out.append(v)
    return out
