"""C09 -- configuration histories against a cold start (B).

A *history* is a finite sequence of configuration operations (settings assignments, registrations,
removals) interleaved with observations (deserialize / serialize / deserialization_method /
serialization_method obtained *after* the change / both JSON schemas) on a small *world* of fresh
classes, one group of classes per registry.  The statement's oracle is a cold start with the same
final configuration: it is computed by a pristine interpreter (a "zygote" process that has
imported apischema and never used it, forked once per request) which builds its own world, replays
only the configuration operations, and makes every observation block after an
`apischema.cache.reset()` (so that the expected value of an observation does not depend on the
other observations either).  The warm process never resets the caches between operations; at the
end of a history it calls `apischema.cache.reset()` and observes again (OBSERVE AT of the property).

Nothing here looks at how apischema invalidates its caches: an operation is just a call of the
public API, the expected result is what a fresh interpreter answers.
"""
from __future__ import annotations

import copy
import itertools
import json
import operator
import os
import random
import re
import shutil
import subprocess
import sys
import tempfile
import time
import types as pytypes
from typing import Any, Callable, Dict, List, Optional, Sequence, Tuple

# ---------------------------------------------------------------------------
# the world: one group of classes per registry; every group is a real source file (validators
# need inspect.getsource) executed again for every history, so that every history has fresh classes

GROUPS: Dict[str, str] = {}

GROUPS["foo"] = '''
from dataclasses import dataclass, field
from typing import List, Optional
from apischema import schema
from apischema.fields import with_fields_set

@with_fields_set
@dataclass
class FS:
    a: int = 0
    b: Optional[int] = None

@dataclass
class Foo:
    foo_bar: int = field(default=0, metadata=schema(min=0))
    baz: Optional[str] = None

@dataclass
class Wrap:
    foo: Foo = field(default_factory=Foo)
    foos: List[Foo] = field(default_factory=list)

def foo_from_int(i: int) -> Foo:
    return Foo(i, "from_int")

def foo_to_int(f: Foo) -> int:
    return f.foo_bar

OBS = [
    ("Foo", Foo, [{"foo_bar": 1}, {"fooBar": 2}, {"FOO_BAR": 3, "BAZ": "u"}, {"foo_bar": -1}, {"foo_bar": "4"}, {"foo_bar": "four"},
                  {"foo_bar": 1, "extra": 2}, {"foo_bar": "x", "baz": None}, 5, {}, [], Foo(7, "instance")],
     [Foo(1, "s"), Foo(), Foo("notint")]),
    ("Wrap", Wrap, [{"foo": {"foo_bar": 1}, "foos": [{"foo_bar": 2}, 7]}, {"FOO": {"FOO_BAR": 1}}, {}], [Wrap(Foo(2), [Foo(3, "z")]), Wrap()]),
    ("FS", FS, [{"a": 1}], [FS(a=1), FS(b=None)]),
]
'''

GROUPS["cons"] = '''
from dataclasses import dataclass, field
from typing import Dict, List, Literal
from apischema import schema

@dataclass
class Cons:
    req: int
    mn: int = field(default=5, metadata=schema(min=5))
    mx: int = field(default=0, metadata=schema(max=5))
    emn: int = field(default=6, metadata=schema(exc_min=5))
    emx: int = field(default=0, metadata=schema(exc_max=5))
    mult: int = field(default=0, metadata=schema(mult_of=5))
    minl: str = field(default="abc", metadata=schema(min_len=2))
    maxl: str = field(default="", metadata=schema(max_len=2))
    pat: str = field(default="a", metadata=schema(pattern="^a"))
    mini: List[int] = field(default_factory=lambda: [1], metadata=schema(min_items=1))
    maxi: List[int] = field(default_factory=list, metadata=schema(max_items=1))
    uniq: List[int] = field(default_factory=list, metadata=schema(unique=True))
    minp: Dict[str, int] = field(default_factory=lambda: {"a": 1}, metadata=schema(min_props=1))
    maxp: Dict[str, int] = field(default_factory=dict, metadata=schema(max_props=1))
    lit: Literal[1, 2] = 1

BAD = {"mn": 1, "mx": 9, "emn": 5, "emx": 5, "mult": 3, "minl": "a", "maxl": "abc", "pat": "b", "mini": [], "maxi": [1, 2],
       "uniq": [1, 1], "minp": {}, "maxp": {"a": 1, "b": 2}, "lit": 3, "zzz": 0}
OBS = [("Cons", Cons, [BAD, {"req": 1}], [Cons(1)])]
'''

GROUPS["ext"] = '''
from dataclasses import dataclass
from typing import List

class Ext:
    def __init__(self, v=0, w=0):
        self.v = v
        self.w = w

    def __repr__(self):
        return f"Ext({self.v!r}, {self.w!r})"

def ext_from_int(v: int) -> Ext:
    return Ext(v)

def ext_from_str(s: str) -> Ext:
    return Ext(len(s), 1)

def ext_to_int(e: Ext) -> int:
    return e.v

def ext_to_str(e: Ext) -> str:
    return "ext%s" % e.v

@dataclass
class ExtHolder:
    e: Ext

OBS = [
    ("Ext", Ext, [1, "ab", {"v": 3}, {"v": 3, "w": 4}], [Ext(5, 6)]),
    ("ExtHolder", ExtHolder, [{"e": 1}, {"e": "abc"}, {"e": {"v": 1}}], [ExtHolder(Ext(7))]),
    ("ListExt", List[Ext], [[1, "a"]], [[Ext(1)]]),
]
'''

GROUPS["nt"] = '''
from dataclasses import dataclass, field
from typing import List, NewType

NT = NewType("NT", int)

@dataclass
class NTHolder:
    n: NT = 0
    ns: List[NT] = field(default_factory=list)

OBS = [
    ("NT", NT, [0, 4, 7, "x"], [4]),
    ("NTHolder", NTHolder, [{"n": 0, "ns": [4, 7]}, {"n": 7}], [NTHolder(4, [0])]),
]
'''

GROUPS["ca"] = '''
from dataclasses import dataclass, field
from apischema import alias

@dataclass
class CA:
    some_name: int = 0
    other: int = field(default=0, metadata=alias("fixed"))
    kept: int = field(default=0, metadata=alias("kept_as_is", override=False))

OBS = [("CA", CA, [{"some_name": 1}, {"SOME_NAME": 1, "FIXED": 2}, {"someName": 1, "fixed": 2}, {"kept_as_is": 3, "KEPT_AS_IS": 4}], [CA(1, 2, 3)])]
'''

GROUPS["o"] = '''
from dataclasses import dataclass

@dataclass
class O:
    a: int = 0
    b: int = 0
    c: int = 0

@dataclass
class OSub(O):
    d: int = 0

OBS = [("O", O, [{"a": 1, "b": 2, "c": 3}], [O(1, 2, 3)]), ("OSub", OSub, [{"d": 4}], [OSub(1, 2, 3, 4)])]
'''

GROUPS["v"] = '''
from dataclasses import dataclass
from apischema import ValidationError

@dataclass
class V:
    x: int = 0
    y: int = 0

@dataclass
class VSub(V):
    z: int = 0

def v_lt(self):
    if self.x > self.y:
        raise ValidationError("x > y")

def v_pos(self):
    if self.x < 0:
        yield "x", "negative"

OBS = [("V", V, [{"x": 2, "y": 1}, {"x": -1, "y": 0}, {"x": 1, "y": 2}], [V(2, 1)]), ("VSub", VSub, [{"x": 2, "y": 1, "z": 0}], [])]
'''

GROUPS["dr"] = '''
from dataclasses import dataclass
from typing import Optional

@dataclass
class DR:
    a: Optional[int] = None
    b: Optional[int] = None
    c: Optional[int] = None

OBS = [("DR", DR, [{"a": 1}, {"b": 1}, {"c": 1}, {"a": 1, "b": 2}, {}], [DR(1)])]
'''

GROUPS["animal"] = '''
from dataclasses import dataclass
from typing import Optional

@dataclass
class Animal:
    name: str = ""

@dataclass
class Cat(Animal):
    lives: int = 9

@dataclass
class Dog(Animal):
    good: bool = True

@dataclass
class Zoo:
    pet: Optional[Animal] = None

OBS = [
    ("Animal", Animal, [{"name": "a"}, {"kind": "Cat", "name": "c", "lives": 3}, {"type": "kitty", "lives": 1}, {"kind": "Dog"}, {"type": "Dog", "good": False}],
     [Animal("a"), Cat("c", 3), Dog("d")]),
    ("Cat", Cat, [{"name": "c", "lives": 2}, {"kind": "Cat", "lives": 2}], [Cat("c", 2)]),
    ("Zoo", Zoo, [{"pet": {"kind": "Cat"}}, {"pet": {"name": "z"}}], [Zoo(Cat("c", 1)), Zoo()]),
]
'''

GROUPS["s"] = '''
from dataclasses import dataclass
from apischema import serialized

@dataclass
class S:
    x: int = 1

    @serialized
    def own(self) -> int:
        return self.x + 1

@dataclass
class SSub(S):
    y: int = 2

def s_double(self) -> int:
    return self.x * 2

def s_triple(self) -> str:
    return "t%s" % (self.x * 3)

OBS = [("S", S, [{"x": 3}], [S(4)]), ("SSub", SSub, [{"x": 3, "y": 1}], [SSub(5, 6)])]
'''

GROUPS["rec"] = '''
from dataclasses import dataclass, field
from typing import List, Optional

class Node:
    """a plain class: its fields (hence whether it is recursive) are given by set_object_fields"""
    def __init__(self, value=0, child=None):
        self.value = value
        self.child = child

    def __repr__(self):
        return f"Node({self.value!r}, {self.child!r})"

@dataclass
class Leaf:
    n: int = 0

@dataclass
class Tree:
    """not recursive, until a conversion Leaf <-> Tree is registered"""
    leaf: Optional[Leaf] = None
    leaves: List[Leaf] = field(default_factory=list)

@dataclass
class Rec:
    """statically recursive"""
    some_val: int = 0
    next: Optional["Rec"] = None

def leaf_from_tree(t: Tree) -> Leaf:
    return Leaf(len(t.leaves) + 100)

def leaf_to_tree(l: Leaf) -> Tree:
    return Tree(None, [Leaf(7)] * l.n) if l.n < 3 else Tree()

OBS = [
    ("Node", Node, [{"value": 5}, {"value": 1, "child": {"value": 2, "child": None}}], [Node(5), Node(1, Node(2))]),
    ("Tree", Tree, [{"leaf": {"n": 1}}, {"leaf": {"leaf": {"n": 1}, "leaves": [{"n": 2}]}}], [Tree(Leaf(1), [Leaf(2)])]),
    ("Leaf", Leaf, [{"n": 1}, {"leaves": [{"n": 1}]}], [Leaf(2)]),
    ("Rec", Rec, [{"some_val": 1, "next": {"some_val": 2}}, {"someVal": 1, "next": {"someVal": 2, "extra": 0}}], [Rec(1, Rec(2))]),
]
'''

GROUPS["raw"] = '''
from typing import Any, Dict, List, Optional, Tuple

OBS = [
    ("ListInt", List[int], [[1, 2], ["1", 2], [1, None]], [[1, 2], (1, 2)]),
    ("DictAny", Dict[str, Any], [{"a": [1, {"b": 2}]}], [{"a": [1, (2, 3)], "b": None}]),
    ("OptInt", Optional[int], [None, "", "5", "four", 3], [None, 3, "s"]),
    ("Tup", Tuple[int, str], [[1, "a"], [1, 2]], [(1, "a")]),
]
'''

GROUPS["inh"] = '''
from dataclasses import dataclass
from typing import Generic, List, Optional, TypeVar
from apischema import ValidationError

T = TypeVar("T")

@dataclass
class DBase:
    """registrations on the base class are observed on the subclass, and conversely"""
    some_x: int = 0
    a: Optional[int] = None
    b: Optional[int] = None

@dataclass
class DSub(DBase):
    y: int = 0

@dataclass
class DSubSub(DSub):
    z: int = 0

@dataclass
class DHolder:
    base: Optional[DBase] = None
    sub: Optional[DSub] = None

@dataclass
class G(Generic[T]):
    item: T

def dbase_to_int(d: DBase) -> int:
    return d.some_x

def dsub_to_str(d: DSub) -> str:
    return "sub%s" % d.y

def dbase_from_int(i: int) -> DBase:
    return DBase(i)

def dsub_from_str(s: str) -> DSub:
    return DSub(len(s), None, None, 1)

def g_from_list(l: List[T]) -> G[T]:
    return G(l[0])

def g_to_list(g: G[T]) -> List[T]:
    return [g.item]

def d_neg(self):
    if self.some_x < 0:
        raise ValidationError("negative")

def d_big(self):
    if self.some_x > 100:
        raise ValidationError("big")

def d_plus(self) -> int:
    return self.some_x + 10

def d_str(self) -> str:
    return "s%s" % self.some_x

OBS = [
    ("DBase", DBase, [{"some_x": 1}, {"SOME_X": -1, "A": 1}, {"some-x": 200, "b": 1}, 5, {"kind": "DSub", "y": 2}], [DBase(1, 2), DSub(3, None, 4, 5)]),
    ("DSub", DSub, [{"some_x": 1, "y": 2}, {"SOME_X": -1, "Y": 1, "A": 1}, {"some_x": 200, "b": 1}, "abc", 5], [DSub(1, None, 2, 3), DSubSub(1, None, None, 2, 3)]),
    ("DSubSub", DSubSub, [{"some_x": -1, "z": 1, "a": 1}, 5, "abc"], [DSubSub(1, 2, None, 3, 4)]),
    ("DHolder", DHolder, [{"base": {"some_x": 1}, "sub": {"y": 1}}, {"base": 1, "sub": "ab"}], [DHolder(DBase(1), DSub(2)), DHolder(DSub(5))]),
    ("G[int]", G[int], [{"item": 1}, [2, 3]], [G(1)]),
    ("List[G[str]]", List[G[str]], [[{"item": "a"}, ["b"]]], [[G("a")]]),
]
'''

GROUPS["union"] = '''
from dataclasses import dataclass
from typing import Union

@dataclass
class UA:
    x: int = 0

@dataclass
class UB:
    x: int = 0

OBS = [("UA|UB", Union[UA, UB], [{"x": 1}], [UA(1), UB(2)]), ("UB|UA", Union[UB, UA], [{"x": 1}], [UA(1), UB(2)])]
'''

MODPREFIX = "c09_world_"
_ADDR = re.compile(r" at 0x[0-9a-fA-F]+|0x[0-9a-fA-F]{6,}")


class WorldFactory:
    def __init__(self, directory: Optional[str] = None):
        self.own = directory is None
        self.dir = directory or tempfile.mkdtemp(prefix="c09-world-")
        self.code = {}
        for g, src in GROUPS.items():
            path = os.path.join(self.dir, f"{MODPREFIX}{g}.py")
            if self.own:
                with open(path, "w") as f:
                    f.write(src)
            self.code[g] = compile(src, path, "exec", dont_inherit=True)

    def build(self, groups: Sequence[str]) -> Dict[str, dict]:
        w = {}
        for g in groups:
            name = MODPREFIX + g
            mod = pytypes.ModuleType(name)
            mod.__file__ = os.path.join(self.dir, name + ".py")
            sys.modules[name] = mod  # replaced for every history: same module name, fresh classes
            exec(self.code[g], mod.__dict__)
            w[g] = mod.__dict__
        return w

    def dispose(self):
        for g in GROUPS:
            sys.modules.pop(MODPREFIX + g, None)
        if self.own:
            shutil.rmtree(self.dir, ignore_errors=True)


# ---------------------------------------------------------------------------
# observations


def _norm(x) -> str:
    try:
        return json.dumps(x, default=lambda o: "<" + _ADDR.sub("", repr(o)) + ">")
    except Exception:
        return _ADDR.sub("", repr(x))


def _outcome(thunk) -> str:
    from apischema import ValidationError

    try:
        r = thunk()
    except ValidationError as e:
        try:
            return "ValidationError " + _norm(e.errors)
        except Exception as e2:
            return "ValidationError <errors: " + type(e2).__name__ + ">"
    except RecursionError:
        return "RecursionError"
    except Exception as e:
        return type(e).__name__ + " " + _ADDR.sub("", str(e))[:400]
    return "ok " + _norm(r)


KINDS = ("des", "desm", "ser", "serm", "dsch", "ssch")


def observe_block(tp, data, values, kind: str) -> Dict[str, str]:
    """one observation block = every call of one kind on one type"""
    from apischema import deserialization_method, deserialize, serialization_method, serialize
    from apischema.json_schema import deserialization_schema, serialization_schema

    out = {}
    if kind == "des":
        for i, d in enumerate(data):
            out[f"des[{i}]"] = _outcome(lambda: deserialize(tp, copy.deepcopy(d)))
            out[f"des[{i}]/coerce"] = _outcome(lambda: deserialize(tp, copy.deepcopy(d), coerce=True))
        if data:
            d = data[0]
            out["des[0]/same-object"] = _outcome(lambda: (lambda x: deserialize(tp, x) is x)(copy.deepcopy(d)))
    elif kind == "desm":
        if data:
            out["desm[0]"] = _outcome(lambda: deserialization_method(tp)(copy.deepcopy(data[0])))
    elif kind == "ser":
        for i, v in enumerate(values):
            out[f"ser[{i}]"] = _outcome(lambda: serialize(tp, v))
            out[f"ser[{i}]/check_type"] = _outcome(lambda: serialize(tp, v, check_type=True))
        if values:
            out["ser[0]/any"] = _outcome(lambda: serialize(values[0]))
            out["ser[0]/same-object"] = _outcome(lambda: serialize(tp, values[0]) is values[0])
    elif kind == "serm":
        if values:
            out["serm[0]"] = _outcome(lambda: serialization_method(tp)(values[0]))
    elif kind == "dsch":
        out["dsch"] = _outcome(lambda: deserialization_schema(tp))
    elif kind == "ssch":
        out["ssch"] = _outcome(lambda: serialization_schema(tp))
    return out


def observe(world: Dict[str, dict], groups: Sequence[str], reset_each_type: bool = False, kinds: Sequence[str] = KINDS) -> Dict[str, str]:
    import apischema

    out: Dict[str, str] = {}
    for g in groups:
        for label, tp, data, values in world[g]["OBS"]:
            if reset_each_type:
                apischema.cache.reset()
            for kind in kinds:
                for k, v in observe_block(tp, data, values, kind).items():
                    out[f"{g}.{label}.{k}"] = v
    return out


# ---------------------------------------------------------------------------
# settings snapshot / restore


def _settings_classes():
    from apischema import settings

    return {"settings": settings, "settings.errors": settings.errors, "settings.base_schema": settings.base_schema, "settings.deserialization": settings.deserialization, "settings.serialization": settings.serialization}


def snapshot_settings() -> Dict[Tuple[str, str], Any]:
    snap = {}
    for cname, cls in _settings_classes().items():
        for k, v in vars(cls).items():
            if k.startswith("__") or isinstance(v, (type, property)):
                continue
            snap[(cname, k)] = v
    return snap


def restore_settings(snap) -> None:
    classes = _settings_classes()
    for (cname, k), v in snap.items():
        if vars(classes[cname]).get(k, None) is not v:
            setattr(classes[cname], k, v)


# ---------------------------------------------------------------------------
# the operation alphabet


def upper(s: str) -> str:
    return s.upper()


def ident2(s: str) -> str:
    return s


class Op:
    def __init__(self, name: str, family: str, groups: Sequence[str], apply: Callable[[Dict[str, dict]], Any], target: str):
        # target: the configuration cell the operation writes (one settings attribute, one registry key)
        self.name, self.family, self.groups, self.apply, self.target = name, family, tuple(groups), apply, target

    def __repr__(self):
        return self.name


def build_ops() -> List[Op]:
    import apischema
    from apischema import alias, dependent_required, deserializer, discriminator, order, schema, serialized, serializer, settings, type_name, validator
    from apischema.conversions import Conversion, reset_deserializers, reset_serializer
    from apischema.json_schema import JsonSchemaVersion
    from apischema.objects import ObjectField, set_object_fields
    from apischema.serialization import PassThroughOptions
    from apischema.type_names import TypeName

    default = snapshot_settings()
    D = lambda c, k: default[(c, k)]  # noqa: E731
    ops: List[Op] = []

    def add(name, family, groups, fn, target=None):
        ops.append(Op(name, family, groups, fn, target or name.split("=")[0]))

    def setter(cls, attr, value):
        return lambda w: setattr(cls, attr, value)

    # -- settings (top level) ----------------------------------------------------------
    add("settings.additional_properties=True", "settings", ["foo", "rec"], setter(settings, "additional_properties", True))
    add("settings.additional_properties=False", "settings", ["foo"], setter(settings, "additional_properties", False))
    add("settings.aliaser=upper", "settings", ["foo", "ca"], setter(settings, "aliaser", upper))
    add("settings.aliaser=identity", "settings", ["foo", "ca"], setter(settings, "aliaser", ident2))
    add("settings.camel_case=True", "settings", ["foo", "ca", "rec"], setter(settings, "camel_case", True), target="settings.aliaser")
    add("settings.camel_case=False", "settings", ["foo", "ca"], setter(settings, "camel_case", False), target="settings.aliaser")

    def custom_object_fields(cls):
        if cls.__name__ == "Ext":
            return [ObjectField("v", int)]
        return D("settings", "default_object_fields")(cls)

    add("settings.default_object_fields=custom", "settings", ["ext"], setter(settings, "default_object_fields", custom_object_fields))
    add("settings.default_object_fields=default", "settings", ["ext"], setter(settings, "default_object_fields", D("settings", "default_object_fields")))

    def custom_type_name(tp):
        d = D("settings", "default_type_name")(tp)
        if d is not None and d.json_schema:
            return TypeName("X" + d.json_schema, "X" + (d.graphql or d.json_schema))
        return d

    add("settings.default_type_name=custom", "settings", ["foo", "nt"], setter(settings, "default_type_name", custom_type_name))
    add("settings.default_type_name=default", "settings", ["foo", "nt"], setter(settings, "default_type_name", D("settings", "default_type_name")))
    for vn in ("DRAFT_7", "OPEN_API_3_0", "DRAFT_2020_12"):
        add(f"settings.json_schema_version={vn}", "settings", ["foo", "dr", "nt"], setter(settings, "json_schema_version", getattr(JsonSchemaVersion, vn)))

    # -- settings.errors -------------------------------------------------------------------
    for attr in sorted(k for (c, k) in default if c == "settings.errors"):
        grp = ["cons"]
        add(f"settings.errors.{attr}=custom", "errors", grp, setter(settings.errors, attr, f"custom {attr} {{}}" if "{}" in str(D("settings.errors", attr)) else f"custom {attr}"))
        add(f"settings.errors.{attr}=default", "errors", grp, setter(settings.errors, attr, D("settings.errors", attr)))
    add("settings.errors.minimum=callable", "errors", ["cons", "foo"], setter(settings.errors, "minimum", lambda constraint, data: f"{data} below {constraint}"), target="settings.errors.minimum")

    # -- settings.base_schema ----------------------------------------------------------------
    def bs_field(tp, name, alias_):
        return schema(description=f"field {name}/{alias_}")

    def bs_method(tp, func, alias_):
        return schema(description=f"method {alias_}")

    def bs_type(tp):
        return schema(title=tp.__name__.lower()) if isinstance(tp, type) and hasattr(tp, "__dataclass_fields__") else None

    add("settings.base_schema.field=custom", "base_schema", ["foo"], setter(settings.base_schema, "field", bs_field))
    add("settings.base_schema.field=default", "base_schema", ["foo"], setter(settings.base_schema, "field", D("settings.base_schema", "field")))
    add("settings.base_schema.method=custom", "base_schema", ["s"], setter(settings.base_schema, "method", bs_method))
    add("settings.base_schema.method=default", "base_schema", ["s"], setter(settings.base_schema, "method", D("settings.base_schema", "method")))
    add("settings.base_schema.type=custom", "base_schema", ["foo"], setter(settings.base_schema, "type", bs_type))
    add("settings.base_schema.type=default", "base_schema", ["foo"], setter(settings.base_schema, "type", D("settings.base_schema", "type")))

    # -- settings.deserialization ------------------------------------------------------------------
    sd = settings.deserialization

    def custom_coercer(cls, data):
        if cls is int and data == "four":
            return 4
        return D("settings.deserialization", "coercer")(cls, data)

    def custom_deser_conv(tp):
        if getattr(tp, "__name__", None) == "Ext":
            return Conversion(tp, source=int, target=tp)
        return D("settings.deserialization", "default_conversion")(tp)

    add("settings.deserialization.coerce=True", "deserialization", ["foo", "raw"], setter(sd, "coerce", True))
    add("settings.deserialization.coerce=False", "deserialization", ["foo", "raw"], setter(sd, "coerce", False))
    add("settings.deserialization.coercer=custom", "deserialization", ["foo", "raw"], setter(sd, "coercer", custom_coercer))
    add("settings.deserialization.coercer=default", "deserialization", ["foo", "raw"], setter(sd, "coercer", D("settings.deserialization", "coercer")))
    add("settings.deserialization.default_conversion=custom", "deserialization", ["ext"], setter(sd, "default_conversion", custom_deser_conv))
    add("settings.deserialization.default_conversion=default", "deserialization", ["ext"], setter(sd, "default_conversion", D("settings.deserialization", "default_conversion")))
    add("settings.deserialization.fall_back_on_default=True", "deserialization", ["foo"], setter(sd, "fall_back_on_default", True))
    add("settings.deserialization.fall_back_on_default=False", "deserialization", ["foo"], setter(sd, "fall_back_on_default", False))
    add("settings.deserialization.no_copy=False", "deserialization", ["raw"], setter(sd, "no_copy", False))
    add("settings.deserialization.no_copy=True", "deserialization", ["raw"], setter(sd, "no_copy", True))
    add("settings.deserialization.override_dataclass_constructors=True", "deserialization", ["foo"], setter(sd, "override_dataclass_constructors", True))
    add("settings.deserialization.override_dataclass_constructors=False", "deserialization", ["foo"], setter(sd, "override_dataclass_constructors", False))
    add("settings.deserialization.pass_through=Foo", "deserialization", ["foo"], lambda w: setattr(sd, "pass_through", (w["foo"]["Foo"],)), target="settings.deserialization.pass_through")
    add("settings.deserialization.pass_through=()", "deserialization", ["foo"], setter(sd, "pass_through", ()))

    # -- settings.serialization ----------------------------------------------------------------------
    ss = settings.serialization

    def custom_ser_conv(tp):
        if getattr(tp, "__name__", None) == "Ext":
            return Conversion(operator.attrgetter("v"), source=tp, target=int)
        return D("settings.serialization", "default_conversion")(tp)

    for attr, groups in (("check_type", ["foo", "raw"]), ("fall_back_on_any", ["foo", "raw"]), ("exclude_defaults", ["foo"]), ("exclude_none", ["foo", "raw"]), ("exclude_unset", ["foo"]), ("no_copy", ["raw"])):
        add(f"settings.serialization.{attr}=True", "serialization", groups, setter(ss, attr, True))
        add(f"settings.serialization.{attr}=False", "serialization", groups, setter(ss, attr, False))
    add("settings.serialization.default_conversion=custom", "serialization", ["ext"], setter(ss, "default_conversion", custom_ser_conv))
    add("settings.serialization.default_conversion=default", "serialization", ["ext"], setter(ss, "default_conversion", D("settings.serialization", "default_conversion")))
    add("settings.serialization.pass_through=dataclasses", "serialization", ["foo", "raw"], setter(ss, "pass_through", PassThroughOptions(dataclasses=True)))
    add("settings.serialization.pass_through=any+collections", "serialization", ["foo", "raw"], setter(ss, "pass_through", PassThroughOptions(any=True, collections=True)))
    add("settings.serialization.pass_through=default", "serialization", ["foo", "raw"], setter(ss, "pass_through", D("settings.serialization", "pass_through")))

    # -- conversions registry ----------------------------------------------------------------------------
    add("deserializer(ext_from_int)", "deserializers", ["ext"], lambda w: deserializer(w["ext"]["ext_from_int"]), target='deserializers[Ext]')
    add("deserializer(ext_from_str)", "deserializers", ["ext"], lambda w: deserializer(w["ext"]["ext_from_str"]), target='deserializers[Ext]')
    add("reset_deserializers(Ext)", "deserializers", ["ext"], lambda w: reset_deserializers(w["ext"]["Ext"]), target='deserializers[Ext]')
    add("deserializer(Conversion(foo_from_int))", "deserializers", ["foo"], lambda w: deserializer(Conversion(w["foo"]["foo_from_int"], source=int, target=w["foo"]["Foo"])), target='deserializers[Foo]')
    add("reset_deserializers(Foo)", "deserializers", ["foo"], lambda w: reset_deserializers(w["foo"]["Foo"]), target='deserializers[Foo]')
    add("serializer(ext_to_int)", "serializers", ["ext"], lambda w: serializer(w["ext"]["ext_to_int"]), target='serializers[Ext]')
    add("serializer(ext_to_str)", "serializers", ["ext"], lambda w: serializer(w["ext"]["ext_to_str"]), target='serializers[Ext]')
    add("reset_serializer(Ext)", "serializers", ["ext"], lambda w: reset_serializer(w["ext"]["Ext"]), target='serializers[Ext]')
    add("serializer(Conversion(foo_to_int))", "serializers", ["foo"], lambda w: serializer(Conversion(w["foo"]["foo_to_int"], source=w["foo"]["Foo"], target=int)), target='serializers[Foo]')
    add("reset_serializer(Foo)", "serializers", ["foo"], lambda w: reset_serializer(w["foo"]["Foo"]), target='serializers[Foo]')

    # -- object fields -----------------------------------------------------------------------------------------
    add("set_object_fields(Ext,[v])", "object_fields", ["ext"], lambda w: set_object_fields(w["ext"]["Ext"], [ObjectField("v", int)]), target='object_fields[Ext]')
    add("set_object_fields(Ext,[v,w])", "object_fields", ["ext"], lambda w: set_object_fields(w["ext"]["Ext"], [ObjectField("v", int), ObjectField("w", int, required=False, default=0)]), target='object_fields[Ext]')
    add("set_object_fields(Ext,None)", "object_fields", ["ext"], lambda w: set_object_fields(w["ext"]["Ext"], None), target='object_fields[Ext]')
    add("set_object_fields(Foo,[foo_bar])", "object_fields", ["foo"], lambda w: set_object_fields(w["foo"]["Foo"], [ObjectField("foo_bar", str, required=False, default="dflt")]), target='object_fields[Foo]')
    add("set_object_fields(Foo,None)", "object_fields", ["foo"], lambda w: set_object_fields(w["foo"]["Foo"], None), target='object_fields[Foo]')

    NodeT = lambda w: w["rec"]["Node"]  # noqa: E731
    add("set_object_fields(Node,[value])", "object_fields", ["rec"], lambda w: set_object_fields(NodeT(w), [ObjectField("value", int)]), target="object_fields[Node]")
    add(
        "set_object_fields(Node,[value,child:Optional[Node]])",
        "object_fields",
        ["rec"],
        lambda w: set_object_fields(NodeT(w), [ObjectField("value", int), ObjectField("child", Optional[NodeT(w)], required=False, default=None)]),
        target="object_fields[Node]",
    )
    add("set_object_fields(Node,None)", "object_fields", ["rec"], lambda w: set_object_fields(NodeT(w), None), target="object_fields[Node]")
    add("deserializer(Conversion(leaf_from_tree))", "deserializers", ["rec"], lambda w: deserializer(Conversion(w["rec"]["leaf_from_tree"], source=w["rec"]["Tree"], target=w["rec"]["Leaf"])), target="deserializers[Leaf]")
    add("reset_deserializers(Leaf)", "deserializers", ["rec"], lambda w: reset_deserializers(w["rec"]["Leaf"]), target="deserializers[Leaf]")
    add("serializer(Conversion(leaf_to_tree))", "serializers", ["rec"], lambda w: serializer(Conversion(w["rec"]["leaf_to_tree"], source=w["rec"]["Leaf"], target=w["rec"]["Tree"])), target="serializers[Leaf]")
    add("reset_serializer(Leaf)", "serializers", ["rec"], lambda w: reset_serializer(w["rec"]["Leaf"]), target="serializers[Leaf]")

    # -- type names / schemas / aliasers / ordering -----------------------------------------------------------------
    add("type_name('Renamed')(Foo)", "type_names", ["foo"], lambda w: type_name("Renamed")(w["foo"]["Foo"]), target='type_names[Foo]')
    add("type_name(None)(Foo)", "type_names", ["foo"], lambda w: type_name(None)(w["foo"]["Foo"]), target='type_names[Foo]')
    add("type_name('NTName')(NT)", "type_names", ["nt"], lambda w: type_name("NTName")(w["nt"]["NT"]), target='type_names[NT]')
    add("schema(min=5)(NT)", "schemas", ["nt"], lambda w: schema(min=5)(w["nt"]["NT"]), target='schemas[NT]')
    add("schema(max=3)(NT)", "schemas", ["nt"], lambda w: schema(max=3)(w["nt"]["NT"]), target='schemas[NT]')
    add("schema(description)(Foo)", "schemas", ["foo"], lambda w: schema(description="a foo", max_props=1)(w["foo"]["Foo"]), target='schemas[Foo]')
    add("schema()(Foo)", "schemas", ["foo"], lambda w: schema()(w["foo"]["Foo"]), target='schemas[Foo]')
    add("alias(upper)(CA)", "class_aliasers", ["ca"], lambda w: alias(upper)(w["ca"]["CA"]), target='class_aliasers[CA]')
    add("alias(dash)(CA)", "class_aliasers", ["ca"], lambda w: alias(lambda s: s.replace("_", "-"))(w["ca"]["CA"]), target='class_aliasers[CA]')
    add("order({b:-1})(O)", "ordering", ["o"], lambda w: order({"b": order(-1)})(w["o"]["O"]), target='ordering[O]')
    add("order([c,a])(O)", "ordering", ["o"], lambda w: order(["c", "a"])(w["o"]["O"]), target='ordering[O]')
    add("order({d:before a})(OSub)", "ordering", ["o"], lambda w: order({"d": order(before="a")})(w["o"]["OSub"]), target='ordering[OSub]')

    # -- base class / subclass (and generic origin / specialisation): every per-class registry -----------------------------
    I = lambda w, n: w["inh"][n]  # noqa: E731,E741
    for cn, fn in (("DBase", "dbase_to_int"), ("DSub", "dsub_to_str")):
        add(f"serializer({fn})", "serializers", ["inh"], lambda w, fn=fn: serializer(I(w, fn)), target=f"serializers[{cn}]")
        add(f"reset_serializer({cn})", "serializers", ["inh"], lambda w, cn=cn: reset_serializer(I(w, cn)), target=f"serializers[{cn}]")
    add(
        "serializer(Conversion(dbase_to_int,inherited=False))",
        "serializers",
        ["inh"],
        lambda w: serializer(Conversion(I(w, "dbase_to_int"), source=I(w, "DBase"), target=int, inherited=False)),
        target="serializers[DBase]",
    )
    for cn, fn in (("DBase", "dbase_from_int"), ("DSub", "dsub_from_str")):
        add(f"deserializer({fn})", "deserializers", ["inh"], lambda w, fn=fn: deserializer(I(w, fn)), target=f"deserializers[{cn}]")
        add(f"reset_deserializers({cn})", "deserializers", ["inh"], lambda w, cn=cn: reset_deserializers(I(w, cn)), target=f"deserializers[{cn}]")
    add("deserializer(g_from_list)", "deserializers", ["inh"], lambda w: deserializer(I(w, "g_from_list")), target="deserializers[G]")
    add("reset_deserializers(G)", "deserializers", ["inh"], lambda w: reset_deserializers(I(w, "G")), target="deserializers[G]")
    add("serializer(g_to_list)", "serializers", ["inh"], lambda w: serializer(I(w, "g_to_list")), target="serializers[G]")
    add("reset_serializer(G)", "serializers", ["inh"], lambda w: reset_serializer(I(w, "G")), target="serializers[G]")
    add("type_name('BaseName')(DBase)", "type_names", ["inh"], lambda w: type_name("BaseName")(I(w, "DBase")), target="type_names[DBase]")
    add("type_name('SubName')(DSub)", "type_names", ["inh"], lambda w: type_name("SubName")(I(w, "DSub")), target="type_names[DSub]")
    add("schema(description,min_props)(DBase)", "schemas", ["inh"], lambda w: schema(description="base", min_props=2)(I(w, "DBase")), target="schemas[DBase]")
    add("schema(description)(DSub)", "schemas", ["inh"], lambda w: schema(description="sub", max_props=1)(I(w, "DSub")), target="schemas[DSub]")
    add("alias(upper)(DBase)", "class_aliasers", ["inh"], lambda w: alias(upper)(I(w, "DBase")), target="class_aliasers[DBase]")
    add("alias(dash)(DSub)", "class_aliasers", ["inh"], lambda w: alias(lambda s: s.replace("_", "-"))(I(w, "DSub")), target="class_aliasers[DSub]")
    add("order({b:-1})(DBase)", "ordering", ["inh"], lambda w: order({"b": order(-1)})(I(w, "DBase")), target="ordering[DBase]")
    add("order({y:-1,b:999})(DSub)", "ordering", ["inh"], lambda w: order({"y": order(-1), "b": order(999)})(I(w, "DSub")), target="ordering[DSub]")
    add("validator(owner=DBase)(d_neg)", "validators", ["inh"], lambda w: validator(owner=I(w, "DBase"))(I(w, "d_neg")), target="validators[DBase]")
    add("validator(owner=DSub)(d_big)", "validators", ["inh"], lambda w: validator(owner=I(w, "DSub"))(I(w, "d_big")), target="validators[DSub]")
    add("dependent_required({a:[b]},owner=DBase)", "dependent_required", ["inh"], lambda w: dependent_required({"a": ["b"]}, owner=I(w, "DBase")), target="dependent_required[DBase]")
    add("dependent_required({b:[a]},owner=DSub)", "dependent_required", ["inh"], lambda w: dependent_required({"b": ["a"]}, owner=I(w, "DSub")), target="dependent_required[DSub]")
    add("discriminator('kind')(DBase)", "discriminators", ["inh"], lambda w: discriminator("kind")(I(w, "DBase")), target="discriminators[DBase]")
    add("discriminator('type')(DSub)", "discriminators", ["inh"], lambda w: discriminator("type")(I(w, "DSub")), target="discriminators[DSub]")
    add("serialized(owner=DBase)(d_plus)", "serialized", ["inh"], lambda w: serialized(owner=I(w, "DBase"))(I(w, "d_plus")), target="serialized[DBase]")
    add("serialized('m2',owner=DSub)(d_str)", "serialized", ["inh"], lambda w: serialized("m2", owner=I(w, "DSub"))(I(w, "d_str")), target="serialized[DSub]")
    add("set_object_fields(DBase,[some_x])", "object_fields", ["inh"], lambda w: set_object_fields(I(w, "DBase"), [ObjectField("some_x", int, required=False, default=7)]), target="object_fields[DBase]")
    add("set_object_fields(DBase,None)", "object_fields", ["inh"], lambda w: set_object_fields(I(w, "DBase"), None), target="object_fields[DBase]")

    # -- validators / dependent_required / discriminator / serialized methods ---------------------------------------------
    add("validator(owner=V)(v_lt)", "validators", ["v"], lambda w: validator(owner=w["v"]["V"])(w["v"]["v_lt"]), target='validators[V]')
    add("validator(owner=V)(v_pos)", "validators", ["v"], lambda w: validator(owner=w["v"]["V"])(w["v"]["v_pos"]), target='validators[V]')
    add("dependent_required({a:[b]},owner=DR)", "dependent_required", ["dr"], lambda w: dependent_required({"a": ["b"]}, owner=w["dr"]["DR"]), target='dependent_required[DR]')
    add("dependent_required({c:[a]},owner=DR)", "dependent_required", ["dr"], lambda w: dependent_required({"c": ["a"]}, owner=w["dr"]["DR"]), target='dependent_required[DR]')
    add("discriminator('kind')(Animal)", "discriminators", ["animal"], lambda w: discriminator("kind")(w["animal"]["Animal"]), target='discriminators[Animal]')
    add("discriminator('type',{kitty:Cat})(Animal)", "discriminators", ["animal"], lambda w: discriminator("type", {"kitty": w["animal"]["Cat"]})(w["animal"]["Animal"]), target='discriminators[Animal]')
    add("serialized(owner=S)(s_double)", "serialized", ["s"], lambda w: serialized(owner=w["s"]["S"])(w["s"]["s_double"]), target='serialized[S]')
    add("serialized('other',owner=S)(s_triple)", "serialized", ["s"], lambda w: serialized("other", owner=w["s"]["S"])(w["s"]["s_triple"]), target='serialized[S]')
    add("serialized(owner=SSub)(s_triple)", "serialized", ["s"], lambda w: serialized(owner=w["s"]["SSub"])(w["s"]["s_triple"]), target='serialized[SSub]')
    return ops


# ---------------------------------------------------------------------------
# the cold start: a pristine interpreter forked per request


def cold_run(factory: WorldFactory, ops: Dict[str, Op], names: Sequence[str], groups: Sequence[str], with_first: bool = False) -> Dict[str, Any]:
    """in a pristine process: fresh world, replay the configuration only, observe"""
    world = factory.build(sorted(set(groups) | {g for n in names for g in ops[n].groups}))
    errors = []
    for n in names:
        try:
            ops[n].apply(world)
        except Exception as e:
            errors.append(f"{n}: {type(e).__name__}: {e}")
    # the observations of one type are the very first use of apischema in this process, or follow a
    # cache.reset(): the expected value of an observation never depends on the other observations
    first = observe(world, groups) if with_first else None
    isolated = observe(world, groups, reset_each_type=True)
    return {"isolated": isolated, "order_dependent": {k: [first[k], isolated[k]] for k in first if first[k] != isolated[k]} if first is not None else {}, "op_errors": errors}


ZYGOTE_BOOT = "import sys; sys.path.insert(0, {verif!r}); sys.path.insert(0, {repo!r}); from drivers import cache_hist; cache_hist.zygote_main({wdir!r})"


def zygote_main(wdir: str):
    import apischema  # noqa: F401  imported, never used before the fork

    factory = WorldFactory(wdir)
    ops = {o.name: o for o in build_ops()}
    out = sys.stdout
    for line in sys.stdin:
        req = json.loads(line)
        r, w = os.pipe()
        pid = os.fork()
        if pid == 0:
            os.close(r)
            try:
                res = cold_run(factory, ops, req["ops"], req["groups"], req.get("with_first", False))
            except BaseException as e:  # noqa
                res = {"crash": f"{type(e).__name__}: {e}"}
            data = json.dumps(res).encode()
            with os.fdopen(w, "wb") as f:
                f.write(data)
            os._exit(0)
        os.close(w)
        with os.fdopen(r, "rb") as f:
            data = f.read()
        os.waitpid(pid, 0)
        out.write((data.decode() or json.dumps({"crash": "no answer from the forked child"})) + "\n")
        out.flush()


class Cold:
    """client of the zygote; requests are pipelined (sent before the warm run, read after it) and the
    answers memoised per (configuration prefix, group)"""

    def __init__(self, factory: WorldFactory):
        import queue
        import threading

        verif = os.path.dirname(os.path.dirname(os.path.abspath(__file__)))
        repo = os.environ.get("VERIF_REPO", "/repo")
        env = dict(os.environ)
        env.pop("PYTHONPATH", None)
        self.proc = subprocess.Popen(
            [sys.executable, "-W", "ignore", "-c", ZYGOTE_BOOT.format(verif=verif, repo=repo, wdir=factory.dir)], stdin=subprocess.PIPE, stdout=subprocess.PIPE, env=env, cwd=verif, text=True
        )
        self.memo: Dict[Tuple[Tuple[str, ...], str], Dict[str, Any]] = {}
        self.pending: List[Tuple[Tuple[str, ...], List[str]]] = []
        self.inflight: set = set()
        self.requests = 0
        self.answers: "queue.Queue[Optional[str]]" = queue.Queue()

        def reader():
            for line in self.proc.stdout:
                self.answers.put(line)
            self.answers.put(None)

        self.thread = threading.Thread(target=reader, daemon=True)
        self.thread.start()

    def prefetch(self, names: Sequence[str], groups: Sequence[str], with_first: bool = False):
        key = tuple(names)
        missing = [g for g in groups if (key, g) not in self.memo and (key, g) not in self.inflight]
        if not missing:
            return
        self.requests += 1
        self.inflight.update((key, g) for g in missing)
        self.pending.append((key, missing))
        self.proc.stdin.write(json.dumps({"ops": list(names), "groups": missing, "with_first": with_first}) + "\n")
        self.proc.stdin.flush()

    def _drain_one(self):
        key, missing = self.pending.pop(0)
        line = self.answers.get(timeout=120)
        if not line:
            raise RuntimeError("the cold-start process died")
        res = json.loads(line)
        if "crash" in res:
            raise RuntimeError("cold start crashed: " + res["crash"])
        for g in missing:
            pre = g + "."
            self.inflight.discard((key, g))
            self.memo[(key, g)] = {
                "isolated": {k: v for k, v in res["isolated"].items() if k.startswith(pre)},
                "order_dependent": {k: v for k, v in res["order_dependent"].items() if k.startswith(pre)},
                "op_errors": res["op_errors"],
            }

    def get(self, names: Sequence[str], groups: Sequence[str], keep: bool = True) -> Dict[str, Any]:
        key = tuple(names)
        self.prefetch(names, groups)
        while any((key, g) in self.inflight for g in groups):
            self._drain_one()
        out: Dict[str, Any] = {"isolated": {}, "order_dependent": {}, "op_errors": []}
        for g in groups:
            m = self.memo[(key, g)] if keep else self.memo.pop((key, g))
            out["isolated"].update(m["isolated"])
            out["order_dependent"].update(m["order_dependent"])
            out["op_errors"] = m["op_errors"]
        return out

    def close(self):
        try:
            self.proc.stdin.close()
            self.proc.wait(timeout=10)
        except Exception:
            self.proc.kill()


# ---------------------------------------------------------------------------
# the driver


def run(report, tier: str, seed: int):
    import apischema

    rng = random.Random(seed)
    quick = tier == "quick"
    ops = build_ops()
    families: Dict[str, List[Op]] = {}
    targets: Dict[str, List[Op]] = {}
    for o in ops:
        families.setdefault(o.family, []).append(o)
        targets.setdefault(o.target, []).append(o)
    # alphabet of the sequences: the error messages are represented by 4 of them (all of them are
    # exercised as single operations and with their inverse)
    err_rep = {"minimum", "missing_property", "one_of", "pattern"}
    seq_ops = [o for o in ops if o.family != "errors" or o.target.split(".")[2] in err_rep]

    n_pairs_max, n_tri_max = (60, 0) if quick else (1400, 700)
    budget_s = 110 if quick else 1000  # safety stop only (recorded as `truncated` in the evidence when hit)
    n_walks = 2 if quick else 20
    walk_len = 10 if quick else 25
    log = report.driver(
        "histories_vs_cold_start",
        bound=f"alphabet of {len(ops)} configuration operations on {len(targets)} configuration cells in {len(families)} families (the 5 settings classes incl. all {len(families['errors']) // 2} error messages, "
        "deserializer / serializer registration and reset_*, set_object_fields, type_name, schema, class aliaser, order overriding, validators, dependent_required, discriminator, serialized methods) "
        f"over a world of {len(GROUPS)} groups of fresh classes; exhaustive: the empty history, every history of length 1, every history of length 2 on one configuration cell (set / replace / restore / remove)"
        + ("" if quick else ", every history of length 2 inside a family")
        + f"; sampled: {n_pairs_max} seeded histories of length 2 across the {len(seq_ops)}-operation alphabet" + ("" if quick else f" and {n_tri_max} of length 3")
        + f", with and without intermediate observations; {n_walks} random walks of length {walk_len} observed after every step; "
        "6 observation kinds (deserialize, deserialization_method, serialize, serialization_method, deserialization_schema, serialization_schema) on every type of the groups touched",
        label="B",
    )
    log.rule(
        "case = (history, observation point); the world is primed (everything observed once) before the first operation, observations are repeated after each operation "
        "(or only at the end) without any reset and compared with a pristine interpreter (fork of a process that imported apischema and never used it) replaying only the configuration operations; "
        "at the end apischema.cache.reset() is called and the observations repeated; distinct by (history, point); non-trivial when the cold observations after the last operation differ from those before it"
    )
    factory = WorldFactory()
    cold = Cold(factory)
    snap = snapshot_settings()
    fail_budget: Dict[Any, int] = {}
    t_start = time.time()
    counts = {"histories": 0}

    def fail(kind, culprit, key, hist, point, got, exp):
        grp, label, obs = key.split(".", 2)
        cls = (kind, culprit, label, obs.split("[")[0])
        fail_budget[cls] = fail_budget.get(cls, 0) + 1
        if fail_budget[cls] > 2:
            log.stats["violations"] += 1
            return
        hs = " ; ".join(hist) or "(no operation)"
        log.fail(
            f"{kind}:{culprit}:{label}.{obs}:[{hs}]@{point}",
            f"{kind}: after [{hs}] (observed at {point}) {label}.{obs} answers {got[:160]} but a cold start with the same configuration answers {exp[:160]}",
            {"history": list(hist), "observation": key, "point": point},
            observed=got,
            expected=exp,
            functions_involved=["CacheAwareDict", "ResetCache", "reset", "cache"],
        )

    def compare(c, hist_names, warm, point, culprit):
        for k, exp in c["isolated"].items():
            if k not in warm:
                fail("missing-observation", culprit, k, hist_names, point, "(not observed in the warm process)", exp)
                continue
            got = warm[k]
            if got != exp:
                kind = "stale" if point != "after-reset" else "reset-not-cold"
                if k in c["order_dependent"] or not hist_names:
                    kind = "observation-order"
                fail(kind, culprit, k, hist_names, point, str(got), exp)

    def run_history(hist: Sequence[Op], observe_each: bool = True, final_reset: bool = True, memo: bool = True):
        names = [o.name for o in hist]
        groups = sorted({g for o in hist for g in o.groups}) or sorted(GROUPS)
        counts["histories"] += 1
        points = [i + 1 for i in range(len(hist)) if observe_each or i == len(hist) - 1]
        cold.prefetch([], groups, with_first=not hist)
        for i in points:
            cold.prefetch(names[:i], groups)
        observed: List[Tuple[int, str, Dict[str, str]]] = []
        try:
            world = factory.build(groups)
            observed.append((0, "primed", observe(world, groups)))
            for i, o in enumerate(hist):
                try:
                    o.apply(world)
                except Exception as e:
                    report.tool_error(f"operation {o.name} raised {e!r}")
                    break
                if i + 1 in points:
                    observed.append((i + 1, f"op{i + 1}", observe(world, groups)))
            else:
                if final_reset:
                    apischema.cache.reset()
                    observed.append((len(hist), "after-reset", observe(world, groups)))
        finally:
            restore_settings(snap)
            apischema.cache.reset()
        c_prev = None
        for upto, point, warm in observed:
            c = cold.get(names[:upto], groups, keep=memo or upto <= 1)
            compare(c, names[:upto], warm, point, hist[upto - 1].name if upto else "(none)")
            if c["op_errors"]:
                report.tool_error(f"cold replay: {c['op_errors'][0]}")
            if point.startswith("op"):
                log.case((tuple(names[:upto]), observe_each), c_prev is not None and c["isolated"] != c_prev["isolated"], sample={"history": names[:upto], "observed_each_step": observe_each, "groups": groups})
            elif point == "after-reset":
                log.case((tuple(names), "after-reset"), bool(hist))
            else:
                log.case((tuple(groups), "primed"), False)
            c_prev = c

    def left():
        return budget_s - (time.time() - t_start)

    try:
        # the empty history (observations alone, on every group), every single operation
        run_history([])
        for o in ops:
            run_history([o])
        # every ordered pair of operations on one configuration cell
        n_cell = 0
        for tname, tops in targets.items():
            for a, b in itertools.product(tops, repeat=2):
                if a is not b or a.family not in ("settings", "errors", "base_schema", "deserialization", "serialization"):
                    run_history([a, b], final_reset=False)
                    n_cell += 1
        log.stats["same_cell_pairs"] = n_cell
        if not quick:
            n_fam = 0
            for fam, fops in families.items():
                fo = [o for o in fops if o in seq_ops]
                for a, b in itertools.permutations(fo, 2):
                    if a.target != b.target:
                        run_history([a, b], final_reset=False)
                        n_fam += 1
            log.stats["same_family_pairs"] = n_fam
        log.stats["exhaustive_part_s"] = round(time.time() - t_start, 1)
        # random walks (reserve), then pairs across the alphabet (and triples) until the budget
        t_w = time.time()
        for _ in range(n_walks):
            run_history([rng.choice(seq_ops) for _ in range(walk_len)], observe_each=True, final_reset=True, memo=False)
        log.stats["walks_s"] = round(time.time() - t_w, 1)
        pairs = [(a, b) for a in seq_ops for b in seq_ops if a.target != b.target and (quick or a.family != b.family)]
        rng.shuffle(pairs)
        n_pairs = n_tri = 0
        for a, b in pairs[:n_pairs_max]:
            if left() < 0:
                log.stats["truncated"] = True
                break
            run_history([a, b], observe_each=bool(n_pairs % 3), final_reset=False)
            n_pairs += 1
        log.stats["sampled_pairs"] = f"{n_pairs} of {len(pairs)}"
        while n_tri < n_tri_max:
            if left() < 0:
                log.stats["truncated"] = True
                break
            run_history([rng.choice(seq_ops) for _ in range(3)], observe_each=bool(n_tri % 2), final_reset=False, memo=False)
            n_tri += 1
        log.stats["sampled_triples"] = n_tri
        log.stats["histories"] = counts["histories"]
        log.stats["cold_requests"] = cold.requests
    finally:
        restore_settings(snap)
        apischema.cache.reset()
        cold.close()
        factory.dispose()
    return log


def replay(rp: dict) -> int:
    """re-run the history of a replay file: 1 when the warm observation still differs from the cold start"""
    import apischema

    case = rp.get("case") or {}
    print(json.dumps({k: rp.get(k) for k in ("property", "signature", "summary")}, indent=1, default=str))
    if "history" not in case:
        return 1
    ops = {o.name: o for o in build_ops()}
    hist = [ops[n] for n in case["history"]]
    key, point = case["observation"], case.get("point", "")
    groups = sorted({g for o in hist for g in o.groups}) or sorted(GROUPS)
    factory = WorldFactory()
    cold = Cold(factory)
    snap = snapshot_settings()
    try:
        world = factory.build(groups)
        warm = observe(world, groups)
        for o in hist:
            o.apply(world)
            warm = observe(world, groups)
        if point == "after-reset":
            apischema.cache.reset()
            warm = observe(world, groups)
        exp = cold.get([o.name for o in hist], groups)["isolated"]
        print(f"{key}\n  warm: {warm.get(key)}\n  cold: {exp.get(key)}")
        return 0 if warm.get(key) == exp.get(key) else 1
    finally:
        restore_settings(snap)
        apischema.cache.reset()
        cold.close()
        factory.dispose()
