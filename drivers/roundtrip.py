"""C05 -- round trip: deserialize after serialize is the identity on values (B: bounded).

Run-time contracts of apischema.serialize followed by apischema.deserialize (and the converse):

* `roundtrip_values` : T in the bijective fragment of the C01 type pool (+ discriminated unions,
                       + with_fields_set / nested / aliased extras), v := the reference image
                       (drivers/model.py) of every accepted datum of the datum pools;
                       deserialize(T, serialize(T, v)) == v with the same runtime classes (for an
                       abstract annotation such as Sequence: an instance of the annotation holding
                       the same elements, and the *second* round trip must preserve the classes
                       exactly), also through json.dumps / json.loads, under aliaser in {identity,
                       camelCase, custom} and additional_properties in {False, True}, the same
                       options on both sides.
* `roundtrip_data`   : dually, for every accepted datum d: serialize(T, deserialize(T, d)) equals d
                       completed with defaults -- computed from the type *description*: absent
                       fields get their default's image, float positions are floats, set positions
                       are compared as sets, properties dropped by additional_properties=True are
                       dropped; d itself for with_fields_set classes (unset tracking) -- and
                       re-deserializes to an equal value.
* `roundtrip_std`    : the standard-library converted types (UUID, date / datetime / time, Decimal,
                       bytes, Path & co, ip addresses / interfaces / networks, re.Pattern, deque),
                       alone and inside Optional / List / Dict values and keys / Tuple / dataclass
                       field / deque, over hand-made boundary values and seeded random ones.
* `roundtrip_fields_set`: (E) a with_fields_set dataclass with default_as_set fields: d itself plus the
                       default_as_set fields; values and their set-field sets survive the round trip.
"""
from __future__ import annotations

import collections
import copy
import dataclasses
import datetime as dt
import decimal
import ipaddress
import json
import pathlib
import random
import re
import typing
import uuid
from typing import Any, Dict, List, Optional, Tuple

from . import deser_e2e as E
from . import model as M
from . import pools as P
from .model import Ann, AnyT, Coll, Disc, Enm, Fld, Lit, Mapp, NewT, Obj, Opt, Prim, Ref, Tup, Uni, cons
from .opt_common import ALIASERS, EXT_TYPES, EnmMix, ExtRef, SubP, ext_ref_deserialize, ext_samples, call, denan, has_field, has_obj, jsonable, new_realm, rs, short

INT, FLOAT, STR, BOOL, NONE = P.INT, P.FLOAT, P.STR, P.BOOL, P.NONE

# extra descriptions (wrapped around pools.py, which is not edited): unset tracking, nesting of
# tuple / mapping / flattening, alias + class aliaser + dynamic aliaser, Optional defaults
FS = Obj("dataclass", "FS", (Fld("a", INT), Fld("b_c", STR, has_default=True, default="x"), Fld("c", Opt(INT), has_default=True, default=None), Fld("xs", Coll("list", INT), factory="list")), fields_set=True)
FSN = Obj("dataclass", "FSN", (Fld("inner", FS), Fld("n", INT, has_default=True, default=3)))
RT_IN = Obj("dataclass", "RtIn", (Fld("pairs_map", Mapp(STR, Tup((INT, STR))), factory="dict"), Fld("tags_set", Coll("frozenset", STR), has_default=True, default=frozenset())))
RT1 = Obj("dataclass", "Rt1", (Fld("some_id", INT, alias="id"), Fld("in_ner", RT_IN, flatten=True), Fld("opt_f", Opt(FLOAT), has_default=True, default=None)), class_aliaser="prefix")
RT2 = Obj("dataclass", "Rt2", (Fld("first_name", STR), Fld("kids", Coll("list", Ref("Rt2")), factory="list"), Fld("by_name", Mapp(STR, Ref("Rt2")), factory="dict"), Fld("color", Opt(P.COLOR), has_default=True, default=None)))
RT3 = Obj("namedtuple", "Rt3", (Fld("x_y", FLOAT), Fld("t", Tup((INT, Coll("tuplevar", STR))), has_default=True, default=(0, ()))))
RT4 = Obj("typeddict", "Rt4", (Fld("a_b", Coll("set", INT)), Fld("c", Mapp(STR, FLOAT), td_required=False)))
RT5 = Obj("dataclass", "Rt5", (Fld("u", Uni((INT, Coll("list", INT))), has_default=True, default=0), Fld("n", NONE, has_default=True, default=None), Fld("any_v", AnyT(), has_default=True, default=None), Fld("e", Opt(P.NAME), has_default=True, default=None)))
# flattened fields whose inner class has aliased fields: explicit alias, class-level aliaser, both,
# an alias kept out of the class aliaser (override=False), and flattening nested two levels deep
FL_POS = Obj("dataclass", "FlPos", (Fld("latitude", FLOAT, alias="lat"), Fld("longitude", FLOAT, alias="lon"), Fld("alt_m", Opt(INT), has_default=True, default=None)))
FL_PLACE = Obj("dataclass", "FlPlace", (Fld("name", STR), Fld("position", FL_POS, flatten=True)))
FL_INU = Obj("dataclass", "FlInU", (Fld("a_b", INT), Fld("c_d", STR, has_default=True, default="x"), Fld("kept", INT, alias="z", no_override_alias=True, has_default=True, default=1)), class_aliaser="upper")
FL_HOLDU = Obj("dataclass", "FlHoldU", (Fld("x_y", INT), Fld("inner_u", FL_INU, flatten=True)))
FL_INB = Obj("dataclass", "FlInB", (Fld("some_v", INT, alias="sv"), Fld("other_v", Coll("list", STR), factory="list")), class_aliaser="prefix")
FL_HOLDB = Obj("dataclass", "FlHoldB", (Fld("own_f", STR, alias="own"), Fld("inner_b", FL_INB, flatten=True), Fld("n_v", INT, has_default=True, default=0)), class_aliaser="upper")
FL_MID = Obj("dataclass", "FlMid", (Fld("mid_v", INT, alias="mv"), Fld("pos", FL_POS, flatten=True)))
FL_TOP = Obj("dataclass", "FlTop", (Fld("mid", FL_MID, flatten=True), Fld("in_b", FL_INB, flatten=True), Fld("top_v", STR, has_default=True, default="t")))
FL_OBJS = (FL_POS, FL_PLACE, FL_INU, FL_HOLDU, FL_INB, FL_HOLDB, FL_MID, FL_TOP)
FL_TYPES = [FL_PLACE, FL_HOLDU, FL_HOLDB, FL_MID, FL_TOP, Coll("list", FL_PLACE), Opt(FL_TOP), Mapp(STR, FL_HOLDB), Tup((FL_HOLDU, FL_MID))]
EXTRA_OBJS = (FS, FSN, RT_IN, RT1, RT2, RT3, RT4, RT5) + FL_OBJS
EXTRA_TYPES = [FS, FSN, RT1, RT2, RT3, RT4, RT5, Coll("list", FS), Mapp(STR, Tup((INT, RT3))), Opt(RT1), Coll("list", RT4), Tup((RT1, Opt(FS))), Mapp(P.NAME, Coll("list", P.COLOR)), Uni((P.A, Coll("list", P.A)))] + FL_TYPES


def bijective(td, realm) -> Optional[str]:
    """None when the description is in the bijective fragment, else why not"""
    if has_field(td, lambda f: f.none_as_undefined or f.skip_ser_default or f.skip_ser_if_falsy, realm):
        return "asymmetric skip"
    if has_field(td, lambda f: not f.init, realm):
        return "init=False field"
    return None


# ---------------------------------------------------------------------------------------------
# `d completed with defaults`, from the description


class Completer:
    def __init__(self, realm: M.Realm, opts: M.Opts):
        self.realm, self.opts = realm, opts
        self.ref = ExtRef(realm, opts)

    def accepts(self, td, d, c=None) -> bool:
        try:
            self.ref.deser(td, copy.deepcopy(d), c)
            return True
        except M.Rejected:
            return False

    def default_image(self, f: Fld):
        if f.factory == "list":
            return []
        if f.factory == "dict":
            return {}
        if f.factory and f.factory.startswith("obj:"):
            return self.complete(self.realm.descs[f.factory[4:]], {})
        return self.ser_value(f.t, f.default)

    def ser_value(self, td, v):
        """the JSON image of a description-level default value (immutable python value)"""
        if isinstance(v, (tuple, list)):
            return [self.ser_value(None, x) for x in v]
        if isinstance(v, (set, frozenset)):
            return sorted((self.ser_value(None, x) for x in v), key=repr)
        return v

    def complete(self, td, d, c=None):
        if isinstance(td, (Ann, NewT)):
            return self.complete(td.t, d, M.merge_cons(c, td.cons))
        if isinstance(td, Ref):
            return self.complete(self.realm.descs[td.name], d, c)
        if isinstance(td, Prim):
            return float(d) if td.name == "float" else d
        if isinstance(td, SubP):
            return float(d) if td.base == "float" else d
        if isinstance(td, (AnyT, Lit, Enm, EnmMix)):
            return d
        if isinstance(td, Opt):
            return None if d is None else self.complete(td.t, d, c)
        if isinstance(td, Uni):
            alts = [self.complete(a, d, c) for a in td.alts if self.accepts(a, d, c)]
            if not alts:
                raise M.Rejected(M.Err(["no alternative"]))
            return alts[0] if len(alts) == 1 else AnyOf(alts)
        if isinstance(td, Coll):
            xs = [self.complete(td.t, x) for x in d]
            if td.kind in ("set", "abstractset", "frozenset"):
                return SetOf(xs)
            return xs
        if isinstance(td, Tup):
            return [self.complete(t, x) for t, x in zip(td.elts, d)]
        if isinstance(td, Mapp):
            return {k: self.complete(td.v, v) for k, v in d.items()}
        if isinstance(td, Disc):
            alias = self.opts.alias(td.alias)
            alt = M.disc_mapping(td, self.opts)[d[alias]]
            res = self.complete_obj(alt, d, skip={alias})
            res[alias] = d[alias]
            return res
        if isinstance(td, Obj):
            return self.complete_obj(td, d)
        raise TypeError(td)

    def complete_obj(self, td: Obj, d: dict, skip=frozenset()):
        o = self.opts
        res: Dict[str, Any] = {}
        alias_of = {f.name: M.ext_name(td, f, o) for f in td.fields}
        normal = [f for f in td.fields if not (f.flatten or f.pattern is not None or f.additional)]
        unset_tracking = td.fields_set
        for f in normal:
            a = alias_of[f.name]
            fb = (f.fall_back or o.fall_back_on_default) and not (f.td_required if td.kind == "typeddict" else f.required)
            if a in d and not (fb and not self.accepts(f.t, d[a], f.cons)):
                res[a] = self.complete(f.t, d[a], f.cons)
            elif td.kind == "typeddict":
                pass
            elif a in d or not unset_tracking:
                res[a] = self.default_image(f)
        remain = [k for k in d if k not in {alias_of[f.name] for f in normal} and k not in skip]
        for f in td.fields:
            if not f.flatten:
                continue
            inner = self.ref._flat_target(f.t)
            aliases = self.ref.flattened_aliases(inner)
            part = {k: d[k] for k in d if k in aliases}
            remain = [k for k in remain if k not in part]
            res.update(self.complete(f.t, part, f.cons) or {})
        for f in td.fields:
            if f.pattern is None:
                continue
            pat = re.compile(f.pattern)
            part = {k: d[k] for k in remain if isinstance(k, str) and pat.match(k)}
            remain = [k for k in remain if k not in part]
            res.update(self.complete(f.t, part, f.cons))
        addf = [f for f in td.fields if f.additional]
        if addf:
            res.update(self.complete(addf[0].t, {k: d[k] for k in remain}, addf[0].cons))
        elif remain and o.additional_properties and td.kind == "typeddict":
            for k in remain:
                res[k] = d[k]
        return res


class AnyOf:
    """a union position: the completed datum under any accepting alternative (C01 leaves the
    choice among accepting alternatives holding equal values open)"""

    def __init__(self, alts):
        self.alts = alts

    def __repr__(self):
        return " | ".join(map(repr, self.alts))


class SetOf:
    """a JSON array at a set position: compared without order and multiplicity"""

    def __init__(self, xs):
        self.xs = xs

    def __repr__(self):
        return f"SetOf({self.xs!r})"


def plainify(x):
    """one JSON datum out of a completed datum (first alternative, set positions as arrays)"""
    if isinstance(x, AnyOf):
        return plainify(x.alts[0])
    if isinstance(x, SetOf):
        out = []
        for y in map(plainify, x.xs):
            if not any(_key(y) == _key(z) for z in out):
                out.append(y)
        return out
    if type(x) is list:
        return [plainify(y) for y in x]
    if type(x) is dict:
        return {k: plainify(v) for k, v in x.items()}
    return x


def json_eq(exp, got) -> bool:
    """got (real JSON data) equals the completed datum: same JSON classes (an int is not a float),
    arrays at set positions as sets"""
    if isinstance(exp, AnyOf):
        return any(json_eq(e, got) for e in exp.alts)
    if isinstance(exp, SetOf):
        if type(got) is not list:
            return False
        return all(any(json_eq(e, g) for g in got) for e in exp.xs) and all(any(json_eq(e, g) for e in exp.xs) for g in got) and len(got) == len({_key(g) for g in got})
    if _json_class(exp) is not _json_class(got):
        return False
    if type(exp) is list:
        return len(exp) == len(got) and all(json_eq(e, g) for e, g in zip(exp, got))
    if type(exp) is dict:
        return exp.keys() == got.keys() and all(json_eq(exp[k], got[k]) for k in exp)
    if type(exp) is float and exp != exp:
        return got != got
    return exp == got


def passthrough_tag(data) -> str:
    """'' for plain JSON data, else '-passthrough<classes>' naming the non-JSON classes (subclasses
    of primitives, enum members, ...) that serialize left in its output"""
    names = set()

    def rec(x):
        if type(x) in (bool, int, float, str, type(None)):
            return
        if type(x) is list:
            for y in x:
                rec(y)
        elif type(x) is dict:
            for k, v in x.items():
                rec(k)
                rec(v)
        else:
            names.add(type(x).__name__)

    rec(data)
    return ("-passthrough<" + ",".join(sorted(names)) + ">") if names else ""


def _json_class(x):
    """the JSON class of a datum (a subclass of a primitive is data of that primitive, as for json.dumps)"""
    for b in type(x).__mro__:
        if b in (bool, int, float, str, list, dict, type(None)):
            return b
    return type(x)


def _key(x):
    return json.dumps(x, sort_keys=True, default=repr)


# ---------------------------------------------------------------------------------------------


def _involved(tp, kw) -> List[str]:
    from apischema.deserialization import deserialization_method

    try:
        out = E.method_classes(getattr(deserialization_method(tp, **kw), "__self__", None))
    except Exception:
        out = []
    try:
        from apischema.serialization import serialization_method

        m = getattr(serialization_method(tp, **{k: v for k, v in kw.items() if k in ("aliaser", "additional_properties")}), "__self__", None)
        out = out + _ser_classes(m)
    except Exception:
        pass
    return sorted(set(out))


def _ser_classes(method) -> List[str]:
    from apischema.serialization.methods import SerializationMethod

    seen, out = set(), []

    def rec(x):
        if id(x) in seen or x is None:
            return
        seen.add(id(x))
        if isinstance(x, SerializationMethod):
            out.append("ser." + type(x).__name__)
        if dataclasses.is_dataclass(x) and not isinstance(x, type):
            for f in dataclasses.fields(x):
                rec(getattr(x, f.name, None))
        elif isinstance(x, (tuple, list)):
            for y in x:
                rec(y)
        elif isinstance(x, dict):
            for y in x.values():
                rec(y)

    rec(method)
    return out


def types_for(tier: str) -> List[Any]:
    return P.type_pool(tier) + EXTRA_TYPES + EXT_TYPES


def run(report, tier: str, seed: int):
    realm = new_realm("rt", EXTRA_OBJS)
    try:
        run_pool(report, tier, seed, realm)
        run_std(report, tier, seed, realm)
        run_fields_set(report, tier, seed, realm)
    finally:
        realm.dispose()


def run_pool(report, tier: str, seed: int, realm):
    from apischema import deserialize, serialize
    from apischema.deserialization import deserialization_method
    from apischema.serialization import serialization_method

    rng = random.Random(seed)
    pool = types_for(tier)
    logv = report.driver(
        "roundtrip_values",
        bound=f"{len(pool)} type descriptions (C01 pool incl. discriminated unions + {len(EXTRA_TYPES)} nested / aliased / with_fields_set extras) x aliaser in {list(ALIASERS)} x additional_properties in {{False, True}} x the reference images of all accepted data of the per-type datum pools; each round trip direct and through json.dumps / json.loads, and a second round trip",
    )
    logv.rule("case = (type, aliaser, additional_properties, value); v is the reference image of an accepted datum (distinct values by repr); non-trivial when the value is a container / object or the type is not a bare primitive")
    logd = report.driver(
        "roundtrip_data",
        bound=f"same {len(pool)} types x aliasers x additional_properties x every datum of the (thorough-size) datum pools accepted by the reference semantics (valid samples, <= 80 boundary mutants of each of <= 8 samples, atoms, 40 seeded random values)",
    )
    logd.rule("case = (type, aliaser, additional_properties, accepted datum d): serialize(T, deserialize(T, d)) == d completed with defaults (computed from the description) and deserializes again to an equal value; non-trivial when d is a dict / list")
    skipped: Dict[str, int] = {}
    report.extra["C05_outside_fragment"] = skipped
    for td in pool:
        why = bijective(td, realm)
        if why:
            skipped[why] = skipped.get(why, 0) + 1
            continue
        try:
            tp = M.realize(td, realm)
        except Exception as e:
            report.tool_error(f"cannot realise {short(td)}: {e!r}")
            continue
        is_obj = has_obj(td, realm)
        for aname, aliaser in ALIASERS.items():
            if aliaser is not None and not is_obj:
                continue
            for addl in (False, True):
                if addl and not is_obj:
                    continue
                optname = f"aliaser={aname},additional_properties={addl}"
                kw: Dict[str, Any] = {"additional_properties": addl}
                if aliaser is not None:
                    kw["aliaser"] = aliaser
                mopts = M.Opts(additional_properties=addl, aliaser=aliaser)
                P.set_sample_aliaser(aliaser)
                involved: Optional[List[str]] = None

                def fail(log, kind, what, summary, observed=None, expected=None):
                    nonlocal involved
                    if involved is None:
                        involved = _involved(tp, kw)
                    log.fail(f"{kind}:{short(td)}:{optname}:{what}", f"{kind}: {short(td)} [{optname}] {what}: {summary}", {"type": short(td), "options": optname, "input": what}, observed=rs(observed, 600), expected=rs(expected, 600), functions_involved=involved)

                try:
                    ser = serialization_method(tp, **kw)
                    des = deserialization_method(tp, **kw)
                except Exception as e:
                    fail(logv, "compile", type(e).__name__, f"serialization_method / deserialization_method raised {e!r}", observed=repr(e))
                    continue
                comp = Completer(realm, mopts)
                seen_values = set()
                for d in (ext_samples(td) if aliaser is None else []) + P.data_pool(td, "thorough", rng):
                    exp = ext_ref_deserialize(td, copy.deepcopy(d), realm, mopts)
                    if exp[0] != "ok":
                        continue
                    v = exp[1]
                    # ---- dual direction: data -> value -> data
                    nontrivial = isinstance(d, (list, dict))
                    logd.case((short(td), optname, repr(d), str(P._typesig(d))), nontrivial, sample={"type": short(td), "options": optname, "datum": d} if nontrivial else None)
                    # spec-level injectivity (unions with overlapping alternatives are not bijective): the
                    # reference image of `d completed with defaults` must be v again, else the case is
                    # outside the fragment
                    try:
                        want0 = comp.complete(td, copy.deepcopy(d))
                        back = ext_ref_deserialize(td, plainify(want0), realm, mopts)
                        injective = back[0] == "ok" and E.image_ok(td, denan(back[1]), denan(v), ExtRef(realm, mopts), plainify(want0))
                    except M.Rejected:
                        injective = True
                    if not injective:
                        skipped["ambiguous union value"] = skipped.get("ambiguous union value", 0) + 1
                        continue
                    before = copy.deepcopy(d)
                    r = call(des, d)  # the caller's own datum: it is compared with the output below
                    if not E.deep_eq(before, d):
                        fail(logd, "dual-input-consumed", repr(before), f"deserialize changed the caller's datum to {rs(d, 200)}, so serialize(T, deserialize(T, d)) can no longer equal d and d no longer re-deserializes", observed=d, expected=before)
                        d = copy.deepcopy(before)
                    if r[0] == "ok":
                        s = call(ser, r[1])
                        if s[0] != "ok":
                            fail(logd, "dual-serialize-fails", repr(d), f"serialize(T, deserialize(T, d)) failed: {rs(s[1], 200)}", observed=s)
                        else:
                            try:
                                want = comp.complete(td, copy.deepcopy(d))
                            except M.Rejected:
                                want = None
                            if want is not None and not json_eq(want, s[1]):
                                fail(logd, "dual-data", repr(d), f"serialize(T, deserialize(T, d)) = {rs(s[1], 200)} is not d completed with defaults {rs(want, 200)}", observed=s[1], expected=want)
                            r2 = call(des, copy.deepcopy(s[1]))
                            if r2[0] != "ok" or not E.deep_eq(denan(r2[1]), denan(r[1])):
                                fail(logd, "dual-redeserialize" + passthrough_tag(s[1]), repr(d), f"deserialize(T, serialize(T, deserialize(T, d))) = {rs(r2[1], 200)} differs from deserialize(T, d) = {rs(r[1], 200)}", observed=r2, expected=r)
                    # (a datum the reference accepts but apischema rejects is C01's business)
                    # ---- forward direction: value -> data -> value
                    key = repr(v) + type(v).__name__
                    if key in seen_values:
                        continue
                    seen_values.add(key)
                    nontrivial = not isinstance(td, Prim) or isinstance(v, (list, dict, tuple, set, frozenset))
                    logv.case((short(td), optname, key), nontrivial, sample={"type": short(td), "options": optname, "value": repr(v)} if nontrivial else None)
                    s = call(ser, v)
                    if s[0] != "ok":
                        fail(logv, "serialize-fails", repr(v), f"serialize(T, v) failed: {rs(s[1], 200)}", observed=s)
                        continue
                    try:
                        through_json = json.loads(json.dumps(s[1]))
                    except Exception as e:
                        fail(logv, "not-json", repr(v), f"json.dumps(serialize(T, v)) failed for {rs(s[1], 200)}: {e!r}", observed=s[1])
                        through_json = None
                    for route, data in (("direct", s[1]), ("json", through_json)):
                        if data is None:
                            continue
                        r = call(des, copy.deepcopy(data))
                        if r[0] != "ok":
                            fail(logv, "roundtrip-rejected" + passthrough_tag(data), f"{route}:{v!r}", f"deserialize(T, serialize(T, v)) rejects its own output {rs(data, 200)}: {rs(r[1], 200)}", observed=r, expected=v)
                            continue
                        if not E.image_ok(td, denan(r[1]), denan(v), ExtRef(realm, mopts), through_json if through_json is not None else data):
                            fail(logv, "roundtrip-value" + passthrough_tag(data), f"{route}:{v!r}", f"deserialize(T, serialize(T, v)) = {rs(r[1], 200)} ({type(r[1]).__name__}) differs from v = {rs(v, 200)} ({type(v).__name__}); data {rs(data, 200)}", observed=r[1], expected=v)
                            continue
                        # second round trip on the library's own value: classes preserved exactly
                        s2 = call(ser, r[1])
                        r3 = call(des, copy.deepcopy(s2[1])) if s2[0] == "ok" else s2
                        if r3[0] != "ok" or not E.deep_eq(denan(r3[1]), denan(r[1])):
                            fail(logv, "roundtrip-twice" + passthrough_tag(s2[1] if s2[0] == "ok" else None), f"{route}:{v!r}", f"second round trip gives {rs(r3[1], 200)} for {rs(r[1], 200)}", observed=r3, expected=r[1])
    P.set_sample_aliaser(None)


# ---------------------------------------------------------------------------------------------
# standard-library converted types


def _std_values(rng: random.Random, tier: str) -> Dict[Any, Tuple[List[Any], List[Any]]]:
    """type -> (values, non-canonical spellings of accepted data)"""
    n = 6 if tier == "quick" else 60
    tz = [None, dt.timezone.utc, dt.timezone(dt.timedelta(hours=5, minutes=30)), dt.timezone(dt.timedelta(hours=-8)), dt.timezone(dt.timedelta(seconds=1))]

    def rdate():
        return dt.date.fromordinal(rng.randint(1, dt.date.max.toordinal()))

    def rtime(t=None):
        return dt.time(rng.randint(0, 23), rng.randint(0, 59), rng.randint(0, 59), rng.choice([0, 0, 1, 999999, rng.randint(0, 999999)]), tzinfo=t)

    def rdatetime():
        return dt.datetime.combine(rdate(), rtime(), tzinfo=rng.choice(tz))

    def rdecimal():
        digits = "".join(rng.choice("0123456789") for _ in range(rng.randint(1, 12)))
        exp = rng.randint(-6, 6)
        return decimal.Decimal(("-" if rng.random() < 0.3 else "") + digits + f"e{exp}")

    def rpath():
        segs = [rng.choice(["a", "b.txt", "dir with space", "é", "..", "x-y_z", "0"]) for _ in range(rng.randint(1, 4))]
        return ("/" if rng.random() < 0.5 else "") + "/".join(segs)

    vals: Dict[Any, Tuple[List[Any], List[Any]]] = {}
    vals[uuid.UUID] = ([uuid.UUID(int=0), uuid.UUID(int=2**128 - 1), uuid.UUID("12345678-1234-5678-1234-567812345678")] + [uuid.UUID(int=rng.getrandbits(128)) for _ in range(n)], ["{12345678-1234-5678-1234-567812345678}", "12345678123456781234567812345678", "URN:UUID:12345678-1234-5678-1234-567812345678", "ABCDEF12-1234-5678-1234-567812345678"])
    vals[dt.date] = ([dt.date.min, dt.date.max, dt.date(2000, 2, 29), dt.date(1970, 1, 1)] + [rdate() for _ in range(n)], ["20200101", "2020-W01-1"])
    vals[dt.datetime] = (
        [dt.datetime.min, dt.datetime.max, dt.datetime(2020, 1, 1), dt.datetime(2020, 1, 1, 12, 30, 15, 250000), dt.datetime(2020, 1, 1, 0, 0, 0, 1), dt.datetime(1999, 12, 31, 23, 59, 59, 999999, tzinfo=dt.timezone.utc), dt.datetime(2020, 6, 1, 1, 2, 3, tzinfo=tz[2]), dt.datetime(2020, 6, 1, 1, 2, 3, tzinfo=tz[4])] + [rdatetime() for _ in range(n)],
        ["2020-01-01", "2020-01-01 10:00", "2020-01-01T10:00:00Z", "2020-01-01T10:00:00.5+00:00", "20200101T100000"],
    )
    vals[dt.time] = ([dt.time.min, dt.time.max, dt.time(12), dt.time(1, 2, 3, 4), dt.time(1, 2, 3, tzinfo=dt.timezone.utc), dt.time(23, 59, tzinfo=tz[3])] + [rtime(rng.choice(tz)) for _ in range(n)], ["10:00", "10", "10:00:00.5", "100000", "10:00Z"])
    vals[decimal.Decimal] = ([decimal.Decimal(0), decimal.Decimal(1), decimal.Decimal("0.5"), decimal.Decimal("-2.25"), decimal.Decimal("1e3"), decimal.Decimal("0.1"), decimal.Decimal("1.10"), decimal.Decimal("123456789012345678901234567890"), decimal.Decimal("3.14159")] + [rdecimal() for _ in range(n)], [1, 2.50])
    vals[bytes] = ([b"", b"a", b"ab", b"abc", b"\x00\xff", bytes(range(256))] + [rng.randbytes(rng.randint(0, 40)) for _ in range(n)], ["YR==", "YW\nJj"])
    for cls in (pathlib.Path, pathlib.PurePath, pathlib.PurePosixPath, pathlib.PosixPath):
        vals[cls] = ([cls("a"), cls("/"), cls("."), cls("a/b/c.txt"), cls("/tmp/x y"), cls("../up")] + [cls(rpath()) for _ in range(n // 2)], ["a//b", "a/./b", "a/b/", ""])
    vals[pathlib.PureWindowsPath] = ([pathlib.PureWindowsPath("C:\\a\\b"), pathlib.PureWindowsPath("a\\b"), pathlib.PureWindowsPath("C:/x"), pathlib.PureWindowsPath("\\\\host\\share\\f")], ["C:/a/b", "a/b"])
    vals[ipaddress.IPv4Address] = ([ipaddress.IPv4Address(0), ipaddress.IPv4Address(2**32 - 1), ipaddress.IPv4Address("127.0.0.1")] + [ipaddress.IPv4Address(rng.getrandbits(32)) for _ in range(n)], [])
    vals[ipaddress.IPv6Address] = ([ipaddress.IPv6Address(0), ipaddress.IPv6Address(2**128 - 1), ipaddress.IPv6Address("::1"), ipaddress.IPv6Address("fe80::1%eth0")] + [ipaddress.IPv6Address(rng.getrandbits(128)) for _ in range(n)], ["0:0:0:0:0:0:0:1", "::FFFF:1.2.3.4", "2001:DB8::1"])
    vals[ipaddress.IPv4Interface] = ([ipaddress.IPv4Interface("1.2.3.4/24"), ipaddress.IPv4Interface("10.0.0.1/32"), ipaddress.IPv4Interface("0.0.0.0/0")] + [ipaddress.IPv4Interface((rng.getrandbits(32), rng.randint(0, 32))) for _ in range(n)], ["1.2.3.4", "1.2.3.4/255.255.255.0"])
    vals[ipaddress.IPv6Interface] = ([ipaddress.IPv6Interface("::1/128"), ipaddress.IPv6Interface("2001:db8::1/64")] + [ipaddress.IPv6Interface((rng.getrandbits(128), rng.randint(0, 128))) for _ in range(n)], ["::1"])
    vals[ipaddress.IPv4Network] = ([ipaddress.IPv4Network("10.0.0.0/8"), ipaddress.IPv4Network("0.0.0.0/0"), ipaddress.IPv4Network("1.2.3.4/32")] + [ipaddress.IPv4Network((rng.getrandbits(32), rng.randint(0, 32)), strict=False) for _ in range(n)], ["1.2.3.4", "10.0.0.0/255.0.0.0"])
    vals[ipaddress.IPv6Network] = ([ipaddress.IPv6Network("::/0"), ipaddress.IPv6Network("2001:db8::/32")] + [ipaddress.IPv6Network((rng.getrandbits(128), rng.randint(0, 128)), strict=False) for _ in range(n)], ["::1"])
    vals[re.Pattern] = ([re.compile(p) for p in ("", "a", "^a+$", r"\d{2,3}", "(?i)x", "[a-z]*|\\\\", "(?P<n>.)(?P=n)", "é")] + [re.compile("a", re.I), re.compile("^b$", re.M | re.S)], [])
    vals[typing.Deque[int]] = ([collections.deque(), collections.deque([1]), collections.deque([3, 1, 2]), collections.deque([1, 2], maxlen=5)] + [collections.deque(rng.randint(-5, 5) for _ in range(rng.randint(0, 6))) for _ in range(n // 2)], [])
    vals[typing.Deque[typing.Tuple[int, str]]] = ([collections.deque([(1, "a"), (2, "b")])], [])
    return vals


STR_KEYED = (uuid.UUID, dt.date, dt.datetime, dt.time, pathlib.Path, pathlib.PurePosixPath, ipaddress.IPv4Address, ipaddress.IPv6Address, ipaddress.IPv4Network)


def _tname(t) -> str:
    return getattr(t, "__name__", None) if isinstance(t, type) else str(t).replace("typing.", "")


def typed_eq(a, b) -> bool:
    """== with the same runtime classes at every level (std values included)"""
    if type(a) is not type(b):
        return False
    if isinstance(a, (list, tuple, collections.deque)):
        return len(a) == len(b) and all(typed_eq(x, y) for x, y in zip(a, b))
    if isinstance(a, dict):
        return len(a) == len(b) and all(any(typed_eq(k, k2) and typed_eq(v, b[k2]) for k2 in b) for k, v in a.items())
    if dataclasses.is_dataclass(a) and not isinstance(a, type):
        return all(typed_eq(getattr(a, f.name), getattr(b, f.name)) for f in dataclasses.fields(a))
    if isinstance(a, re.Pattern):
        return a.pattern == b.pattern and a.flags == b.flags
    if isinstance(a, decimal.Decimal):
        return a == b
    if isinstance(a, (dt.datetime, dt.time)):
        return a == b and a.utcoffset() == b.utcoffset() and (a.tzinfo is None) == (b.tzinfo is None)
    return a == b


def lossy(v) -> str:
    """the part of a standard value its documented JSON form cannot carry (scope of the recorded
    findings: Decimal goes through a float, a Pattern is its pattern string)"""
    if isinstance(v, decimal.Decimal):
        try:
            return "" if decimal.Decimal(float(v)) == v else "-not-a-float"
        except (OverflowError, ValueError):
            return "-not-a-float"
    if isinstance(v, re.Pattern):
        return "" if v.flags == re.compile(v.pattern).flags else "-flags"
    if isinstance(v, (list, tuple, collections.deque, set, frozenset)):
        return "".join(sorted({lossy(x) for x in v}))
    if isinstance(v, dict):
        return "".join(sorted({lossy(x) for kv in v.items() for x in kv}))
    if dataclasses.is_dataclass(v) and not isinstance(v, type):
        return "".join(sorted({lossy(getattr(v, f.name)) for f in dataclasses.fields(v)}))
    return ""


def run_std(report, tier: str, seed: int, realm):
    from apischema import deserialize, serialize

    rng = random.Random(seed + 1)
    vals = _std_values(rng, tier)
    log = report.driver(
        "roundtrip_std",
        bound=f"{len(vals)} standard-library converted types x (boundary values + {6 if tier == 'quick' else 60} seeded random values each) x contexts {{T, Optional[T], List[T], Dict[str, T], Dict[T, int] for string-serialized T, Tuple[T, int], Deque[T], dataclass field with camelCase aliaser}}; direct and through json.dumps / json.loads; plus non-canonical spellings of accepted data (re-deserialization only)",
    )
    log.rule("case = (context type, value): deserialize(C[T], serialize(C[T], v)) == v with the same classes (pattern: same pattern and flags; datetime / time: same utc offset); dual on the canonical datum serialize(v); for a non-canonical accepted spelling d only deserialize(serialize(deserialize(d))) == deserialize(d) is required")

    def fail(kind, tname, what, summary, observed=None, expected=None):
        log.fail(f"{kind}:{tname}:{what}", f"{kind}: {tname} {what}: {summary}", {"type": tname, "input": what}, observed=rs(observed, 600), expected=rs(expected, 600), functions_involved=["ConversionMethod", "ser.ConversionMethod"])

    def roundtrip(tp, tname, v, **kw):
        log.case((tname, repr(v)), True, sample={"type": tname, "value": repr(v)})
        s = call(serialize, tp, v, **kw)
        if s[0] != "ok":
            fail("serialize-fails", tname, repr(v), f"serialize failed: {rs(s[1], 200)}", observed=s)
            return None
        try:
            tj = json.loads(json.dumps(s[1]))
        except Exception as e:
            fail("not-json", tname, repr(v), f"json.dumps(serialize(T, v)) failed for {rs(s[1], 200)}: {e!r}", observed=s[1])
            tj = None
        for route, data in (("direct", s[1]), ("json", tj)):
            if data is None:
                continue
            r = call(deserialize, tp, copy.deepcopy(data), **kw)
            if r[0] != "ok":
                fail("roundtrip-rejected", tname, f"{route}:{v!r}", f"deserialize rejects serialize's output {rs(data, 200)}: {rs(r[1], 200)}", observed=r, expected=v)
            elif not typed_eq(r[1], v):
                fail("roundtrip-value" + lossy(v), tname, f"{route}:{v!r}", f"deserialize(T, serialize(T, v)) = {rs(r[1], 200)} differs from v = {rs(v, 200)}; data {rs(data, 200)}", observed=r[1], expected=v)
            else:
                s2 = call(serialize, tp, r[1], **kw)
                if s2[0] != "ok" or s2[1] != s[1]:
                    fail("dual-data", tname, f"{route}:{s[1]!r}", f"serialize(T, deserialize(T, d)) = {rs(s2[1], 200)} differs from the canonical datum d = {rs(s[1], 200)}", observed=s2, expected=s[1])
        return s[1]

    for t, (values, spellings) in vals.items():
        tname = _tname(t)
        for v in values:
            roundtrip(t, tname, v)
        # contexts (a few values each)
        few = values[: (4 if tier == "quick" else 12)]
        for v in few:
            roundtrip(typing.Optional[t], f"Optional[{tname}]", v)
            roundtrip(typing.List[t], f"List[{tname}]", [v, v])
            roundtrip(typing.Dict[str, t], f"Dict[str,{tname}]", {"k": v})
            roundtrip(typing.Tuple[t, int], f"Tuple[{tname},int]", (v, 1))
            roundtrip(typing.Deque[t], f"Deque[{tname}]", collections.deque([v]))
            if t in STR_KEYED:
                roundtrip(typing.Dict[t, int], f"Dict[{tname},int]", {v: 1})
        roundtrip(typing.Optional[t], f"Optional[{tname}]", None)
        # a dataclass holding the type, default taken from the values, under an aliaser
        if isinstance(t, type):
            cname = f"Std_{t.__name__}"
            cls = dataclasses.make_dataclass(cname, [("the_value", t), ("opt_value", typing.Optional[t], dataclasses.field(default=None)), ("many_values", typing.List[t], dataclasses.field(default_factory=list))])
            cls.__module__ = realm.name
            setattr(realm.module, cname, cls)
            for v in few:
                roundtrip(cls, cname, cls(v, v, [v]), aliaser=E.camel)
                roundtrip(cls, cname, cls(v), aliaser=E.camel)
        # non-canonical spellings: idempotence only
        for d in spellings:
            r = call(deserialize, t, copy.deepcopy(d))
            log.case((tname, "spelling", repr(d)), True)
            if r[0] != "ok":
                continue  # not accepted: nothing to check (acceptance is C01 / C12's business)
            s = call(serialize, t, r[1])
            r2 = call(deserialize, t, s[1]) if s[0] == "ok" else s
            if r2[0] != "ok" or not typed_eq(r2[1], r[1]):
                fail("dual-redeserialize", tname, repr(d), f"deserialize(T, serialize(T, deserialize(T, d))) = {rs(r2[1], 200)} differs from deserialize(T, d) = {rs(r[1], 200)}", observed=r2, expected=r)


# ---------------------------------------------------------------------------------------------
# unset tracking with default_as_set (hand-written classes: model.py has no default_as_set)


def run_fields_set(report, tier: str, seed: int, realm):
    from apischema import deserialize, serialize
    from apischema.fields import fields_set, with_fields_set
    from apischema.metadata import default_as_set

    @with_fields_set
    @dataclasses.dataclass
    class Tracked:
        a: int
        b: str = "x"
        c: typing.Optional[int] = dataclasses.field(default=None, metadata=default_as_set)
        d: typing.List[int] = dataclasses.field(default_factory=list)
        e_f: float = dataclasses.field(default=0.5, metadata=default_as_set)

    @dataclasses.dataclass
    class TrackedHolder:
        t: Tracked
        ts: typing.List[Tracked] = dataclasses.field(default_factory=list)
        n: int = 0

    for cls in (Tracked, TrackedHolder):
        cls.__module__ = realm.name
        cls.__qualname__ = cls.__name__
        setattr(realm.module, cls.__name__, cls)
    log = report.driver("roundtrip_fields_set", bound="a with_fields_set dataclass with 4 defaulted fields (2 of them default_as_set) and a holder class x all 16 subsets of the optional keys x aliaser in {identity, camelCase}; values built through the constructor with the same 16 subsets", label="E")
    log.rule("case = (class, aliaser, subset of keys): serialize(T, deserialize(T, d)) == d plus the default_as_set fields (and nothing else); the value and its set of set fields survive deserialize(serialize(v)); all subsets of the 4 optional keys are enumerated")
    import itertools

    optional = {"b": "y", "c": 3, "d": [1, 2], "e_f": 1.5}
    for aname, aliaser in (("identity", None), ("camelCase", E.camel)):
        al = aliaser or (lambda s: s)
        kw = {"aliaser": aliaser} if aliaser else {}
        for r in range(len(optional) + 1):
            for keys in itertools.combinations(optional, r):
                d = {al("a"): 1, **{al(k): copy.deepcopy(optional[k]) for k in keys}}
                want = dict(d)
                want.setdefault(al("c"), None)
                want.setdefault(al("e_f"), 0.5)
                log.case(("Tracked", aname, keys), True, sample={"type": "Tracked", "aliaser": aname, "datum": d})

                def fail(kind, what, summary, observed=None, expected=None):
                    log.fail(f"{kind}:Tracked:aliaser={aname}:{what}", f"{kind}: Tracked [{aname}] {what}: {summary}", {"type": "Tracked", "aliaser": aname, "input": what}, observed=rs(observed), expected=rs(expected), functions_involved=["ser.ObjectMethod", "ComplexField", "ObjectMethod"])

                v = call(deserialize, Tracked, copy.deepcopy(d), **kw)
                if v[0] != "ok":
                    fail("dual-rejected", repr(d), f"valid datum rejected: {rs(v[1], 200)}", v)
                    continue
                s = call(serialize, Tracked, v[1], **kw)
                if s[0] != "ok" or not json_eq(want, s[1]):
                    fail("dual-data", repr(d), f"serialize(T, deserialize(T, d)) = {rs(s[1], 200)}, expected d plus the default_as_set fields {want!r}", s, want)
                    continue
                v2 = call(deserialize, Tracked, json.loads(json.dumps(s[1])), **kw)
                if v2[0] != "ok" or v2[1] != v[1] or fields_set(v2[1]) != fields_set(v[1]):
                    fail("dual-redeserialize", repr(d), f"re-deserialization gives {rs(v2[1], 200)} with set fields {sorted(fields_set(v2[1])) if v2[0] == 'ok' else None}, expected {rs(v[1], 200)} with {sorted(fields_set(v[1]))}", v2, v)
                # forward, value built by the constructor
                val = Tracked(1, **{k: copy.deepcopy(optional[k]) for k in keys})
                hold = TrackedHolder(val, [val, Tracked(2)], 5)
                for tp, x in ((Tracked, val), (TrackedHolder, hold)):
                    s = call(serialize, tp, x, **kw)
                    r2 = call(deserialize, tp, json.loads(json.dumps(s[1])), **kw) if s[0] == "ok" else s
                    ok = r2[0] == "ok" and r2[1] == x
                    if ok:
                        pairs = [(r2[1], x)] if tp is Tracked else [(r2[1].t, x.t)] + list(zip(r2[1].ts, x.ts))
                        ok = all(fields_set(p) == fields_set(q) for p, q in pairs)
                    if not ok:
                        fail("roundtrip-value", f"{tp.__name__}:{x!r}", f"deserialize(T, serialize(T, v)) = {rs(r2[1], 200)} (data {rs(s[1], 200)}) differs from v or from its set fields", r2, x)
    log.exhaustive()
