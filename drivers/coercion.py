"""C14 -- coercion only widens acceptance, per the documented table (B: bounded).

Run-time contracts of apischema.deserialize(..., coerce=...) against the strict run and against
a reference written from the statement and docs/de_serialization.md ("Coercion"):

* `coerce_vs_strict`  : for every (type, datum): strict-accepted => accepted with coerce=True (and an
                        equal result for union-free types); every coerce=True outcome must be one
                        the documented table explains: the coercing reference `CoRef` converts a
                        primitive datum at a position expecting another primitive class with
                        int() / float() / str(), the 14-word case-insensitive boolean table,
                        integer -> bool, '' -> None -- and nothing else (containers are never
                        converted, None only from '').  Conversions the statement does not settle
                        (bool -> int / float / str, float -> int) are *open*: both outcomes are
                        admitted (all subsets of the open kinds met are enumerated).
* `coerce_settings`   : settings.deserialization.coerce = True behaves as coerce=True;
                        settings.deserialization.coercer = f (+ coerce=True) behaves as coerce=f.
* `custom_coercers`   : coercer functions returning right- and wrong-typed results: the outcome is
                        the strict deserialization of f(expected JSON class, datum) at every position
                        (so a wrong-typed result is a ValidationError, never an accepted value, never
                        another exception).
* `bool_word_table`   : (E) the 14 documented words x {lower, UPPER, Capitalised, aLTERNATING} x
                        {bool, Optional[bool], List[bool], field} plus near-miss words.
"""
from __future__ import annotations

import copy
import itertools
import random
from typing import Any, Callable, Dict, List, Optional, Tuple

from . import deser_e2e as E
from . import model as M
from . import pools as P
from .model import Ann, AnyT, Coll, Disc, Enm, Lit, Mapp, NewT, Obj, Opt, Prim, Ref, Tup, Uni
from .opt_common import EXT_TYPES, EnmMix, ExtRef, SubP, ext_samples, call, denan, has_fallback, has_union, new_realm, rs, same_outcome, short

NoneType = type(None)

# ---------------------------------------------------------------------------------------------
# the documented table (docs/de_serialization.md, "Coercion")

BOOL_WORDS = {"0": False, "1": True, "f": False, "t": True, "n": False, "y": True, "no": False, "yes": True, "false": False, "true": True, "off": False, "on": True, "ko": False, "ok": True}
# float -> int goes through int() between numbers, so both outcomes are admitted (open).  A bool is NOT a
# number for the statement (strict mode keeps bool distinct from numbers): bool -> int / float / str are
# not in the documented table and must stay rejected; they are only tried to *explain* a violation
OPEN_KINDS = ("float->int",)
FORBIDDEN_KINDS = ("bool->int", "bool->float", "bool->str")


def _reject(d, cls):
    return M.Rejected(M.Err([M.bad_type_msg(d, cls)]))


class Table:
    """the default coercer as documented; `policy` = the open conversions performed"""

    def __init__(self, policy=OPEN_KINDS):
        self.policy = set(policy)
        self.used: set = set()

    def _open(self, kind: str, d, cls, conv):
        self.used.add(kind)
        if kind not in self.policy:
            raise _reject(d, cls)
        try:
            return conv(d)
        except (ValueError, OverflowError):
            raise _reject(d, cls)

    def __call__(self, cls, d):
        t = type(d)
        if cls is NoneType:
            if d is None or (t is str and d == ""):
                return None
            raise _reject(d, cls)
        if cls in (list, dict):
            if isinstance(d, cls):
                return d
            raise _reject(d, cls)  # only primitives are converted
        if t not in (bool, int, float, str):
            raise _reject(d, cls)  # None / containers are converted to nothing
        if cls is bool:
            if t is bool:
                return d
            if t is str:
                if d.lower() in BOOL_WORDS:
                    return BOOL_WORDS[d.lower()]
                raise _reject(d, cls)
            if t is int:
                return bool(d)
            raise _reject(d, cls)
        if cls is int:
            if t is int:
                return d
            if t is bool:
                return self._open("bool->int", d, cls, int)
            if t is float:
                return self._open("float->int", d, cls, int)
            try:
                return int(d)
            except ValueError:
                raise _reject(d, cls)
        if cls is float:
            if t in (int, float):
                return d
            if t is bool:
                return self._open("bool->float", d, cls, float)
            try:
                return float(d)
            except (ValueError, OverflowError):
                raise _reject(d, cls)
        if cls is str:
            if t is str:
                return d
            if t is bool:
                return self._open("bool->str", d, cls, str)
            return str(d)
        raise TypeError(cls)


class UserCoercer:
    """a user coercer f(cls, data) seen from the reference: a ValidationError is a rejection"""

    def __init__(self, f):
        self.f = f
        self.used: set = set()

    def __call__(self, cls, d):
        from apischema import ValidationError

        try:
            return self.f(cls, d)
        except ValidationError:
            raise _reject(d, cls if cls in M.JSON_NAME else NoneType)


class CoRef(ExtRef):
    """reference deserialization with a coercer: at every position the value handed to the strict
    rules is coercer(expected JSON class, datum) -- the strict rules then type-check it"""

    def __init__(self, realm, opts, coercer):
        super().__init__(realm, opts)
        self.co = coercer
        self.ambiguous = False
        self.eq_only = False  # a literal position where the coerced value == a literal of another class

    def deser_obj(self, td, d, c, disc_key=None):
        # the selected alternative of a discriminated union is an object position like any other:
        # the coercer is applied (cls=dict) to the datum and its result is type-checked by the object
        # rules (the discriminator lookup itself, done before, is strict)
        if disc_key is not None:
            d = self.co(dict, d)
        return super().deser_obj(td, d, c, disc_key=disc_key)

    def deser(self, td, d, c=None):
        if isinstance(td, (Ann, NewT, Ref, AnyT, Uni, Disc, SubP)):
            return super().deser(td, d, c)
        if isinstance(td, EnmMix):
            return self.deser(Enm(td.name, td.members), d, c)
        if isinstance(td, Prim):
            return super().deser(td, self.co(M.PRIM_CLS[td.name], d), c)
        if isinstance(td, Opt):
            if d is None:
                return None
            try:
                return self.deser(td.t, d, c)
            except M.Rejected as r:
                try:
                    v = self.co(NoneType, d)
                except M.Rejected:
                    raise M.Rejected(M.merge(r.err, M.Err([M.bad_type_msg(d, NoneType)])))
                if v is None:
                    return None
                raise M.Rejected(M.merge(r.err, M.Err([M.bad_type_msg(d, NoneType)])))
        if isinstance(td, (Coll, Tup)):
            return super().deser(td, self.co(list, d), c)
        if isinstance(td, (Mapp, Obj)):
            return super().deser(td, self.co(dict, d), c)
        if isinstance(td, (Lit, Enm)):
            try:
                return super().deser(td, d, c)
            except M.Rejected as r:
                values = list(td.values) if isinstance(td, Lit) else [v for _, v in td.members]
                classes = []
                for v in values:
                    if type(v) not in classes:
                        classes.append(type(v))
                cands = []
                for cls in classes:
                    try:
                        d2 = self.co(cls, d)
                    except M.Rejected:
                        continue
                    for v in values:
                        if type(v) is type(d2) and v == d2 and v not in cands:
                            cands.append(v)
                        elif type(d2) in (bool, int, float, str) and v == d2:
                            self.eq_only = True
                if not cands:
                    raise r
                if len(cands) > 1:
                    self.ambiguous = True
                return super().deser(td, cands[0], c)
        raise TypeError(td)


def outcomes(td, d, realm, opts, make_coercer) -> Tuple[List[Tuple[str, Any, CoRef]], bool]:
    """the outcomes the statement admits: one per subset of the open conversion kinds met"""
    res: List[Tuple[str, Any, CoRef]] = []

    def one(policy):
        co = make_coercer(policy)
        ref = CoRef(realm, opts, co)
        try:
            out = ("ok", ref.deser(td, copy.deepcopy(d)), ref)
        except M.Rejected as r:
            out = ("err", r.err.flat(), ref)
        return out, co.used, ref.ambiguous

    first, used, amb = one(OPEN_KINDS)
    res.append(first)
    used = sorted(k for k in used if k in OPEN_KINDS)
    for n in range(len(used)):
        for sub in itertools.combinations(used, n):
            o, _, a = one(sub)
            amb = amb or a
            res.append(o)
    return res, amb


def explained_by_forbidden(td, d, value, realm, opts, make_coercer) -> Tuple[str, ...]:
    """diagnosis only: the smallest set of conversions outside the documented table (bool taken as a
    number) under which the reference would produce the observed value"""
    for n in range(1, len(FORBIDDEN_KINDS) + 1):
        for sub in itertools.combinations(FORBIDDEN_KINDS, n):
            co = make_coercer(OPEN_KINDS + sub)
            if not isinstance(co, Table):
                return ()
            ref = CoRef(realm, opts, co)
            try:
                ref.deser(td, copy.deepcopy(d))
            except M.Rejected:
                continue
            if img_ok(td, value, ref, d):
                return sub
    return ()


def img_ok(td, got, ref: CoRef, datum, c=None) -> bool:
    """`got` is the typed image of the datum under the coercing reference; for a union (left open by
    the statement) the image of any accepting alternative"""
    if isinstance(td, (Ann, NewT)):
        return img_ok(td.t, got, ref, datum, M.merge_cons(c, td.cons))
    if isinstance(td, Ref):
        return img_ok(ref.realm.descs[td.name], got, ref, datum, c)
    if isinstance(td, Opt):
        if got is None:
            if datum is None:
                return True
            try:
                return ref.co(NoneType, datum) is None
            except M.Rejected:
                return False
        return img_ok(td.t, got, ref, datum, c)
    if isinstance(td, Uni):
        return any(img_ok(a, got, ref, datum, c) for a in td.alts)
    try:
        exp = ref.deser(td, copy.deepcopy(datum), c)
    except M.Rejected:
        return False
    if ref.ambiguous:
        return True
    return E.image_ok(td, denan(got), denan(exp))


# ---------------------------------------------------------------------------------------------
# data: the C01 value space enriched with numeric strings, boolean words in all cases, '' and
# whitespace, at the top and at every leaf of valid data

NUMERIC_STRINGS = ["0", "1", "7", "-1", "+3", "2.5", "1.0", "1e3", ".5", " 1 ", "1_0", "0x10", "١٢", "nan", "inf", "-inf", "1e400", "1,5", "--1", "1 2"]
WHITE = ["", " ", "\t", "\n", "  ", " true ", "true ", " 0"]


def cases_of(word: str) -> List[str]:
    """every upper / lower case variant of the word (case-insensitive table: 2^letters variants)"""
    out = [""]
    for ch in word:
        out = [p + c for p in out for c in dict.fromkeys((ch.lower(), ch.upper()))]
    return out


BOOL_STRINGS = [s for w in BOOL_WORDS for s in cases_of(w)]
NEAR_WORDS = ["maybe", "tru", "yess", "o", "nope", "2", "01", "null", "none", "None", "oui", "of"]


def leaf_variants(x) -> List[Any]:
    if x is None:
        return ["", " ", 0, "null", False]
    if type(x) is bool:
        return ["true" if x else "false", "YES" if x else "No", "On" if x else "oFF", "ok" if x else "KO", int(x), 2, -1, float(x), "maybe", ""]
    if type(x) is int:
        return [str(x), f" {x} ", float(x), str(float(x)), x + 0.5, bool(x), "x", ""]
    if type(x) is float:
        return [str(x), repr(x) + " ", "nan", "abc", True, ""]
    if type(x) is str:
        return [1, 2.5, True, None, 0, "", "1", "true"]
    return []


def coercible_mutants(d, limit: int) -> List[Any]:
    """every leaf of the datum (and every mapping key's value) replaced by the primitives another
    primitive class could be converted from / to"""
    out: List[Any] = []

    def rec(x, rebuild):
        if len(out) >= limit:
            return
        if isinstance(x, dict):
            for k in list(x):
                rec(x[k], lambda v, k=k: rebuild({**x, k: v}))
            out.append(rebuild(""))
            out.append(rebuild("a,b"))
        elif isinstance(x, list):
            for i in range(min(len(x), 3)):
                rec(x[i], lambda v, i=i: rebuild(x[:i] + [v] + x[i + 1 :]))
            out.append(rebuild(""))
            out.append(rebuild("1,2"))
            out.append(rebuild("ab"))
        else:
            for v in leaf_variants(x):
                out.append(rebuild(v))

    rec(d, lambda v: v)
    return out[:limit]


def data_for(td, tier: str, rng: random.Random) -> List[Any]:
    seen, out = set(), []

    def add(x):
        k = repr(x) + str(P._typesig(x))
        if k not in seen:
            seen.add(k)
            out.append(x)

    base = P.data_pool(td, tier, rng)
    samples = ext_samples(td) + P.valid_samples(td)
    for s in samples:
        add(copy.deepcopy(s))
    for s in samples[: (4 if tier == "quick" else 8)]:
        for m in coercible_mutants(s, 40 if tier == "quick" else 120):
            add(m)
    for x in base:
        add(x)
    top = NUMERIC_STRINGS + WHITE + NEAR_WORDS + (BOOL_STRINGS if tier == "thorough" else BOOL_STRINGS[:: 5]) + [2, -1, 1.0, 0.0, 3.7, 10**20, float("inf")]
    for x in top:
        add(x)
    return out


# str-like targets whose values are the strings str() makes of other primitives ("True", "1", "2.5"),
# alone and inside containers / Optional / unions / object fields (so that an undocumented conversion
# of a bool / number into such a string would be *accepted*, not merely produce a non-member)
BOOLSTR = Lit(("True", "False"))
NUMSTR = Lit(("1", "2.5", "None"))
BOOLNAME = Enm("BoolName", (("T", "True"), ("F", "False"), ("ONE", "1")))
STRID = NewT("StrId", P.STR)
STRID_C = NewT("StrIdC", P.STR, M.cons(min_len=4))
STRLIKE_OBJ = Obj("dataclass", "StrLike", (M.Fld("s", P.STR), M.Fld("lit", BOOLSTR, has_default=True, default="True"), M.Fld("e", Opt(BOOLNAME), has_default=True, default=None), M.Fld("sid", STRID, has_default=True, default="id"), M.Fld("cs", Ann(P.STR, M.cons(pattern="^[TF]")), has_default=True, default="T"), M.Fld("f", P.FLOAT, has_default=True, default=0.0), M.Fld("n", P.INT, has_default=True, default=0)))
STRLIKE_OBJS = (STRLIKE_OBJ,)
STRLIKE_TYPES = [
    BOOLSTR, NUMSTR, BOOLNAME, STRID, STRID_C, Ann(P.STR, M.cons(min_len=4)), Ann(P.STR, M.cons(pattern="^[TF]")),
    Coll("list", BOOLSTR), Coll("set", STRID), Opt(BOOLSTR), Opt(BOOLNAME), Opt(STRID_C), Mapp(P.STR, BOOLSTR), Mapp(BOOLNAME, P.STR), Tup((BOOLSTR, P.STR, P.FLOAT)),
    Uni((P.INT, BOOLSTR)), Uni((P.FLOAT, P.STR)), Uni((BOOLNAME, P.NONE, P.INT)), Lit((1, "True")), Lit((1.5, "1")),
    STRLIKE_OBJ, Coll("list", STRLIKE_OBJ),
]


# ---------------------------------------------------------------------------------------------
# custom coercers (right- and wrong-typed results)


def _default(cls, data):
    from apischema.deserialization.coercion import coerce

    return coerce(cls, data)


def c_identity(cls, data):
    """returns the datum: right-typed iff the datum already is"""
    return data


def c_int_to_bool_only(cls, data):
    """the example of the documentation: only int -> bool"""
    if cls is bool and type(data) is int:
        return bool(data)
    return data


def c_stringly(cls, data):
    """always a string: wrong-typed wherever anything else is expected"""
    if isinstance(data, (list, dict)) or data is None:
        return data
    return str(data)


def c_wrong_const(cls, data):
    """a value of another class than the one asked for"""
    return {int: "seven", float: "2.5", str: 7, bool: "yes", list: "[]", dict: "{}", NoneType: 0}.get(cls, data)


def c_csv_list(cls, data):
    """lists from comma-separated strings (the use mentioned by the documentation), default otherwise"""
    if cls is list and type(data) is str:
        return data.split(",") if data else []
    return _default(cls, data)


def c_shift(cls, data):
    """right-typed but different: int -> int + 1 (shows that the coercer's result is what is used)"""
    if cls is int and type(data) is int:
        return data + 1
    return data


def c_raises(cls, data):
    """rejects everything that is not already of the class with its own ValidationError"""
    from apischema import ValidationError

    if cls is not NoneType and isinstance(data, cls) and not (cls in (int, float) and type(data) is bool):
        return data
    if cls is NoneType and data is None:
        return data
    raise ValidationError(f"cannot make a {cls.__name__}")


CUSTOM = [c_identity, c_int_to_bool_only, c_stringly, c_wrong_const, c_csv_list, c_shift, c_raises]


# ---------------------------------------------------------------------------------------------


def _fail(log, kind, td, mode, d, summary, got, exp, meth):
    try:
        involved = E.method_classes(getattr(meth, "__self__", None))
    except Exception:
        involved = []
    if "CoercerMethod" not in involved:
        involved = involved + ["coerce", "CoercerMethod"]
    log.fail(
        f"{kind}:{short(td)}:{mode}:{d!r}",
        f"{kind}: deserialize({short(td)}, {d!r}, {mode}): {summary}",
        {"type": short(td), "options": mode, "datum": repr(d)},
        observed=rs(got, 600),
        expected=rs(exp, 600),
        functions_involved=involved,
    )


def _check_against_ref(log, td, mode, d, got, realm, opts, make_coercer, meth, must_accept=True):
    """the outcome of the real run must be one of the outcomes the reference admits"""
    outs, amb = outcomes(td, d, realm, opts, make_coercer)
    if got[0] == "crash":
        _fail(log, "crash", td, mode, d, f"escaped with {got[1]}", got, [o[:2] for o in outs][:3], meth)
        return
    if got[0] == "ok":
        for kind, img, ref in outs:
            if kind == "ok" and img_ok(td, got[1], ref, d):
                return
        via = explained_by_forbidden(td, d, got[1], realm, opts, make_coercer)
        tag = ("-via-" + "+".join(via)) if via else ""
        why = f" (the result is what the undocumented conversion {' / '.join(via)} gives: a bool is not a number)" if via else ""
        if any(o[0] == "ok" for o in outs):
            _fail(log, "coerced-image" + tag, td, mode, d, f"accepted with {got[1]!r} ({type(got[1]).__name__}), which is not the typed image of the datum converted per the documented table{why}", got, [o[:2] for o in outs][:3], meth)
        elif any(o[2].eq_only for o in outs):
            _fail(log, "over-accept-literal-eq", td, mode, d, f"accepted (as {got[1]!r}): at a Literal / Enum position the coerced value only == a literal of another class (wrong-typed, e.g. 1.0 or True for 1)", got, [o[:2] for o in outs][:2], meth)
        else:
            _fail(log, "over-accept" + tag, td, mode, d, f"accepted (as {got[1]!r}) although no conversion of the documented table makes the datum conform{why}", got, [o[:2] for o in outs][:2], meth)
        return
    # rejected
    if must_accept and all(o[0] == "ok" for o in outs):
        _fail(log, "table-not-applied", td, mode, d, "rejected although the datum conforms after the documented conversions", got, [o[:2] for o in outs][:2], meth)


def run(report, tier: str, seed: int):
    from apischema import deserialize, settings
    from apischema import cache as ap_cache
    from apischema.deserialization import deserialization_method

    rng = random.Random(seed)
    pool = P.type_pool(tier) + EXT_TYPES + STRLIKE_TYPES
    realm = new_realm("coerce", STRLIKE_OBJS)
    opts = M.Opts()
    try:
        _run_main(report, tier, rng, pool, realm, opts)
        _run_settings(report, tier, rng, pool, realm, opts)
        _run_custom(report, tier, rng, pool, realm, opts)
        _run_words(report, tier, realm, opts)
    finally:
        realm.dispose()


def _tp(report, td, realm):
    try:
        return M.realize(td, realm)
    except Exception as e:
        report.tool_error(f"cannot realise {short(td)}: {e!r}")
        return None


def _run_main(report, tier, rng, pool, realm, opts):
    from apischema.deserialization import deserialization_method

    optsets = [("coerce=True", {}, opts)]
    log = report.driver(
        "coerce_vs_strict",
        bound=f"type pool of {len(pool)} descriptions x (valid samples, <= {40 if tier == 'quick' else 120} leaf-coercion mutants of each of <= {4 if tier == 'quick' else 8} samples, the C01 datum pool, {len(NUMERIC_STRINGS)} numeric strings, {len(WHITE)} empty / whitespace strings, boolean words in mixed letter cases, near-miss words) x {{strict, coerce=True}} (+ fall_back_on_default / additional_properties for object types)",
    )
    log.rule("case = (type description, option set, datum), run strict and with coerce=True on the real API; distinct by that triple; non-trivial when the two runs differ or the datum is not a bare primitive of the expected class")
    P.set_sample_aliaser(None)
    for td in pool:
        tp = _tp(report, td, realm)
        if tp is None:
            continue
        variants = [("", {}, M.Opts())]
        if E._has_obj(td):
            variants += [("+additional", {"additional_properties": True}, M.Opts(additional_properties=True)), ("+fallback", {"fall_back_on_default": True}, M.Opts(fall_back_on_default=True))]
        union_free = not has_union(td, realm)
        data = data_for(td, tier, rng)
        for vi, (vname, kw, mopts) in enumerate(variants):
            try:
                strict = deserialization_method(tp, coerce=False, **kw)
                co = deserialization_method(tp, coerce=True, **kw)
            except Exception as e:
                log.fail(f"compile:{short(td)}:coerce=True{vname}:{type(e).__name__}", f"deserialization_method({short(td)}, coerce=True{vname}) raised {e!r}", {"type": short(td)}, observed=repr(e), functions_involved=[])
                continue
            fb = bool(kw.get("fall_back_on_default")) or has_fallback(td, realm)
            mode = "coerce=True" + vname
            for d in data if vi == 0 else data[: max(40, len(data) // 3)]:
                before = copy.deepcopy(d)
                s = call(strict, d)
                g = call(co, copy.deepcopy(d))
                nontrivial = s[0] != g[0] or isinstance(d, (list, dict)) or not isinstance(td, Prim)
                log.case((short(td), mode, repr(d), str(P._typesig(d))), nontrivial, sample={"type": short(td), "options": mode, "datum": d, "strict": s[0], "coerce": g[0]} if s[0] != g[0] else None)
                if s[0] == "crash":
                    continue  # C03's business, the strict run is only the yardstick here
                if not E.deep_eq(before, d):
                    _fail(log, "input-mutated", td, mode, d, f"input changed from {before!r}", d, before, co)
                if s[0] == "ok":
                    if g[0] != "ok":
                        _fail(log, "narrowed", td, mode, d, f"accepted in strict mode (as {s[1]!r}) but {'rejected' if g[0] == 'err' else 'crashing'} with coerce=True: {rs(g[1], 200)}", g, s, co)
                        continue
                    if union_free and not fb and not E.deep_eq(denan(s[1]), denan(g[1])):
                        _fail(log, "changed-result", td, mode, d, f"union-free type: strict result {s[1]!r} but {g[1]!r} with coerce=True", g, s, co)
                        continue
                _check_against_ref(log, td, mode, d, g, realm, mopts, lambda policy: Table(policy), co)
    return log


def _run_settings(report, tier, rng, pool, realm, opts):
    from apischema import deserialize, settings
    from apischema import cache as ap_cache
    from apischema.deserialization import deserialization_method

    log = report.driver("coerce_settings", bound=f"type pool of {len(pool)} descriptions x <= {25 if tier == 'quick' else 80} data each x {{settings.deserialization.coerce=True vs coerce=True; settings.deserialization.coercer=f with coerce=True vs coerce=f, f in 2 custom coercers}}")
    log.rule("case = (type, setting, datum): the result obtained through the global setting must be identical (value and classes, or error list) to the one obtained through the parameter")
    n = 25 if tier == "quick" else 80
    prev_coerce, prev_coercer = settings.deserialization.coerce, settings.deserialization.coercer
    P.set_sample_aliaser(None)
    try:
        for setting, apply, kw_param, kw_setting in (
            ("settings.coerce=True", lambda: setattr(settings.deserialization, "coerce", True), {"coerce": True}, {}),
            ("settings.coercer=c_csv_list", lambda: setattr(settings.deserialization, "coercer", c_csv_list), {"coerce": c_csv_list}, {"coerce": True}),
            ("settings.coercer=c_wrong_const", lambda: setattr(settings.deserialization, "coercer", c_wrong_const), {"coerce": c_wrong_const}, {"coerce": True}),
            ("settings.coerce=True,coerce=False", lambda: setattr(settings.deserialization, "coerce", True), {"coerce": False}, {"coerce": False}),
        ):
            settings.deserialization.coerce, settings.deserialization.coercer = prev_coerce, prev_coercer
            ap_cache.reset()
            expected = {}
            datas = {}
            for td in pool:
                tp = _tp(report, td, realm)
                if tp is None:
                    continue
                data = data_for(td, "quick", rng)
                rng.shuffle(data)
                datas[td] = data[:n]
                expected[td] = [call(deserialize, tp, copy.deepcopy(d), **kw_param) for d in datas[td]]
            apply()
            ap_cache.reset()
            for td in pool:
                if td not in datas:
                    continue
                tp = M.realize(td, realm)
                for d, exp in zip(datas[td], expected[td]):
                    got = call(deserialize, tp, copy.deepcopy(d), **kw_setting)
                    log.case((short(td), setting, repr(d)), True, sample=None)
                    if not _same(exp, got):
                        _fail(log, "setting-differs", td, setting, d, f"through the setting: {rs(got, 200)}; through the parameter: {rs(exp, 200)}", got, exp, None)
    finally:
        settings.deserialization.coerce, settings.deserialization.coercer = prev_coerce, prev_coercer
        ap_cache.reset()
    return log


_same = same_outcome


def _run_custom(report, tier, rng, pool, realm, opts):
    from apischema.deserialization import deserialization_method

    log = report.driver("custom_coercers", bound=f"type pool of {len(pool)} descriptions x {len(CUSTOM)} coercer functions (identity, int->bool only, always-str, wrong-class constant, csv lists, int+1, raising) x <= {30 if tier == 'quick' else 100} data each")
    log.rule("case = (type, coercer, datum): the outcome must be the strict deserialization of coercer(expected JSON class, datum) applied at every position (reference CoRef): a wrong-typed coercer result is a ValidationError, a right-typed one is used; distinct by the triple")
    n = 30 if tier == "quick" else 100
    P.set_sample_aliaser(None)
    for td in pool:
        tp = _tp(report, td, realm)
        if tp is None:
            continue
        data = data_for(td, "quick", rng)
        rng.shuffle(data)
        valid = (ext_samples(td) + [copy.deepcopy(s) for s in P.valid_samples(td)])[:4]
        data = valid + data[:n]
        for f in CUSTOM:
            mode = f"coerce={f.__name__}"
            try:
                meth = deserialization_method(tp, coerce=f)
            except Exception as e:
                log.fail(f"compile:{short(td)}:{mode}:{type(e).__name__}", f"deserialization_method({short(td)}, {mode}) raised {e!r}", {"type": short(td)}, observed=repr(e), functions_involved=[])
                continue
            for d in data:
                g = call(meth, copy.deepcopy(d))
                log.case((short(td), mode, repr(d), str(P._typesig(d))), True, sample={"type": short(td), "options": mode, "datum": d, "outcome": g[0]} if g[0] == "ok" and f is not c_identity else None)
                _check_against_ref(log, td, mode, d, g, realm, opts, lambda policy, f=f: UserCoercer(f), meth)
    return log


def _run_words(report, tier, realm, opts):
    from apischema import deserialize

    words = BOOL_STRINGS
    BW = Obj("dataclass", "BoolWord", (M.Fld("flag", P.BOOL), M.Fld("maybe", Opt(P.BOOL), has_default=True, default=None)))
    M.realize(BW, realm)
    types = [P.BOOL, Opt(P.BOOL), Coll("list", P.BOOL), Mapp(P.STR, P.BOOL), Tup((P.BOOL, P.STR)), Lit((True,)), Uni((P.BOOL, P.NONE)), BW]
    log = report.driver("bool_word_table", bound=f"the {len(BOOL_WORDS)} documented words in every upper / lower case variant ({len(words)} strings, complete) + {len(NEAR_WORDS) + len(WHITE)} near-miss / blank strings x {len(types)} positions of bool", label="E")
    log.rule("case = (position type, word): accepted with coerce=True exactly for the documented words, in any letter case, with the documented truth value; rejected in strict mode")

    def wrap(td, w):
        if isinstance(td, Coll):
            return [w]
        if isinstance(td, Mapp):
            return {"k": w}
        if isinstance(td, Tup):
            return [w, "s"]
        if isinstance(td, Obj):
            return {"flag": w, "maybe": w}
        return w

    def image(td, b):
        if isinstance(td, Coll):
            return [b]
        if isinstance(td, Mapp):
            return {"k": b}
        if isinstance(td, Tup):
            return (b, "s")
        if isinstance(td, Obj):
            return realm.built["BoolWord"](b, b)
        return b

    for td in types:
        tp = M.realize(td, realm)
        for w in words + NEAR_WORDS + WHITE:
            d = wrap(td, w)
            s = call(deserialize, tp, copy.deepcopy(d))
            g = call(deserialize, tp, copy.deepcopy(d), coerce=True)
            log.case((short(td), w), True, sample={"type": short(td), "datum": d, "coerce": g[0]} if w in ("oFf", "YES", "fALSe") else None)
            if s[0] != "err":
                _fail(log, "strict-accepts-word", td, "strict", d, "a string is accepted where a boolean is expected", s, "err", None)
            if w.lower() in BOOL_WORDS:
                exp = image(td, BOOL_WORDS[w.lower()])
                if isinstance(td, Lit) and BOOL_WORDS[w.lower()] is not True:
                    if g[0] != "err":
                        _fail(log, "over-accept", td, "coerce=True", d, "a false word accepted for Literal[True]", g, "err", None)
                    continue
                if g[0] != "ok" or not E.deep_eq(g[1], exp):
                    _fail(log, "bool-word", td, "coerce=True", d, f"documented boolean word {w!r} should give {exp!r}", g, ("ok", exp), None)
            else:
                ok_none = w == "" and isinstance(td, (Opt, Uni))
                if ok_none:
                    if not (g[0] == "ok" and g[1] is None):
                        _fail(log, "empty-to-none", td, "coerce=True", d, "'' should be coerced to None", g, ("ok", None), None)
                elif isinstance(td, Obj) and w == "":
                    if g[0] != "err":
                        _fail(log, "over-accept", td, "coerce=True", d, "'' accepted for bool", g, "err", None)
                elif g[0] != "err":
                    _fail(log, "over-accept", td, "coerce=True", d, f"{w!r} is not in the documented table", g, "err", None)
    log.exhaustive()
    return log
