"""Late registration scenarios for C04 / C07: a serialized method (or a class serializer) registered
AFTER the class has already been serialized / described must show up in the next serialize and
serialization_schema calls made with the same options ("serialized methods included",
"conversions applied": the statements do not depend on when the registration happened).

E-like small scenario driver (B): registration kinds x observation paths x option sets, each on
freshly generated classes; the registrations are removed again at the end."""
from __future__ import annotations

import sys
import types as pytypes
import typing
from typing import Any, Dict, List, Tuple

from .deser_e2e import camel

SOURCE = """
from dataclasses import dataclass, field
from typing import List, Optional

@dataclass
class LBase:
    x: int
    y: int = 0

@dataclass
class LSub(LBase):
    z: Optional[int] = None

@dataclass
class LHold:
    one: LBase
    many: List[LBase] = field(default_factory=list)

@dataclass
class LConv:
    r: int
    g: int = 0

@dataclass
class LConvHold:
    c: LConv
    cs: List[LConv] = field(default_factory=list)
"""

OPTION_SETS: Dict[str, dict] = {"default": {}, "camel": {"aliaser": camel}, "exclude_none": {"exclude_none": True}}


def _alias(o: dict, s: str) -> str:
    return o["aliaser"](s) if "aliaser" in o else s


def run(report, tier: str, seed: int, mode: str, log_name: str = "late_registration"):
    """mode 'image': C04 (the image contains the late method / is the converted one);
    mode 'schema': C07 (the schema declares it and the data validates)"""
    import jsonschema

    import apischema
    from apischema import serialization_method, serialize, serialized, serializer
    from apischema.conversions import Conversion
    from apischema.json_schema import serialization_schema

    log = report.driver(
        log_name,
        bound="5 generated classes (base, subclass, holder with a field and a list of the class, converted class, its holder) x 4 late registrations in sequence (serialized(alias, owner=) free function, typed free function without owner, serialized(owner=base) seen from the subclass, serializer(Conversion) on a class already serialized) x observation paths (the class, a list of it, a holder, serialize(v) without type, a re-requested serialization_method, serialization_schema) x 3 option sets (default, camelCase aliaser, exclude_none); every path is exercised before each registration so that all caches are warm",
        label="B",
    )
    log.rule(
        "case = (registration step, observation path, option set); after each registration the image / schema obtained through every path with the same options as before must include the newly registered serialized method under its aliased name with its value (resp. be the converted image), and everything registered earlier; the image before the registration must not include it. Distinct by the triple; all cases non-trivial (the caches hold an entry compiled before the registration)"
    )
    mod_name = f"verif_late_{mode}_{seed}_{id(report) & 0xFFFF}"
    module = pytypes.ModuleType(mod_name)
    sys.modules[mod_name] = module
    registered: List[type] = []
    try:
        exec(SOURCE, module.__dict__)
        ns = module.__dict__
        LBase, LSub, LHold, LConv, LConvHold = (ns[n] for n in ("LBase", "LSub", "LHold", "LConv", "LConvHold"))
        b1, b2, sub = LBase(1, 2), LBase(3), LSub(4, 5, None)
        c1 = LConv(7, 8)
        methods: List[Tuple[str, Any, Tuple[type, ...]]] = []  # (alias, function of the instance, classes it applies to)
        converted = [False]

        def img_base(v, o, as_base=False) -> dict:
            """the image by the declared type (a subclass instance held in a List[LBase] is an LBase)"""
            d: Dict[str, Any] = {"x": v.x, "y": v.y}
            if isinstance(v, LSub) and not as_base and not (v.z is None and o.get("exclude_none")):
                d["z"] = v.z
            for alias, fn, _ in methods:
                d[_alias(o, alias)] = fn(v)
            return d

        def img_conv(v, o):
            return f"{v.r}/{v.g}" if converted[0] else {"r": v.r, "g": v.g}

        def paths(o: dict) -> List[Tuple[str, Any, Any, Any]]:
            """(path name, type or None, value, expected image)"""
            return [
                ("class", LBase, b1, img_base(b1, o)),
                ("subclass", LSub, sub, img_base(sub, o)),
                ("list", typing.List[LBase], [b1, b2], [img_base(b1, o), img_base(b2, o)]),
                ("holder", LHold, LHold(b1, [b2, sub]), {"one": img_base(b1, o), "many": [img_base(b2, o), img_base(sub, o, as_base=True)]}),
                ("untyped", None, b2, img_base(b2, o)),
                ("untyped-nested", None, {"k": [sub]}, {"k": [img_base(sub, o)]}),
                ("conv-class", LConv, c1, img_conv(c1, o)),
                ("conv-holder", LConvHold, LConvHold(c1, [c1]), {"c": img_conv(c1, o), "cs": [img_conv(c1, o)]}),
                ("conv-untyped", None, [c1], [img_conv(c1, o)]),
            ]

        def observe(step: str):
            for oname, o in OPTION_SETS.items():
                for pname, tp, v, exp in paths(o):
                    log.case((step, pname, oname), True, sample={"step": step, "path": pname, "options": oname})
                    try:
                        got = serialize(v, **o) if tp is None else serialize(tp, v, **o)
                        got_m = got if tp is None else serialization_method(tp, **o)(v)
                    except Exception as e:
                        got = got_m = f"raised {type(e).__name__}: {e}"
                    if mode == "image":
                        if got != exp or got_m != exp:
                            log.fail(
                                f"late-image:{step}:{pname}:{oname}",
                                f"after [{step}], serialize through `{pname}` ({oname}) gives {got!r} (serialization_method: {got_m!r}); every registered serialized method / conversion must be applied: {exp!r}",
                                {"step": step, "path": pname, "options": oname, "source": SOURCE},
                                observed=repr(got),
                                expected=repr(exp),
                                functions_involved=["serialized", "serialization_method_factory", "CacheAwareDict", "SerializedField"],
                            )
                        continue
                    if tp is None:
                        continue
                    kw = {k: x for k, x in o.items() if k == "aliaser"}
                    if "exclude_none" in o:
                        continue  # exclude_none is a global setting for schemas (covered by the main C07 driver)
                    try:
                        schema = serialization_schema(tp, **kw)
                        errs = [e.message for e in jsonschema.Draft202012Validator(schema).iter_errors(got)]
                    except Exception as e:
                        schema, errs = None, [f"raised {type(e).__name__}: {e}"]
                    if errs:
                        log.fail(
                            f"late-schema:{step}:{pname}:{oname}",
                            f"after [{step}], serialize through `{pname}` ({oname}) = {got!r} does not validate against serialization_schema generated afterwards: {errs[0][:200]}",
                            {"step": step, "path": pname, "options": oname, "source": SOURCE, "schema": schema},
                            observed=errs[:3],
                            expected="valid",
                            functions_involved=["serialized", "SerializationSchemaBuilder", "CacheAwareDict"],
                        )

        observe("nothing registered")

        # 1. serialized(alias, owner=) on a free function
        def manhattan(p) -> int:
            return abs(p.x) + abs(p.y)

        manhattan.__annotations__ = {"p": LBase, "return": int}
        serialized("norm_one", owner=LBase)(manhattan)
        registered.append(LBase)
        methods.append(("norm_one", lambda v: abs(v.x) + abs(v.y), (LBase,)))
        observe("serialized(alias, owner=LBase)")

        # 2. typed free function, no owner (the first parameter's annotation gives it)
        def x_twice(p) -> typing.List[int]:
            return [p.x, p.x]

        x_twice.__annotations__ = {"p": LBase, "return": typing.List[int]}
        serialized(x_twice)
        methods.append(("x_twice", lambda v: [v.x, v.x], (LBase,)))
        observe("serialized typed function")

        # 3. a second aliased registration after the caches are warm again
        def label(p) -> str:
            return f"#{p.x}"

        label.__annotations__ = {"p": LBase, "return": str}
        serialized("the_label", owner=LBase)(label)
        methods.append(("the_label", lambda v: f"#{v.x}", (LBase,)))
        observe("second serialized(alias, owner=LBase)")

        # 4. a class serializer registered after the class has been serialized
        def to_text(c) -> str:
            return f"{c.r}/{c.g}"

        serializer(Conversion(to_text, source=LConv, target=str))
        registered.append(LConv)
        converted[0] = True
        observe("serializer(Conversion) on LConv")
    finally:
        # remove the registrations (private registries: there is no public API to unregister a serialized method)
        try:
            from apischema.conversions.converters import reset_serializer
            from apischema.serialization.serialized_methods import _serialized_methods

            for cls in registered:
                try:
                    del _serialized_methods[cls]
                except Exception:
                    pass
                reset_serializer(cls)
        except Exception:
            pass
        sys.modules.pop(mod_name, None)
        apischema.cache.reset()
    return log
