"""C09, E: exhaustive AST scan of the configuration roots of the package.

Every module-level mutable binding and every settings class is forced into exactly one of
{registry guarded by CacheAwareDict, cache, constant after import, outside the statement's
operation list}; a registry that is not wrapped, a settings class without the ResetCache
metaclass, or an in-place mutation of a registry value that is not followed by a store through
the wrapper (or a reset()) in the same function is a violation, with the offending statement as
the witness.  The finite domain (all module-level bindings, all settings classes, all functions
touching a registry) is enumerated completely.
"""
from __future__ import annotations

import ast
import os
from typing import Dict, List, Set, Tuple

# bindings that hold configuration the C09 statement lists -- they must be CacheAwareDict-wrapped
REGISTRIES = {
    "_deserializers", "_serializers", "_resolvers", "_schemas", "_class_aliasers", "_type_names", "_discriminators",
    "_validators", "_dependent_requireds", "_order_overriding", "_serialized_methods", "_class_fields",
}
# other module-level mutable bindings, each with the reason it is not a configuration root of C09
CLASSIFIED = {
    "_cached": "the list of lru caches itself (cleared by reset)",
    "cache": "validation/dependencies.py: memo of the AST dependency analysis keyed by function object (functions are immutable inputs)",
    "INVALID_METADATA": "constant after import",
    "OPEN_API_3_0_UNSUPPORTED": "constant after import",
    "TYPE_TO_JSON_TYPE": "constant after import",
    "GRAPHQL_PRIMITIVE_TYPES": "constant after import",
    "async_iterable_origins": "constant after import",
    "no_type_name": "constant after import",
    "JSON_TYPES": "constant after import",
    "constraint_classes": "constant after import",
    "STR_TO_BOOL": "constant after import (filled by a module-level loop)",
    "STR_NONE_VALUES": "constant after import",
    "BASE_GENERIC_MRO": "constant after import",
    "_type_vars": "constant after import",
    "ITERABLE_TYPES": "constant after import",
    "METHODS": "constant after import",
    "_interfaces": "GraphQL interface marks: not in the statement's operation list",
    "_tmp_nodes": "relay node registration: not in the statement's operation list",
    "_nodes": "relay node registration: not in the statement's operation list",
    "_fields_set_classes": "with_fields_set marks: not in the statement's operation list",
    "COLLECTION_TYPES": "constant", "MAPPING_TYPES": "constant", "PRIMITIVE_TYPES": "constant",
}
# raw functools memoisation that is NOT stale-prone, each with the reason
ALLOWED_RAW_MEMO = {
    (os.path.join("apischema", "deserialization", "__init__.py"), "_method"): "per-instance memo of a DeserializationMethodFactory: the factories are created by the @cache'd visitors and dropped with them",
    (os.path.join("apischema", "conversions", "conversions.py"), "__post_init__"): "per-instance lru_cache(1) of a LazyConversion's own getter: holds what the user's thunk returned, no registry is read",
}
MUTATING_METHODS = {"append", "extend", "insert", "remove", "pop", "clear", "update", "setdefault", "add", "discard", "popitem", "sort", "reverse"}
MUTABLE_CALLS = {"dict", "list", "set", "defaultdict", "WeakKeyDictionary", "OrderedDict", "deque", "CacheAwareDict"}


def _is_mutable_value(v: ast.expr) -> bool:
    if isinstance(v, (ast.Dict, ast.List, ast.Set, ast.DictComp, ast.ListComp, ast.SetComp)):
        return True
    if isinstance(v, ast.Call):
        f = v.func
        name = f.id if isinstance(f, ast.Name) else f.attr if isinstance(f, ast.Attribute) else ""
        return name in MUTABLE_CALLS
    return False


def _wrapped(v: ast.expr) -> bool:
    return isinstance(v, ast.Call) and isinstance(v.func, ast.Name) and v.func.id == "CacheAwareDict"


def scan(report, root: str):
    log = report.driver("config_roots_scan", bound="every module-level binding, settings class and registry-touching function of the package (finite, enumerated completely)", label="E")
    log.rule("case = one module-level mutable binding / one settings class / one function mentioning a registry; non-trivial when it is a registry or a settings class or mutates a registry value")
    pkg = os.path.join(root, "apischema")
    registry_names: Set[str] = set()
    trees: Dict[str, ast.Module] = {}
    for dp, _, fns in os.walk(pkg):
        for fn in fns:
            if fn.endswith(".py"):
                path = os.path.join(dp, fn)
                with open(path) as f:
                    trees[path] = ast.parse(f.read())
    seen_regs: Set[str] = set()
    for path, tree in sorted(trees.items()):
        rel = os.path.relpath(path, root)
        for node in tree.body:
            tgt = val = None
            if isinstance(node, ast.Assign) and len(node.targets) == 1 and isinstance(node.targets[0], ast.Name):
                tgt, val = node.targets[0].id, node.value
            elif isinstance(node, ast.AnnAssign) and isinstance(node.target, ast.Name) and node.value is not None:
                tgt, val = node.target.id, node.value
            if tgt is None or not _is_mutable_value(val) or tgt == "__all__":
                continue
            is_reg = tgt in REGISTRIES
            log.case((rel, tgt), is_reg, sample={"binding": f"{rel}:{node.lineno} {tgt}", "class": "registry" if is_reg else CLASSIFIED.get(tgt, "?")})
            if is_reg:
                seen_regs.add(tgt)
                registry_names.add(tgt)
                if not _wrapped(val):
                    log.fail(f"unguarded-registry:{rel}:{tgt}", f"{rel}:{node.lineno}: registry `{tgt}` is not wrapped in CacheAwareDict: a registration after first use does not reset the caches", {"binding": tgt, "file": rel, "line": node.lineno}, functions_involved=[tgt])
            elif _wrapped(val):
                registry_names.add(tgt)
            elif tgt not in CLASSIFIED:
                report.tool_error(f"config scan: unclassified module-level mutable binding {rel}:{node.lineno} `{tgt}` (classify it in drivers/config_roots.py)")
    for r in sorted(REGISTRIES - seen_regs):
        report.tool_error(f"config scan: registry `{r}` named by the sidecar was not found in the package")
    # settings classes: `settings` and every class nested in it carry the ResetCache metaclass
    spath = os.path.join(pkg, "settings.py")
    stree = trees.get(spath)
    if stree is None:
        report.tool_error("config scan: apischema/settings.py not found")
    else:
        metas = {n.name: [b.id for b in n.bases if isinstance(b, ast.Name)] for n in stree.body if isinstance(n, ast.ClassDef)}

        def derives_reset(name: str) -> bool:
            return name == "ResetCache" or any(derives_reset(b) for b in metas.get(name, []))

        for n in stree.body:
            if isinstance(n, ast.ClassDef) and n.name == "settings":
                classes = [n] + [m for m in n.body if isinstance(m, ast.ClassDef)]
                for c in classes:
                    meta = [k.value.id for k in c.keywords if k.arg == "metaclass" and isinstance(k.value, ast.Name)]
                    log.case(("settings", c.name), True, sample={"settings_class": c.name, "metaclass": meta})
                    if not (meta and derives_reset(meta[0])):
                        log.fail(f"unguarded-settings:{c.name}", f"apischema/settings.py:{c.lineno}: settings class `{c.name}` has no ResetCache metaclass: assigning one of its attributes does not reset the caches", {"class": c.name, "line": c.lineno}, functions_involved=["ResetCache"])
    # in-place mutation of registry values
    for path, tree in sorted(trees.items()):
        rel = os.path.relpath(path, root)
        for fn in [n for n in ast.walk(tree) if isinstance(n, (ast.FunctionDef, ast.AsyncFunctionDef))]:
            mentions = {n.id for n in ast.walk(fn) if isinstance(n, ast.Name) and n.id in registry_names}
            if not mentions:
                continue
            aliases: Dict[str, str] = {}  # local name -> registry it was read from
            for st in ast.walk(fn):
                if isinstance(st, ast.Assign) and len(st.targets) == 1 and isinstance(st.targets[0], ast.Name):
                    v = st.value
                    if isinstance(v, ast.Subscript) and isinstance(v.value, ast.Name) and v.value.id in registry_names:
                        aliases[st.targets[0].id] = v.value.id

            def reg_of(e: ast.expr):
                if isinstance(e, ast.Subscript) and isinstance(e.value, ast.Name) and e.value.id in registry_names:
                    return e.value.id
                if isinstance(e, ast.Name) and e.id in aliases:
                    return aliases[e.id]
                return None

            inplace: List[Tuple[int, str]] = []
            guarded: Dict[str, int] = {}
            has_reset = False
            for st in ast.walk(fn):
                if isinstance(st, ast.Call) and isinstance(st.func, ast.Attribute) and st.func.attr in MUTATING_METHODS:
                    r = reg_of(st.func.value)
                    if r:
                        inplace.append((st.lineno, r))
                if isinstance(st, (ast.Assign, ast.AugAssign)):
                    for t in (st.targets if isinstance(st, ast.Assign) else [st.target]):
                        if isinstance(t, ast.Subscript):
                            r = reg_of(t.value)  # REG[k][k2] = v  or  alias[k] = v
                            if r:
                                inplace.append((st.lineno, r))
                            if isinstance(t.value, ast.Name) and t.value.id in registry_names:
                                guarded[t.value.id] = max(guarded.get(t.value.id, 0), st.lineno)
                if isinstance(st, ast.Delete):
                    for t in st.targets:
                        if isinstance(t, ast.Subscript) and isinstance(t.value, ast.Name) and t.value.id in registry_names:
                            guarded[t.value.id] = max(guarded.get(t.value.id, 0), st.lineno)
                if isinstance(st, ast.Call) and ((isinstance(st.func, ast.Name) and st.func.id == "reset") or (isinstance(st.func, ast.Attribute) and st.func.attr == "reset")):
                    has_reset = True
            log.case((rel, fn.name, fn.lineno), bool(inplace), sample={"function": f"{rel}:{fn.lineno} {fn.name}", "in_place_mutations": inplace, "stores_through_wrapper": guarded} if inplace else None)
            for line, r in inplace:
                if not has_reset and guarded.get(r, 0) < line:
                    log.fail(f"inner-mutation:{rel}:{fn.name}:{r}", f"{rel}:{line}: `{fn.name}` mutates a value of registry `{r}` in place and never stores through the wrapper afterwards: the caches are not reset", {"file": rel, "function": fn.name, "line": line, "registry": r}, functions_involved=[fn.name])
    # memoisation: every cache of the package must be registered with the reset protocol
    # (apischema.cache.cache), or live inside something that is (a closure of a @cache'd factory, a
    # per-instance cache of an object itself created by a @cache'd factory)
    for path, tree in sorted(trees.items()):
        rel = os.path.relpath(path, root)
        if rel == os.path.join("apischema", "cache.py"):
            continue

        def is_raw_memo(dec: ast.expr) -> bool:
            d = dec.func if isinstance(dec, ast.Call) else dec
            name = d.id if isinstance(d, ast.Name) else d.attr if isinstance(d, ast.Attribute) else ""
            if name == "lru_cache":
                return True
            return name == "cache" and isinstance(d, ast.Attribute) and isinstance(d.value, ast.Name) and d.value.id == "functools"

        def is_reset_cache(dec: ast.expr) -> bool:
            return isinstance(dec, ast.Name) and dec.id == "cache"

        def visit(node, under_reset: bool, owner: str):
            for child in ast.iter_child_nodes(node):
                if isinstance(child, (ast.FunctionDef, ast.AsyncFunctionDef)):
                    raw = [d for d in child.decorator_list if is_raw_memo(d)]
                    reg = any(is_reset_cache(d) for d in child.decorator_list)
                    if raw or reg:
                        where = f"{rel}:{child.lineno} {owner + '.' if owner else ''}{child.name}"
                        ok = reg or under_reset or (rel, child.name) in ALLOWED_RAW_MEMO
                        log.case(("memo", rel, child.lineno), True, sample={"memoised": where, "registered": reg, "inside_registered_factory": under_reset})
                        if not ok:
                            log.fail(f"unregistered-memo:{rel}:{child.name}", f"{where}: memoised with functools.lru_cache / cache, which apischema.cache.reset() does not know: results computed before a settings change or a registration stay in use", {"file": rel, "function": child.name, "line": child.lineno}, functions_involved=[child.name])
                    visit(child, under_reset or reg, child.name)
                elif isinstance(child, ast.ClassDef):
                    visit(child, under_reset, child.name)
                else:
                    # lru_cache(...)(f) applied by a call (module level or inside functions)
                    if isinstance(child, ast.Call) and isinstance(child.func, ast.Call) and is_raw_memo(child.func):
                        where = f"{rel}:{child.lineno}"
                        ok = under_reset or (rel, owner) in ALLOWED_RAW_MEMO
                        log.case(("memo-call", rel, child.lineno), True, sample={"memoised_by_call": where, "inside": owner})
                        if not ok:
                            log.fail(f"unregistered-memo:{rel}:{owner or 'module'}:call", f"{where}: a function is wrapped by functools.lru_cache(...) outside the reset protocol", {"file": rel, "line": child.lineno, "inside": owner}, functions_involved=[owner])
                    visit(child, under_reset, owner)

        visit(tree, False, "")
    log.exhaustive()
    return log
