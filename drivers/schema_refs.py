"""C17 -- generated JSON Schemas are well-formed, closed and finite (B).

A *graph* is a root type plus an independent description of its reference structure:
`nodes[name]` = the named types used by the body of the named type `name` (with multiplicity),
`root_uses` = the named types used by the root expression, `disc` = members of discriminated
unions.  For the descriptions of drivers/model.py this structure is computed from the description
(Obj / Enum / NewType are the named types); for real classes (type_name overrides, generics,
conversions, serialized methods...) it is written by hand next to the classes.

From the statement, the expected set of definitions is
    all_refs=True : every named type reached from the root,
    all_refs=False: those used more than once (a recursive type is used by itself, hence more
                    than once) or members of a discriminated union,
where the body of a named type counts once however often the type is used (it is *one*
definition), and an anonymous type's body counts at each of its uses.

Checked for each graph x entry point x all_refs x version x ref_factory x with_schema:
 terminate  generation returns (or refuses with TypeError / ValueError for a clash) within a time limit
 meta       the result is valid against the meta-schema of the dialect it declares ($schema; the
            version's own dialect for definitions / with_schema=False; OpenAPI 3.0 through the
            documented mapping of schema_common.oas30_to_json_schema)
 closed     every $ref (and discriminator mapping target) is ref_factory(name) of exactly one
            emitted definition, and resolves as a JSON pointer when definitions are inline
 names      the emitted definitions are exactly the expected set (see above)
 finite     definitions only at the root; no definition reaches itself without descending into
            the instance (such a schema has no defined validation result)
 same-defs  definitions_schema(...) == the inline definitions
 clash      two distinct types with one name are refused, never merged
"""
import signal
from contextlib import contextmanager
from dataclasses import dataclass, field
from typing import Any, Callable, Dict, List, Optional, Set, Tuple

from . import model as M
from . import pools as P
from . import schema_common as C
from .schema_common import tname

INT, FLOAT, STR, BOOL, NONE = P.INT, P.FLOAT, P.STR, P.BOOL, P.NONE


@dataclass
class Graph:
    name: str
    root: Any
    nodes: Dict[str, List[str]]
    root_uses: List[str]
    disc: Set[str] = field(default_factory=set)
    opts: Dict[str, Dict[str, Any]] = field(default_factory=dict)  # direction -> extra options
    directions: Tuple[str, ...] = ("deserialization", "serialization")
    ser_nodes: Optional[Dict[str, List[str]]] = None
    ser_root_uses: Optional[List[str]] = None
    native: bool = True  # a hand-written graph of real classes (False: computed from a description)
    check_names: bool = True  # False: the statement does not fix the expected set (only the other clauses are checked)

    def structure(self, direction: str):
        if direction == "serialization" and self.ser_nodes is not None:
            return self.ser_nodes, (self.ser_root_uses if self.ser_root_uses is not None else self.root_uses)
        return self.nodes, self.root_uses


def expected_defs(nodes: Dict[str, List[str]], root_uses: List[str], disc: Set[str], all_refs: bool) -> Set[str]:
    count: Dict[str, int] = {}
    todo = list(root_uses)
    while todo:
        n = todo.pop()
        count[n] = count.get(n, 0) + 1
        if count[n] == 1:
            todo.extend(nodes.get(n, []))
    if all_refs:
        return set(count)
    return {n for n, c in count.items() if c > 1 or n in disc}


# ---------------------------------------------------------------------------
# structure of a description (independent of apischema: from the statement's notion of named type)


def structure_of(td, descs: Dict[str, M.Obj], direction: str = "deserialization") -> Tuple[Dict[str, List[str]], List[str], Set[str]]:
    """the fields of an object that belong to a direction: a field(init=False) cannot be given,
    so it is read-only (serialization only); an InitVar is write-only (deserialization only)"""
    nodes: Dict[str, List[str]] = {}
    disc: Set[str] = set()

    def uses(t) -> List[str]:
        """named types used by the expression t (not looking inside named types)"""
        if isinstance(t, M.Ref):
            t = descs[t.name]
        if isinstance(t, (M.Obj, M.Enm, M.NewT)):
            body(t)
            return [t.name]
        if isinstance(t, M.Disc):
            out: List[str] = []
            for a in t.alts:
                disc.add(a.name)
                out += uses(a)
            return out
        out = []
        for c in C.children(t):
            out += uses(c)
        return out

    def body(t):
        if t.name in nodes:
            return
        nodes[t.name] = []  # guard for recursion
        res: List[str] = []
        if isinstance(t, M.Obj):
            for f in t.fields:
                if direction == "deserialization" and not f.init:
                    continue
                res += uses(f.t)
        elif isinstance(t, M.NewT):
            res += uses(t.t)
        nodes[t.name] = res

    root_uses = uses(td)
    return nodes, root_uses, disc


S1 = M.Obj("dataclass", "S1", (M.Fld("a", P.A), M.Fld("e", P.COLOR), M.Fld("p", P.POS), M.Fld("b", M.Opt(P.A), has_default=True, default=None), M.Fld("c", M.Coll("list", P.B), factory="list"), M.Fld("e2", M.Opt(P.COLOR), has_default=True, default=None), M.Fld("ps", M.Coll("list", P.POS), factory="list")))
S2 = M.Obj("dataclass", "S2", (M.Fld("inner", P.A2, flatten=True), M.Fld("other", M.Opt(P.A2), has_default=True, default=None)))
S3 = M.Obj("dataclass", "S3", (M.Fld("pet", P.DISC1), M.Fld("cat", P.CAT), M.Fld("fish", M.Opt(P.FISH), has_default=True, default=None)))
NA = M.NewT("NA", P.A)
S4 = M.Obj("dataclass", "S4", (M.Fld("x", NA), M.Fld("y", P.A), M.Fld("m", M.Mapp(STR, NA), factory="dict")))
S5 = M.Obj("typeddict", "S5", (M.Fld("n", P.NT), M.Fld("ns", M.Coll("list", P.NT), td_required=False), M.Fld("t", P.TD1)))
S6 = M.Obj("namedtuple", "S6", (M.Fld("k", M.Mapp(P.NAME, P.NAME)), M.Fld("u", M.Uni((P.USERID, STR)))))
RO1 = M.Obj("dataclass", "RO1", (M.Fld("x", P.A), M.Fld("st", P.B, init=False, has_default=True, default=None), M.Fld("sts", M.Coll("list", P.COLOR), init=False, factory="list")))
RO2 = M.Obj("dataclass", "RO2", (M.Fld("value", INT), M.Fld("kids", M.Coll("list", M.Ref("RO2")), init=False, factory="list")))
RO3 = M.Obj("dataclass", "RO3", (M.Fld("a", P.A), M.Fld("a2", M.Opt(P.A), init=False, has_default=True, default=None), M.Fld("r", M.Opt(RO2), has_default=True, default=None)))
S7 = M.Obj("dataclass", "S7", (M.Fld("d", P.D), M.Fld("a", M.Tup((P.A, INT)))))


def description_graphs(tier: str, realm: M.Realm) -> List[Graph]:
    tds: List[Any] = [t for t in P.type_pool(tier) if C.has_named(t)]
    tds += [
        S1,
        S2,
        S3,
        S4,
        S5,
        S6,
        S7,
        RO1,
        RO2,
        RO3,
        M.Coll("list", RO2),
        M.Tup((RO1, M.Opt(P.B))),
        M.Tup((P.A, P.A)),
        M.Coll("list", P.D),
        M.Mapp(STR, M.Uni((P.A, P.B))),
        M.Tup((P.NODE, M.Coll("list", P.NODE))),
        M.Opt(P.PQ_P),
        M.Uni((P.PQ_P, P.PQ_Q)),
        M.Tup((P.COLOR, M.Opt(P.COLOR), P.NAME)),
        M.Tup((P.POS, M.Ann(P.POS, M.cons(max=5)), P.USERID)),
        M.Coll("list", S3),
        M.Tup((P.DISC1, P.DISC2)),
        M.Mapp(P.NAME, P.NAME),
        M.Tup((NA, NA)),
        M.Opt(P.E),
        M.Tup((P.E, P.A)),
        M.Tup((P.H, P.M_)),
    ]
    out = []
    for td in tds:
        tp = M.realize(td, realm)
        nodes, root_uses, disc = structure_of(td, realm.descs, "deserialization")
        ser_nodes, ser_root_uses, ser_disc = structure_of(td, realm.descs, "serialization")
        out.append(Graph(tname(td), tp, nodes, root_uses, disc | ser_disc, native=False, ser_nodes=ser_nodes, ser_root_uses=ser_root_uses))
    return out


# ---------------------------------------------------------------------------
# real classes with their hand-written structure


def native_graphs(realm: M.Realm) -> List[Graph]:
    import typing
    from dataclasses import dataclass as dc
    from dataclasses import field as dfield
    from typing import Dict as TDict
    from typing import Generic, List as TList, NewType, Optional as TOpt, Sequence, TypeVar, Union

    from apischema import deserializer, discriminator, serialized, serializer, type_name
    from apischema.metadata import flatten

    mod = realm.name
    T = TypeVar("T")
    out: List[Graph] = []

    keep = realm.built.setdefault("native:keep", [])  # subclasses are only weakly referenced by their parent

    def own(*classes):
        for c in classes:
            c.__module__ = mod
            keep.append(c)

    # -- generic with a name factory, flattened argument (docs: generic_type_name)
    @type_name(lambda tp, arg: f"{arg.__name__}Resource")
    @dc
    class Resource(Generic[T]):
        id: int
        content: T = dfield(metadata=flatten)

    @dc
    class Foo:
        bar: str

    @dc
    class Bar:
        baz: int = 0

    @dc
    class Pair:
        l: Resource[Foo]
        r: Resource[Foo]
        o: Resource[Bar]
        z: TOpt[Foo] = None

    own(Resource, Foo, Bar, Pair)
    out.append(Graph("Resource[Foo] (name factory on a generic, flattened T)", Resource[Foo], {"FooResource": ["Foo"], "Foo": []}, ["FooResource"]))
    out.append(Graph("Pair{l,r:Resource[Foo],o:Resource[Bar],z:Opt[Foo]}", Pair, {"Pair": ["FooResource", "FooResource", "BarResource", "Foo"], "FooResource": ["Foo"], "BarResource": ["Bar"], "Foo": [], "Bar": []}, ["Pair"]))
    out.append(Graph("Dict[str,Resource[Bar]]", TDict[str, Resource[Bar]], {"BarResource": ["Bar"], "Bar": []}, ["BarResource"]))

    # -- string override, None override
    @type_name("Custom")
    @dc
    class X:
        v: int

    @dc
    class Named2:
        w: int = 0

    @type_name(None)
    @dc
    class Anon:
        n: Named2

    @dc
    class Named:
        x: X

    @dc
    class Holder:
        a: Anon
        b: Anon
        c: Named

    own(X, Named2, Anon, Named, Holder)
    out.append(Graph("Tuple[List[X],X] with type_name('Custom')(X)", typing.Tuple[TList[X], X], {"Custom": []}, ["Custom", "Custom"]))
    out.append(Graph("Holder{a,b:Anon(type_name(None)){n:Named2},c:Named{x:X}}", Holder, {"Holder": ["Named2", "Named2", "Named"], "Named": ["Custom"], "Named2": [], "Custom": []}, ["Holder"]))
    out.append(Graph("List[Anon] (type_name(None))", TList[Anon], {"Named2": []}, ["Named2"]))

    # -- named collection alias, interchangeable builtin collections
    @dc
    class Elt:
        e: int

    own(Elt)
    type_name("Elts")(TList[Elt])
    out.append(Graph("Tuple[List[Elt],Sequence[Elt]] with type_name('Elts')(List[Elt])", typing.Tuple[TList[Elt], Sequence[Elt]], {"Elts": ["Elt"], "Elt": []}, ["Elts", "Elts"]))
    out.append(Graph("Optional[List[Elt]] with type_name('Elts')(List[Elt])", TOpt[TList[Elt]], {"Elts": ["Elt"], "Elt": []}, ["Elts"]))

    # -- NewType of a named class, renamed NewType
    NewFoo = NewType("NewFoo", Foo)
    NewFoo.__module__ = mod
    Renamed = NewType("OldName", int)
    Renamed.__module__ = mod
    type_name("Renamed")(Renamed)
    out.append(Graph("List[NewFoo] (NewType of a dataclass)", TList[NewFoo], {"NewFoo": ["Foo"], "Foo": []}, ["NewFoo"]))
    out.append(Graph("Tuple[NewFoo,Foo,Renamed,Renamed]", typing.Tuple[NewFoo, Foo, Renamed, Renamed], {"NewFoo": ["Foo"], "Foo": [], "Renamed": []}, ["NewFoo", "Foo", "Renamed", "Renamed"]))

    # -- recursion through Dict / Optional / Union, mutual recursion with a once-used member
    ns: Dict[str, Any] = {"typing": typing, "dc": dc, "dfield": dfield}
    exec(
        "@dc\n"
        "class Tree:\n"
        "    kids: typing.Dict[str, 'Tree'] = dfield(default_factory=dict)\n"
        "    parent: typing.Optional['Tree'] = None\n"
        "@dc\n"
        "class Add:\n"
        "    l: typing.Union[int, 'Add']\n"
        "    r: typing.Union[int, 'Mul']\n"
        "@dc\n"
        "class Mul:\n"
        "    f: typing.List[typing.Union[int, Add]]\n",
        ns,
    )
    Tree, Add, Mul = ns["Tree"], ns["Add"], ns["Mul"]
    own(Tree, Add, Mul)
    setattr(realm.module, "Tree", Tree)
    setattr(realm.module, "Add", Add)
    setattr(realm.module, "Mul", Mul)
    out.append(Graph("Tree{kids:Dict[str,Tree],parent:Opt[Tree]}", Tree, {"Tree": ["Tree", "Tree"]}, ["Tree"]))
    out.append(Graph("Union[int,Add] (Add{l:int|Add,r:int|Mul}, Mul{f:List[int|Add]})", Union[int, Add], {"Add": ["Add", "Mul"], "Mul": ["Add"]}, ["Add"]))
    out.append(Graph("List[Mul]", TList[Mul], {"Add": ["Add", "Mul"], "Mul": ["Add"]}, ["Mul"]))

    # -- registered conversions change the body of the named type, per direction
    @dc
    class DTO:
        x: int

    @dc
    class Conv:
        v: int

    @dc
    class Money:
        cents: int

    own(DTO, Conv, Money)

    @deserializer
    def conv_from_dto(d: DTO) -> Conv:
        return Conv(d.x)

    @serializer
    def conv_to_money(c: Conv) -> Money:
        return Money(c.v)

    @dc
    class HC:
        a: Conv
        b: TOpt[Conv] = None

    own(HC)
    out.append(Graph("HC{a:Conv,b:Opt[Conv]} (Conv <-DTO registered deserializer, ->Money registered serializer)", HC, {"HC": ["Conv", "Conv"], "Conv": ["DTO"], "DTO": []}, ["HC"], ser_nodes={"HC": ["Conv", "Conv"], "Conv": ["Money"], "Money": []}))
    out.append(Graph("Conv (registered conversions)", Conv, {"Conv": ["DTO"], "DTO": []}, ["Conv"], ser_nodes={"Conv": ["Money"], "Money": []}))

    # -- dynamic conversions replace the type before its name is looked up
    @dc
    class Baz:
        v: int

    own(Baz)

    def baz_from_dto(d: DTO) -> Baz:
        return Baz(d.x)

    def baz_to_money(b: Baz) -> Money:
        return Money(b.v)

    out.append(Graph("Tuple[Baz,Baz,DTO] conversion=DTO->Baz (dynamic)", typing.Tuple[Baz, Baz, DTO], {"DTO": []}, ["DTO", "DTO", "DTO"], opts={"deserialization": {"conversion": baz_from_dto}}, directions=("deserialization",)))
    out.append(Graph("Dict[str,Baz] conversion=Baz->Money (dynamic)", TDict[str, Baz], {"Money": []}, ["Money"], opts={"serialization": {"conversion": baz_to_money}}, directions=("serialization",)))
    type_name("Moneys")(TList[Money])
    out.append(Graph("List[Baz] conversion=Baz->Money, type_name('Moneys')(List[Money]) (docs: dynamic_type_name)", TList[Baz], {"Moneys": ["Money"], "Money": []}, ["Moneys"], opts={"serialization": {"conversion": baz_to_money}}, directions=("serialization",)))

    # -- serialized methods add uses on the serialization side only
    @dc
    class Account:
        owner: Foo

    # (registered with an explicit owner: classes local to a function are not located by name)
    def balance(acc: Account) -> Money:
        return Money(0)

    def limit(acc: Account) -> TOpt[Money]:
        return None

    serialized(owner=Account)(balance)
    serialized(owner=Account)(limit)
    own(Account)
    out.append(Graph("Account{owner:Foo; serialized balance->Money, limit->Opt[Money]}", Account, {"Account": ["Foo"], "Foo": []}, ["Account"], ser_nodes={"Account": ["Foo", "Money", "Money"], "Foo": [], "Money": []}))

    @dc
    class SA:
        v: int

    @dc
    class SB:
        w: int

    def other(a: SA) -> TOpt[SB]:
        return None

    def back(b: SB) -> TOpt[SA]:
        return None

    serialized(owner=SA)(other)
    serialized(owner=SB)(back)
    own(SA, SB)
    out.append(Graph("SA{v; serialized other->Opt[SB]}, SB{w; serialized back->Opt[SA]} (recursion through serialized methods)", SA, {"SA": [], "SB": []}, ["SA"], ser_nodes={"SA": ["SB"], "SB": ["SA"]}))

    # -- fields that exist in one direction only: InitVar (write-only), init=False (read-only),
    #    skip(deserialization / serialization), direction-specific field conversions
    from dataclasses import InitVar

    from apischema.metadata import conversion as fconv
    from apischema.metadata import skip

    @dc
    class Stats:
        n: int = 0

    @dc
    class Secret:
        key: str = ""

    @dc
    class Acct:
        owner: Foo
        secret: InitVar[Secret]
        secret2: InitVar[TOpt[Secret]] = None
        stats: Stats = dfield(init=False, default_factory=Stats)
        history: TList[Stats] = dfield(init=False, default_factory=list)

        def __post_init__(self, secret, secret2):
            pass

    own(Stats, Secret, Acct)
    out.append(Graph("Acct{owner:Foo; secret,secret2:InitVar[Secret] (write-only); stats:Stats,history:List[Stats] init=False (read-only)}", Acct, {"Acct": ["Foo", "Secret", "Secret"], "Foo": [], "Secret": []}, ["Acct"], ser_nodes={"Acct": ["Foo", "Stats", "Stats"], "Foo": [], "Stats": []}))
    out.append(Graph("List[Acct]", TList[Acct], {"Acct": ["Foo", "Secret", "Secret"], "Foo": [], "Secret": []}, ["Acct"], ser_nodes={"Acct": ["Foo", "Stats", "Stats"], "Foo": [], "Stats": []}))

    ns2: Dict[str, Any] = {"typing": typing, "dc": dc, "dfield": dfield, "InitVar": InitVar}
    exec(
        "@dc\n"
        "class RNode:\n"
        "    value: int\n"
        "    children: typing.List['RNode'] = dfield(init=False, default_factory=list)\n",
        ns2,
    )
    RNode = ns2["RNode"]
    own(RNode)
    setattr(realm.module, "RNode", RNode)
    out.append(Graph("RNode{value; children:List[RNode] init=False} (recursive through a read-only field only)", RNode, {"RNode": []}, ["RNode"], ser_nodes={"RNode": ["RNode"]}))
    out.append(Graph("Dict[str,RNode]", TDict[str, RNode], {"RNode": []}, ["RNode"], ser_nodes={"RNode": ["RNode"]}))

    @dc
    class In1:
        i: int = 0

    @dc
    class Out1:
        o: int = 0

    @dc
    class Mid:
        m: int = 0

    def mid_from_in(x: In1) -> Mid:
        return Mid(x.i)

    def mid_to_out(x: Mid) -> Out1:
        return Out1(x.m)

    @dc
    class Skips:
        both: Foo
        only_out: Bar = dfield(default_factory=Bar, metadata=skip(deserialization=True))
        only_in: TOpt[Elt] = dfield(default=None, metadata=skip(serialization=True))
        conv: Mid = dfield(default_factory=Mid, metadata=fconv(deserialization=mid_from_in, serialization=mid_to_out))
        convs: TList[Mid] = dfield(default_factory=list, metadata=fconv(deserialization=mid_from_in, serialization=mid_to_out))

    own(In1, Out1, Mid, Skips)
    out.append(Graph("Skips{both:Foo; only_out:Bar skip(deserialization); only_in:Opt[Elt] skip(serialization); conv:Mid,convs:List[Mid] field conversions In1->Mid / Mid->Out1}", Skips, {"Skips": ["Foo", "Elt", "In1", "In1"], "Foo": [], "Elt": [], "In1": []}, ["Skips"], ser_nodes={"Skips": ["Foo", "Bar", "Out1", "Out1"], "Foo": [], "Bar": [], "Out1": []}))

    # -- every annotation keyword of schema(...) in every value form the API accepts, on types
    #    (class, NewType, Annotated), fields, serialized methods and per call
    from apischema import schema as sch_

    def extra_fn(js):
        js["x-generated"] = True
        js.setdefault("readOnly", False)

    FORMS = {
        "dep_bool": sch_(deprecated=True),
        "dep_false": sch_(deprecated=False),
        "dep_msg": sch_(deprecated="use uuid instead"),
        "examples": sch_(examples=[1, 2]),
        "default": sch_(default=3),
        "default_none": sch_(default=None),
        "title_desc": sch_(title="T", description="some text"),
        "format": sch_(format="int32"),
        "extra_dict": sch_(extra={"x-internal": True, "readOnly": True}),
        "extra_fn": sch_(extra=extra_fn),
        "all": sch_(title="T", description="D", default=1, examples=[1], deprecated="gone", format="int64", min=0, extra={"x-a": 1}),
    }
    STR_FORMS = {
        "media": sch_(media_type="application/json", encoding="base64"),
        "media_only": sch_(media_type="text/plain"),
        "fmt_dep": sch_(format="uuid", deprecated="use id", examples=["a"], min_len=1),
    }
    from apischema.typing import Annotated as Ann_

    NoteId = NewType("NoteId", int)
    NoteId.__module__ = mod
    sch_(title="id", description="an id", deprecated="use uuid", examples=[1], default=0, extra={"x-nt": 1})(NoteId)
    Blob = NewType("Blob", str)
    Blob.__module__ = mod
    sch_(media_type="application/json", encoding="base64", format="byte", deprecated=True)(Blob)

    doc_ann = {f"f_{k}": int for k in FORMS}
    doc_ann.update({f"s_{k}": str for k in STR_FORMS})
    doc_ann.update({"a_dep": Ann_[int, sch_(deprecated="annotated reason")], "a_all": TOpt[Ann_[int, sch_(title="T", description="D", default=1, examples=(1,), deprecated="gone", format="int64", min=0)]], "nid": NoteId, "nids": TList[NoteId], "blob": TOpt[Blob]})
    doc_ns: Dict[str, Any] = {"__annotations__": doc_ann}
    for k, v in {**FORMS, **STR_FORMS}.items():
        doc_ns[("s_" if k in STR_FORMS else "f_") + k] = dfield(default="x" if k in STR_FORMS else 0, metadata=v)
    doc_ns.update({"a_dep": 0, "a_all": None, "nid": dfield(default=0, metadata=sch_(deprecated="field over type", title="override")), "nids": dfield(default_factory=list), "blob": None})
    Doc = dc(type("Doc", (), doc_ns))
    sch_(title="Doc", description="documented", deprecated="whole class", examples=[{}], extra=extra_fn)(Doc)
    own(Doc)
    for k, v in {"dep_msg": FORMS["dep_msg"], "examples": FORMS["examples"], "all": FORMS["all"], "extra_fn": FORMS["extra_fn"], "dep_bool": FORMS["dep_bool"]}.items():

        def meth(d: Doc) -> TOpt[NoteId]:
            return None

        meth.__name__ = f"m_{k}"
        serialized(owner=Doc, schema=v)(meth)
    doc_nodes = {"Doc": ["NoteId", "NoteId", "Blob"], "NoteId": [], "Blob": []}
    doc_ser = {"Doc": ["NoteId", "NoteId", "Blob"], "NoteId": [], "Blob": []}  # (+ serialized methods: known finding, not extracted)
    out.append(Graph("Doc (every schema() annotation keyword / value form on fields, Annotated, NewTypes, the class and serialized methods)", Doc, doc_nodes, ["Doc"], ser_nodes={"Doc": ["NoteId", "NoteId", "Blob"] + ["NoteId"] * 5, "NoteId": [], "Blob": []}, check_names=False))
    for k, v in {**FORMS, "str_media": STR_FORMS["media"]}.items():
        root = TList[Doc] if k == "all" else (Blob if k == "str_media" else NoteId)
        nodes_k = doc_nodes if k == "all" else ({"Blob": []} if k == "str_media" else {"NoteId": []})
        out.append(Graph(f"{'List[Doc]' if k == 'all' else ('Blob' if k == 'str_media' else 'NoteId')} with per-call schema={k}", root, nodes_k, ["Doc"] if k == "all" else (["Blob"] if k == "str_media" else ["NoteId"]), opts={"deserialization": {"schema": v}, "serialization": {"schema": v}}, check_names=k != "all", native=False))  # (native=False: pairwise combinations in the quick tier, every version still visited)

    # -- anonymous generic specialization: its body is used at each occurrence
    @dc
    class Box(Generic[T]):
        item: T

    @dc
    class Wrapper:
        a: Box[Foo]
        b: Box[Foo]
        c: Box[Bar]

    own(Box, Wrapper)
    out.append(Graph("Wrapper{a,b:Box[Foo],c:Box[Bar]} (Box[T] has no name)", Wrapper, {"Wrapper": ["Foo", "Foo", "Bar"], "Foo": [], "Bar": []}, ["Wrapper"]))

    # -- inherited discriminator (docs: inherited_discriminator): the parent and every subclass are definitions
    @discriminator("type")
    class Pet:
        pass

    @dc
    class PCat(Pet):
        pass

    @dc
    class PDog(Pet):
        n: int = 0

    own(Pet, PCat, PDog)
    pet_nodes = {"PCat": ["Pet"], "PDog": ["Pet"], "Pet": []}
    out.append(Graph("Pet (inherited discriminator, plain parent)", Pet, pet_nodes, ["PCat", "PDog"], disc={"PCat", "PDog"}))
    out.append(Graph("List[Pet]", TList[Pet], pet_nodes, ["PCat", "PDog"], disc={"PCat", "PDog"}))
    out.append(Graph("PCat (subclass of a discriminated parent, as root)", PCat, pet_nodes, ["PCat"], disc={"PCat", "Pet"}, check_names=False))

    @discriminator("kind")
    @dc
    class Shape:
        kind: str

    @dc
    class Circle(Shape):
        r: int = 1

    @dc
    class Square(Shape):
        side: int = 1

    own(Shape, Circle, Square)
    out.append(Graph("Shape (inherited discriminator, dataclass parent)", Shape, {"Circle": ["Shape"], "Square": ["Shape"], "Shape": []}, ["Circle", "Square"], disc={"Circle", "Square"}))
    return out


# ---------------------------------------------------------------------------
# clashes: (label, build) -> call that must be refused; controls that must not be


def clash_cases(realm: M.Realm) -> List[Tuple[str, Callable[[str, dict], Any], bool]]:
    """(label, call(direction, opts), must_refuse)"""
    import typing
    from dataclasses import dataclass as dc
    from typing import Generic, List as TList, NewType, Sequence, TypeVar

    from apischema import type_name
    from apischema.json_schema import definitions_schema, deserialization_schema, serialization_schema

    mod = realm.name

    def mk(name, **fields):
        cls = dc(type(name, (), {"__annotations__": dict(fields)}))
        cls.__module__ = mod
        return cls

    entry = {"deserialization": deserialization_schema, "serialization": serialization_schema}
    Same1, Same2 = mk("Same", a=int), mk("Same", b=str)
    Twin1, Twin2 = mk("Twin", a=int), mk("Twin", a=int)  # same shape, still distinct types
    N1, N2 = type_name("Shared")(mk("N1", a=int)), type_name("Shared")(mk("N2", a=int))
    Outer = mk("Outer", inner=N2, other=N1)
    NT_ = NewType("Clash", int)
    NT_.__module__ = mod
    ClashCls = mk("Clash", a=int)
    T = TypeVar("T")

    @type_name(lambda tp, arg: "Fixed")
    @dc
    class GBox(Generic[T]):
        item: T

    GBox.__module__ = mod
    Elt = mk("CElt", a=int)
    type_name("CElts")(TList[Elt])
    K1, K2 = mk("K1", a=int), mk("K2", a=int)  # fresh classes: registrations on List[int] would be global
    type_name("Ks")(TList[K1])
    type_name("Ks")(TList[K2])
    from apischema.typing import Annotated

    AnnA, AnnB = Annotated[int, type_name("Tagged")], Annotated[str, type_name("Tagged")]
    Deep = mk("Deep", xs=typing.Dict[str, TList[typing.Optional[Same1]]], y=typing.Tuple[int, Same2])

    def schema_of(tp):
        return lambda d, o: entry[d](tp, **o)

    def defs_of(*tps):
        return lambda d, o: definitions_schema(**{d: list(tps)}, **{k: v for k, v in o.items() if k != "with_schema"})

    return [
        ("Tuple[Same#1,Same#2] (two dataclasses with one __name__)", schema_of(typing.Tuple[Same1, Same2]), True),
        ("Tuple[Twin#1,Twin#2] (same name and same shape)", schema_of(typing.Tuple[Twin1, Twin2]), True),
        ("Outer{inner:N2,other:N1} with type_name('Shared') on N1 and N2", schema_of(Outer), True),
        ("Tuple[NewType('Clash',int),class Clash]", schema_of(typing.Tuple[NT_, ClashCls]), True),
        ("Tuple[GBox[int],GBox[str]] (name factory returning a fixed name)", schema_of(typing.Tuple[GBox[int], GBox[str]]), True),
        ("Deep{xs:Dict[str,List[Opt[Same#1]]],y:Tuple[int,Same#2]} (clash below containers)", schema_of(Deep), True),
        ("Tuple[List[K1],List[K2]] both registered as 'Ks' (same generic origin, different arguments)", schema_of(typing.Tuple[TList[K1], TList[K2]]), True),
        ("Tuple[Annotated[int,type_name('Tagged')],Annotated[str,type_name('Tagged')]]", schema_of(typing.Tuple[AnnA, AnnB]), True),
        ("control: Tuple[Annotated[int,type_name('Tagged')],Annotated[int,type_name('Tagged')]]", schema_of(typing.Tuple[AnnA, AnnA]), False),
        ("definitions_schema([Same#1,Same#2])", defs_of(Same1, Same2), True),
        ("definitions_schema([List[Twin#1],Optional[Twin#2]])", defs_of(TList[Twin1], typing.Optional[Twin2]), True),
        ("control: Tuple[Same#1,Same#1,List[Same#1]] (one type used three times)", schema_of(typing.Tuple[Same1, Same1, TList[Same1]]), False),
        ("control: Tuple[List[CElt],Sequence[CElt]] named 'CElts' (interchangeable builtin collections)", schema_of(typing.Tuple[TList[Elt], Sequence[Elt]]), False),
        ("control: Tuple[GBox[int],GBox[int]]", schema_of(typing.Tuple[GBox[int], GBox[int]]), False),
        ("control: definitions_schema([Same#1,List[Same#1]])", defs_of(Same1, TList[Same1]), False),
    ]


def cross_direction_pairs(realm: M.Realm) -> List[Tuple[str, Any, Any, str]]:
    """(label, T_deserialization, T_serialization, shared name): two types carrying one type name,
    one given to definitions_schema(deserialization=...), the other to serialization=.  Generated
    systematically: families of shapes whose members are equal / differ by a scalar / differ by
    the length of a list (strict prefix, either side longer) / differ by one element of a list,
    each family also nested below containers and inside the properties of same-named classes."""
    import typing
    from dataclasses import dataclass as dc
    from typing import Dict as TDict
    from typing import List as TList
    from typing import Literal, Optional as TOpt, Union

    from apischema import schema, type_name
    from apischema.typing import Annotated

    mod = realm.name
    keep = realm.built.setdefault("native:keep", [])
    families: Dict[str, List[Tuple[str, Any]]] = {
        "enum": [("Lit[on,off]", Literal["on", "off"]), ("Lit[on,off,unknown]", Literal["on", "off", "unknown"]), ("Lit[on,of]", Literal["on", "of"]), ("Lit[on]", Literal["on"])],
        "type-array": [("int|str", Union[int, str]), ("int|str|bool", Union[int, str, bool]), ("int|bool", Union[int, bool]), ("int", int)],
        "anyOf": [("int|List[str]", Union[int, TList[str]]), ("int|List[str]|Dict[str,int]", Union[int, TList[str], TDict[str, int]]), ("int|List[int]", Union[int, TList[int]])],
        "prefixItems": [("Tuple[int,str]", typing.Tuple[int, str]), ("Tuple[int,str,bool]", typing.Tuple[int, str, bool]), ("Tuple[int,int]", typing.Tuple[int, int])],
        "scalar": [("int<min=1>", Annotated[int, schema(min=1)]), ("int<min=2>", Annotated[int, schema(min=2)]), ("int<min=1,max=5>", Annotated[int, schema(min=1, max=5)]), ("str", str)],
        "nested": [("List[Opt[Lit[a,b]]]", TList[TOpt[Literal["a", "b"]]]), ("List[Opt[Lit[a,b,c]]]", TList[TOpt[Literal["a", "b", "c"]]]), ("Dict[str,Tuple[int,Lit[a,b]]]", TDict[str, typing.Tuple[int, Literal["a", "b"]]]), ("Dict[str,Tuple[int,Lit[a,b,c]]]", TDict[str, typing.Tuple[int, Literal["a", "b", "c"]]])],
    }

    def holder(inner):
        cls = dc(type("Holder", (), {"__annotations__": {"k": inner, "ks": TList[inner]}}))
        cls.__module__ = mod
        keep.append(cls)
        return cls

    out: List[Tuple[str, Any, Any, str]] = []
    for fam, members in families.items():
        for la, a in members:
            for lb, b in members:
                ta, tb = Annotated[a, type_name("Shared")], Annotated[b, type_name("Shared")]
                out.append((f"{fam}: {la} / {lb} both named 'Shared'", ta, tb, "Shared"))
                out.append((f"{fam}: List[{la}] / Dict[str,{lb}] elements named 'Shared'", TList[ta], TDict[str, tb], "Shared"))
                # two distinct classes with one name and the same property names, differing (or not) inside a property
                out.append((f"{fam}: class Holder{{k:{la}}} / class Holder{{k:{lb}}} (distinct classes)", holder(a), holder(b), "Holder"))
    return out


# ---------------------------------------------------------------------------


class Timeout(Exception):
    pass


@contextmanager
def time_limit(seconds: float):
    def handler(signum, frame):
        raise Timeout()

    try:
        old = signal.signal(signal.SIGALRM, handler)
    except ValueError:  # not in the main thread: no limit
        yield
        return
    signal.setitimer(signal.ITIMER_REAL, seconds)
    try:
        yield
    finally:
        signal.setitimer(signal.ITIMER_REAL, 0)
        signal.signal(signal.SIGALRM, old)


def custom_ref_factory(name: str) -> str:
    return f"http://example.org/schemas/{name}.json#"


SAME_INSTANCE = ("allOf", "anyOf", "oneOf")


def same_instance_refs(schema) -> List[str]:
    """$refs applied to the same instance location as `schema` itself"""
    out: List[str] = []
    if not isinstance(schema, dict):
        return out
    if "$ref" in schema:
        out.append(schema["$ref"])
    for k in SAME_INSTANCE:
        for s in schema.get(k) or []:
            out += same_instance_refs(s)
    for k in ("not", "if", "then", "else"):
        if isinstance(schema.get(k), dict):
            out += same_instance_refs(schema[k])
    return out


def ill_founded(defs: Dict[str, Any], ref_of: Dict[str, str]) -> List[str]:
    """names of definitions that reach themselves without consuming any part of the instance"""
    edges = {n: [ref_of[r] for r in same_instance_refs(s) if r in ref_of] for n, s in defs.items()}
    bad = []
    for start in defs:
        seen, todo = set(), list(edges[start])
        while todo:
            n = todo.pop()
            if n == start:
                bad.append(start)
                break
            if n not in seen:
                seen.add(n)
                todo.extend(edges.get(n, []))
    return bad


def pointer(doc, ref: str):
    cur = doc
    for part in ref[2:].split("/"):
        part = part.replace("~1", "/").replace("~0", "~")
        if not isinstance(cur, dict) or part not in cur:
            raise KeyError(ref)
        cur = cur[part]
    return cur


_META_CACHE: Dict[Tuple[str, str], Optional[str]] = {}


def first_meta_error(validator_cls, schema) -> Optional[str]:
    import json

    key = (validator_cls.__name__, json.dumps(schema, sort_keys=True, default=str))
    if key not in _META_CACHE:
        _META_CACHE[key] = _first_meta_error(validator_cls, schema)
    return _META_CACHE[key]


def _first_meta_error(validator_cls, schema) -> Optional[str]:
    errs = sorted(validator_cls(validator_cls.META_SCHEMA).iter_errors(schema), key=lambda e: (list(map(str, e.absolute_path)), str(e.validator)))
    if not errs:
        return None
    e = errs[0]
    leaf = e
    while leaf.context:
        leaf = sorted(leaf.context, key=lambda c: (-len(c.absolute_path), str(c.validator)))[0]
    where = "/".join(str(p) for p in leaf.absolute_path)
    names = [p for p in leaf.absolute_path if isinstance(p, str)]
    generic = names[-1] if names else ""
    return f"{leaf.validator}@{generic}|{where}: {leaf.message[:120]}"


def run(report, tier: str, seed: int, log_name: str = "schema_references"):
    from apischema.json_schema import definitions_schema, deserialization_schema, serialization_schema

    versions = C.versions()
    entry = {"deserialization": deserialization_schema, "serialization": serialization_schema}
    realm = C.make_realm("c17")
    try:
        graphs = description_graphs(tier, realm) + native_graphs(realm)
        clashes = clash_cases(realm)
        log = report.driver(
            log_name,
            bound=f"{len(graphs)} type graphs (the named types of pools.type_pool, sharing through containers / Optional / Union / flatten / discriminated unions / NewType, direct and mutual recursion, and real classes with type_name string / factory / None, named collection aliases, generic specializations, registered and dynamic conversions, serialized methods, inherited discriminators) x {{deserialization, serialization}} x all_refs {{False, True, default}} x {len(versions)} versions x ref_factory {{default, custom}} x with_schema {{True, False}}; {len(clashes)} name-clash / control cases x 2 directions x all_refs",
        )
        log.rule("case = (graph, entry point, all_refs, version, ref_factory, with_schema); expected definitions computed from the graph's reference structure by the statement's rule; distinct by that tuple; every case is non-trivial (a named type is involved)")
        for g in graphs:
            for direction in g.directions:
                nodes, root_uses = g.structure(direction)
                extra = g.opts.get(direction, {})
                for vname, version in versions.items():
                    dia = C.DIALECT[vname]
                    for all_refs in (False, True, None):
                        for factory_name in ("default", "custom"):
                            if factory_name == "custom" and (all_refs is None or (tier == "quick" and vname in ("2019-09", "draft-07"))):
                                continue
                            for with_schema in (True, False):
                                if not with_schema and (all_refs is None or factory_name == "custom" or (tier == "quick" and all_refs is False)):
                                    continue
                                if tier == "quick" and not g.native:
                                    # pool descriptions in the quick tier: pairwise rather than full product
                                    if vname in ("2019-09", "oas-3.1") and all_refs is not None:
                                        continue
                                    if all_refs is None and vname not in ("2019-09", "oas-3.1"):
                                        continue
                                    if factory_name == "custom" and not (vname == "2020-12" and all_refs):
                                        continue
                                    if not with_schema and not (vname == "draft-07" and all_refs is True):
                                        continue
                                _one(report, log, g, direction, nodes, root_uses, extra, vname, version, dia, all_refs, factory_name, with_schema, entry, definitions_schema)
        for label, call, must_refuse in clashes:
            for direction in ("deserialization", "serialization"):
                for all_refs in (False, True):
                    for vname in ("2020-12", "oas-3.0"):
                        key = ("clash", label, direction, all_refs, vname)
                        log.case(key, True, sample={"clash": label, "entry": direction, "all_refs": all_refs})
                        case = {"types": label, "entry": direction, "all_refs": all_refs, "version": vname}
                        try:
                            with time_limit(10):
                                res = call(direction, {"all_refs": all_refs, "version": versions[vname]})
                            refused = None
                        except (TypeError, ValueError) as e:
                            refused = e
                        except Timeout:
                            log.fail(f"no-termination:{label}:{direction}:all_refs={all_refs}:{vname}", f"schema generation for {label} did not return within 10 s", case, functions_involved=["RefsExtractor", "_extract_refs"])
                            continue
                        except Exception as e:
                            log.fail(f"generation-crash:{label}:{direction}:all_refs={all_refs}:{vname}:{type(e).__name__}", f"schema generation for {label} raised {type(e).__name__}: {str(e)[:120]}", case, observed=repr(e), functions_involved=["RefsExtractor", "_extract_refs"])
                            continue
                        if must_refuse and refused is None:
                            log.fail(f"clash-merged:{label}:{direction}:all_refs={all_refs}:{vname}", f"two distinct types sharing a name were not refused: {label} ({direction}, all_refs={all_refs}, {vname}) returned {str(res)[:200]}", case, observed=repr(res)[:600], expected="TypeError / ValueError naming the clash", functions_involved=["RefsExtractor._incr_ref", "_extract_refs"])
                        if not must_refuse and refused is not None:
                            log.fail(f"refused-without-clash:{label}:{direction}:all_refs={all_refs}:{vname}", f"generation refused although no two distinct types share a name: {label}: {refused!r}", case, observed=repr(refused), functions_involved=["RefsExtractor._incr_ref", "get_type_name"])
        # -- one name in both directions of definitions_schema: merged iff the two definitions are the same
        pairs = cross_direction_pairs(realm)
        log.stats["bound"] += f"; {len(pairs)} (deserialization type, serialization type) pairs sharing a name (6 families: equal / scalar / list-prefix / list-element / nested differences) x all_refs x 2 versions"
        for label, ta, tb, shared in pairs:
            for all_refs, wrap in ((True, lambda t: t), (False, lambda t: __import__("typing").Tuple[t, t])):
                if tier == "quick" and not all_refs and "both named" not in label:
                    continue  # quick tier: the all_refs=False variant only for the plain placement
                for vname in ("2020-12", "oas-3.0") if tier == "thorough" or all_refs else ("2020-12",):
                    key = ("cross-direction", label, all_refs, vname)
                    case = {"deserialization": label.split(" / ")[0], "serialization": label, "all_refs": all_refs, "version": vname}
                    log.case(key, True, sample=case)
                    o = {"all_refs": all_refs, "version": versions[vname]}
                    try:
                        with time_limit(10):
                            d_only = dict(definitions_schema(deserialization=[wrap(ta)], **o))
                            s_only = dict(definitions_schema(serialization=[wrap(tb)], **o))
                    except Exception as e:
                        log.fail(f"generation-crash:cross-direction:{label}:all_refs={all_refs}:{vname}:{type(e).__name__}", f"definitions_schema of one direction raised for {label}: {e!r}", case, observed=repr(e), functions_involved=["definitions_schema"])
                        continue
                    if shared not in d_only or shared not in s_only:
                        log.fail(f"defs-names:cross-direction:{label}:all_refs={all_refs}:{vname}", f"definition {shared!r} missing from the single-direction definitions of {label} ({sorted(d_only)} / {sorted(s_only)})", case, functions_involved=inv_cross)
                        continue
                    same = all(d_only[n] == s_only[n] for n in set(d_only) & set(s_only))
                    try:
                        with time_limit(10):
                            both = dict(definitions_schema(deserialization=[wrap(ta)], serialization=[wrap(tb)], **o))
                        refused = None
                    except (TypeError, ValueError) as e:
                        refused = e
                    except Exception as e:
                        log.fail(f"generation-crash:cross-direction:{label}:all_refs={all_refs}:{vname}:{type(e).__name__}", f"definitions_schema(deserialization=.., serialization=..) raised {type(e).__name__} for {label}: {str(e)[:160]}", case, observed=repr(e), functions_involved=inv_cross)
                        continue
                    if not same and refused is None:
                        log.fail(
                            f"clash-merged:cross-direction:{label}:all_refs={all_refs}:{vname}",
                            f"definitions_schema(deserialization=[..], serialization=[..]) merged two different definitions of {shared!r} ({label}, all_refs={all_refs}, {vname}): {d_only[shared]} and {s_only[shared]} became {both.get(shared)}",
                            {**case, "deserialization_definition": d_only[shared], "serialization_definition": s_only[shared], "merged": both.get(shared)},
                            observed=both.get(shared),
                            expected="TypeError: the reference has different schemas for deserialization and serialization",
                            functions_involved=inv_cross,
                        )
                    elif same and refused is not None:
                        log.fail(f"refused-without-clash:cross-direction:{label}:all_refs={all_refs}:{vname}", f"definitions_schema refused {label} although both directions give the same definition of {shared!r}: {refused!r}", case, observed=repr(refused), functions_involved=inv_cross)
                    elif same and any(both.get(n) != d_only[n] for n in d_only):
                        log.fail(f"defs-differ:cross-direction:{label}:all_refs={all_refs}:{vname}", f"definitions_schema of both directions differs from the (identical) single-direction definitions for {label}", {**case, "merged": both, "single": d_only}, observed=both, expected=d_only, functions_involved=inv_cross)
    finally:
        realm.dispose()
    return log


inv_cross = ["definitions_schema", "compare_schemas", "_defs_schema"]


def C_get(schema, loc: str, kw: str):
    cur = schema
    for part in [p for p in loc.split("/") if p != ""]:
        cur = cur[int(part)] if isinstance(cur, list) else cur[part]
    return cur.get(kw) if isinstance(cur, dict) else None


def _one(report, log, g: Graph, direction, nodes, root_uses, extra, vname, version, dia, all_refs, factory_name, with_schema, entry, definitions_schema):
    eff_all_refs = all_refs if all_refs is not None else vname.startswith("oas")  # documented default
    expected = expected_defs(nodes, root_uses, g.disc, eff_all_refs)
    opts = dict(extra)
    opts["version"] = version
    if all_refs is not None:
        opts["all_refs"] = all_refs
    if factory_name == "custom":
        opts["ref_factory"] = custom_ref_factory
    factory = custom_ref_factory if factory_name == "custom" else (lambda n: dia["prefix"] + n)
    tag = f"{g.name}:{direction}:all_refs={all_refs}:{vname}:ref_factory={factory_name}:with_schema={with_schema}"
    case = {"graph": g.name, "entry": direction + "_schema", "all_refs": all_refs, "version": vname, "ref_factory": factory_name, "with_schema": with_schema}
    log.case(tag, True, sample=case)
    inv = ["RefsExtractor", "SchemaBuilder.ref_schema", "_extract_refs", "_refs_schema", "_schema", "get_type_name"]

    def gen(what, fn):
        try:
            with time_limit(10):
                return fn()
        except Timeout:
            log.fail(f"no-termination:{what}:{tag}", f"{what} for {g.name} ({direction}, all_refs={all_refs}, {vname}) did not return within 10 s", case, functions_involved=inv)
        except RecursionError:
            log.fail(f"no-termination:{what}:{tag}", f"{what} for {g.name} ({direction}, all_refs={all_refs}, {vname}) exhausted the stack (RecursionError)", case, functions_involved=inv)
        except Exception as e:
            log.fail(f"generation-crash:{what}:{tag}:{type(e).__name__}", f"{what} for {g.name} ({direction}, all_refs={all_refs}, {vname}) raised {type(e).__name__}: {str(e)[:160]}", case, observed=repr(e)[:400], functions_involved=inv)
        return None

    res = gen("schema", lambda: entry[direction](g.root, with_schema=with_schema, **opts))
    if res is None:
        return
    res = dict(res)
    def_opts = {k: v for k, v in opts.items() if k not in ("conversion", "schema")}
    root_arg = (g.root, opts["conversion"]) if "conversion" in opts else g.root
    defs_sep = gen("definitions", lambda: definitions_schema(**{direction: [root_arg]}, **def_opts))
    if defs_sep is None:
        return
    defs_sep = dict(defs_sep)

    # -- $schema / with_schema
    declared = res.get("$schema")
    if not with_schema and declared is not None:
        log.fail(f"schema-keyword:{tag}", f"with_schema=False but the result declares $schema={declared!r} ({g.name}, {vname})", case, observed=declared, functions_involved=["_schema"])
    if with_schema and not vname.startswith("oas") and declared is None:
        log.fail(f"schema-keyword:{tag}", f"with_schema=True but the result of version {vname} declares no $schema ({g.name})", case, functions_involved=["_schema"])

    # -- meta-schema of the declared dialect
    if vname == "oas-3.0":
        vcls = C.dialect_validator("oas-3.0")
        to_check = [("result", C.oas30_to_json_schema(res))] + [(f"definitions[{n}]", C.oas30_to_json_schema(s)) for n, s in defs_sep.items()]
    else:
        vcls = C.validator_for_uri(declared) if declared is not None else C.dialect_validator(vname)
        if vcls is None:
            log.fail(f"unknown-dialect:{tag}", f"the result declares an unknown dialect {declared!r}", case, functions_involved=["_schema"])
            vcls = C.dialect_validator(vname)
        to_check = [("result", res)] + [(f"definitions[{n}]", s) for n, s in defs_sep.items() if not (dia["defs_key"] and (res.get(dia["defs_key"]) or {}).get(n) == s)]
    for what, sch in to_check:
        vc = vcls if what == "result" else C.dialect_validator(vname)
        err = first_meta_error(vc, sch)
        if err is not None:
            generic, detail = err.split("|", 1)
            log.fail(f"meta-invalid:{g.name}:{direction}:{vname}:with_schema={with_schema}:{what.split('[')[0]}:{generic}", f"{what} of {direction}_schema({g.name}, version={vname}, all_refs={all_refs}) is not valid against the meta-schema of {'its declared dialect ' + repr(declared) if what == 'result' and declared else 'the dialect of ' + vname}: {detail}", {**case, "schema": sch}, observed=detail, functions_involved=["_schema", "JsonSchemaVersion"])
            break

    if vname == "oas-3.0":
        for what, sch in [("result", res)] + [(f"definitions[{n}]", s) for n, s in defs_sep.items()]:
            for kw, loc in C.oas30_field_errors(sch):
                log.fail(f"meta-invalid:{g.name}:{direction}:{vname}:with_schema={with_schema}:{what.split('[')[0]}:type@{kw}", f"{what} of {direction}_schema({g.name}, version={vname}, all_refs={all_refs}): the OpenAPI 3.0 schema object field {kw!r} at {what}/{loc} holds {C_get(sch, loc, kw)!r}, not a value of its declared type", {**case, "schema": sch}, observed=repr(C_get(sch, loc, kw)), functions_involved=["Schema.merge_into", "_schema", "JsonSchemaVersion"])
                break

    # -- definitions: location, names
    inline_expected = dia["inline_defs"] and factory_name == "default"
    other_keys = [k for k in ("$defs", "definitions") if k in res and k != dia["defs_key"]]
    inline = res.get(dia["defs_key"]) if dia["defs_key"] else None
    if other_keys or (inline is not None and not inline_expected):
        log.fail(f"defs-location:{tag}", f"definitions under {other_keys or dia['defs_key']} in the result of version {vname} / ref_factory={factory_name} ({g.name})", case, observed=sorted(res), functions_involved=["_schema"])
    nested: List[str] = []
    C.walk_schema(res, lambda s, path: nested.append("/".join(map(str, path))) if path and ("$defs" in s or "definitions" in s) else None)
    for n, part in defs_sep.items():
        C.walk_schema(part, lambda s, path, n=n: nested.append(f"definitions[{n}]/" + "/".join(map(str, path))) if ("$defs" in s or "definitions" in s) else None)
    if nested:
        log.fail(f"nested-defs:{tag}", f"definitions emitted below the root at {nested[:3]} ({g.name}, {vname})", case, observed=nested, functions_involved=["_schema", "_refs_schema"])
    defs = dict(inline) if (inline_expected and inline is not None) else ({} if inline_expected else defs_sep)
    got = set(defs)
    if g.check_names and got != expected:
        missing, extra_ = sorted(expected - got), sorted(got - expected)
        log.fail(
            f"defs-names:{g.name}:{direction}:all_refs={all_refs}:{vname}:ref_factory={factory_name}:missing={missing}:extra={extra_}",
            f"{direction}_schema({g.name}, all_refs={all_refs}, version={vname}, ref_factory={factory_name}): definitions {sorted(got)} but the named types to extract are {sorted(expected)} (missing {missing}, unexpected {extra_})",
            {**case, "result": res},
            observed=sorted(got),
            expected=sorted(expected),
            functions_involved=inv,
        )
    # -- closed
    ref_of = {factory(n): n for n in defs}
    if len(ref_of) != len(defs):
        log.fail(f"ref-collision:{tag}", f"two definitions share one reference ({g.name})", case, functions_involved=inv)
    body = {k: v for k, v in res.items() if k not in ("$defs", "definitions")}
    for where, part in [("result", body)] + [(f"definitions[{n}]", s) for n, s in defs.items()]:
        for ref, path in C.all_refs_of(part):
            loc = where + "/" + "/".join(map(str, path))
            if ref not in ref_of:
                log.fail(
                    f"dangling-ref:{g.name}:{direction}:all_refs={all_refs}:{vname}:ref_factory={factory_name}:{ref}",
                    f"{direction}_schema({g.name}, all_refs={all_refs}, version={vname}, ref_factory={factory_name}): $ref {ref!r} at {loc} does not resolve to an emitted definition (definitions: {sorted(defs)})",
                    {**case, "result": res},
                    observed=ref,
                    expected=sorted(ref_of),
                    functions_involved=inv,
                )
            elif inline_expected and ref.startswith("#/"):
                try:
                    target = pointer(res, ref)
                except KeyError:
                    target = None
                if target is not defs[ref_of[ref]]:
                    log.fail(f"pointer:{g.name}:{direction}:all_refs={all_refs}:{vname}:{ref}", f"$ref {ref!r} at {loc} does not resolve as a JSON pointer in the generated document ({g.name}, {vname})", {**case, "result": res}, observed=ref, functions_involved=["_schema", "JsonSchemaVersion.ref_factory"])
    # -- finite
    bad = ill_founded(defs, ref_of)
    if bad:
        log.fail(f"ill-founded:{g.name}:{direction}:all_refs={all_refs}:{vname}:{sorted(bad)}", f"definitions {sorted(bad)} of {direction}_schema({g.name}, all_refs={all_refs}, {vname}) refer to themselves at the same instance location: validation against them never terminates", {**case, "result": res}, observed={n: defs[n] for n in bad}, functions_involved=["SchemaBuilder.object", "SchemaBuilder.visit_conversion"])
    # -- definitions_schema == inline definitions
    if inline_expected and defs != defs_sep:
        diff = sorted(set(defs) ^ set(defs_sep)) or sorted(n for n in defs if defs[n] != defs_sep[n])
        log.fail(
            f"defs-differ:{g.name}:{direction}:all_refs={all_refs}:{vname}:{diff}",
            f"definitions_schema({direction}=[{g.name}], all_refs={all_refs}, version={vname}) differs from the inline {dia['defs_key']} of {direction}_schema on {diff}",
            {**case, "inline": defs, "definitions_schema": defs_sep},
            observed=defs_sep,
            expected=defs,
            functions_involved=["definitions_schema", "_defs_schema", "_schema"],
        )
