"""C07: serialized data validates against serialization_schema generated under the same settings
(B: bounded by the C04 type pool and value generator and the settings below; jsonschema's
Draft 2020-12 validator is the oracle)."""
from __future__ import annotations

import itertools
import random
from typing import Any, Dict, List, Optional, Tuple

from . import model as M
from . import model_ser as S
from . import ser_pools as SP
from .deser_e2e import camel
from .ser_e2e import has_obj, tname


def settings_space(tier: str) -> List[Tuple[str, dict]]:
    """(name, {exclude_defaults, exclude_none (global settings), aliaser, additional_properties, via})
    `via` says whether aliaser / additional_properties are passed as parameters or set globally"""
    out = []
    for xd, xn in itertools.product((False, True), repeat=2):
        for al, ap in itertools.product((False, True), repeat=2):
            vias = ("param", "global") if tier != "quick" else (("global",) if (al and ap) else ("param",))
            for via in vias:
                if via == "global" and not (al or ap):
                    continue
                name = "+".join(n for n, b in (("xd", xd), ("xn", xn), ("camel", al), ("ap", ap)) if b) or "default"
                if via == "global":
                    name += "(global)"
                out.append((name, {"exclude_defaults": xd, "exclude_none": xn, "aliaser": camel if al else None, "additional_properties": ap, "via": via}))
    # every class / TypedDict described in $defs (schema-only option: it must not change validity)
    for name, xd, al, ap in (("ap+all_refs", False, False, True), ("xd+camel+all_refs", True, True, False), ("all_refs", False, False, False)):
        out.append((name, {"exclude_defaults": xd, "exclude_none": False, "aliaser": camel if al else None, "additional_properties": ap, "via": "param", "all_refs": True}))
    return out


def deep_cons_ok(td, v, realm, sopts: S.SOpts) -> bool:
    """every declared schema constraint holds on the image of the value under the settings in
    force (a value of Annotated[T, schema(...)] / of a class decorated with schema(...) satisfies it)"""
    U = S._undefined()
    if v is None or v is U:
        return True
    if isinstance(td, S.Dyn):
        return deep_cons_ok(td.t, v, realm, sopts)
    if isinstance(td, S.Spec):
        return deep_cons_ok(S.subst(td.obj, td.arg), v, realm, sopts)
    if isinstance(td, M.Ref):
        return deep_cons_ok(realm.descs[td.name], v, realm, sopts)
    if isinstance(td, (M.Ann, M.NewT)):
        if td.cons and not _cons_on_image(td, td.cons, v, realm, sopts):
            return False
        return deep_cons_ok(td.t, v, realm, sopts)
    if isinstance(td, M.Opt):
        return deep_cons_ok(td.t, v, realm, sopts)
    if isinstance(td, M.Uni):
        for a in td.alts:
            if S.conforms(a, v, realm):
                return deep_cons_ok(a, v, realm, sopts)
        return True
    if isinstance(td, M.Coll):
        return all(deep_cons_ok(td.t, x, realm, sopts) for x in v)
    if isinstance(td, M.Tup):
        return all(deep_cons_ok(t, x, realm, sopts) for t, x in zip(td.elts, v))
    if isinstance(td, M.Mapp):
        return all(deep_cons_ok(td.k, k, realm, sopts) and deep_cons_ok(td.v, x, realm, sopts) for k, x in v.items())
    if isinstance(td, M.Disc):
        for a in td.alts:
            if S.conforms(a, v, realm):
                return deep_cons_ok(a, v, realm, sopts)
        return True
    if isinstance(td, M.Obj):
        if td.cons and not _cons_on_image(td, td.cons, v, realm, sopts):
            return False
        for f in td.fields:
            if td.kind == "typeddict":
                if f.name not in v:
                    continue
                x = v[f.name]
            else:
                x = getattr(v, f.name)
            t = S.field_type(f)
            if getattr(f, "conv", None) is None and not deep_cons_ok(t, x, realm, sopts):
                return False
        return True
    return True


def _cons_on_image(td, c, v, realm, sopts) -> bool:
    t = td.t if isinstance(td, (M.Ann, M.NewT)) else td
    try:
        img = S.plain(S.RefSer(realm, sopts).ser(t, v))
    except Exception:
        return True
    if type(img) in (int, float):
        kws = M.NUM_KW
    elif type(img) is str:
        kws = M.STR_KW
    elif type(img) is list:
        kws = M.ARR_KW
    elif type(img) is dict:
        kws = M.OBJ_KW
    else:
        kws = ()
    return not M.constraint_failures(c, img, kws)


def leaf_errors(errs) -> list:
    """anyOf / oneOf failures are replaced by the errors of the only branch which is not a plain
    JSON-type mismatch at the same location (e.g. the `null` branch of an Optional), recursively"""
    out = []
    for e in errs:
        if e.validator in ("anyOf", "oneOf") and e.context:
            branches: Dict[Any, list] = {}
            for c in e.context:
                branches.setdefault(c.relative_schema_path[0] if c.relative_schema_path else None, []).append(c)
            live = [b for b in branches.values() if not any(c.validator == "type" and list(c.absolute_path) == list(e.absolute_path) for c in b)]
            if len(live) == 1:
                out += leaf_errors(live[0])
                continue
        out.append(e)
    return out


def locate(td, v, path: list, realm, sopts: S.SOpts):
    """follow an instance path of the serialized data through the description: the innermost
    described type whose image contains the location, its value, and the rest of the path"""
    while True:
        if isinstance(td, M.Ref):
            td = realm.descs[td.name]
        elif isinstance(td, S.Spec):
            td = S.subst(td.obj, td.arg)
        elif isinstance(td, (M.Ann, M.NewT)):
            td = td.t
        elif isinstance(td, M.Opt) and v is not None:
            td = td.t
        elif isinstance(td, M.Uni):
            alt = next((a for a in td.alts if S.conforms(a, v, realm)), None)
            if alt is None:
                return td, v, path
            td = alt
        elif not path:
            return td, v, path
        elif isinstance(td, M.Disc):
            alt = next((a for a in td.alts if S.conforms(a, v, realm)), None)
            if alt is None:
                return td, v, path
            td = alt
        elif isinstance(td, M.Coll) and isinstance(v, (list, tuple)) and isinstance(path[0], int) and path[0] < len(v):
            td, v, path = td.t, v[path[0]], path[1:]
        elif isinstance(td, M.Tup) and isinstance(path[0], int) and path[0] < len(td.elts):
            td, v, path = td.elts[path[0]], v[path[0]], path[1:]
        elif isinstance(td, M.Mapp):
            ref = S.RefSer(realm, sopts)
            k = next((k for k in v if S._eq(ref.ser(td.k, k), path[0])), None)
            if k is None:
                return td, v, path
            td, v, path = td.v, v[k], path[1:]
        elif isinstance(td, M.Obj) and not (isinstance(td, S.SObj) and td.serializer):
            f = next((f for f in td.fields if not (f.flatten or f.pattern is not None or f.additional) and getattr(f, "conv", None) is None and M.ext_name(td, f, M.Opts(aliaser=sopts.aliaser)) == path[0]), None)
            if f is None:
                return td, v, path
            try:
                x = v[f.name] if td.kind == "typeddict" else getattr(v, f.name)
            except Exception:
                return td, v, path
            td, v, path = f.t, x, path[1:]
        else:
            return td, v, path


def declared_properties(schema: dict, root: dict, seen=None) -> set:
    """names under `properties`, through $ref / allOf / anyOf / oneOf"""
    seen = seen if seen is not None else set()
    out = set(schema.get("properties", {}))
    ref = schema.get("$ref")
    if isinstance(ref, str) and ref.startswith("#/") and ref not in seen:
        seen.add(ref)
        node: Any = root
        for part in ref[2:].split("/"):
            node = node[part]
        out |= declared_properties(node, root, seen)
    for kw in ("allOf", "anyOf", "oneOf"):
        for sub in schema.get(kw, ()):
            out |= declared_properties(sub, root, seen)
    return out


def run(report, tier: str, seed: int, log_name: str = "serialized_data_validates"):
    import jsonschema

    import apischema
    from apischema import serialize, settings
    from apischema.json_schema import serialization_schema

    rng = random.Random(seed)
    pool = SP.ser_pool(tier, for_schema=True)
    space = settings_space(tier)
    log = report.driver(
        log_name,
        bound=f"the C04 type pool ({len(pool)} descriptions incl. field, registered and {len(SP.DYNS)} dynamic conversions) and value generator x {len(space)} settings: global exclude_defaults x global exclude_none x aliaser (none / camelCase) x additional_properties, given as parameters or as global settings, plus 3 settings with all_refs=True; each value serialized with exclude_unset=False and, when nothing is dropped by unset-tracking, with the default exclude_unset",
    )
    log.rule(
        "case = (type description, settings, value); contract: jsonschema.Draft202012Validator(serialization_schema(T, aliaser, additional_properties, conversion)).is_valid(serialize(T, v, same settings)) with exclude_defaults / exclude_none set in settings.serialization for both calls; the generated schema must itself be a valid 2020-12 schema; for classes, the aliased names of serialized methods and init=False fields must be declared in `properties`. Values whose image violates a declared schema(...) constraint are not values of the type and are skipped. Distinct by the triple; non-trivial when the value is not a bare primitive"
    )
    realm = M.Realm("serschema")
    SP.prepare_realm(realm)
    gen = SP.Gen(realm, tier, rng)
    saved = (settings.serialization.exclude_defaults, settings.serialization.exclude_none, settings.aliaser, settings.additional_properties)
    try:
        for sname, st in space:
            settings.serialization.exclude_defaults = st["exclude_defaults"]
            settings.serialization.exclude_none = st["exclude_none"]
            settings.aliaser = saved[2]
            settings.additional_properties = saved[3]
            kw: Dict[str, Any] = {}
            if st["via"] == "global":
                if st["aliaser"]:
                    settings.aliaser = st["aliaser"]
                settings.additional_properties = st["additional_properties"]
            else:
                if st["aliaser"]:
                    kw["aliaser"] = st["aliaser"]
                kw["additional_properties"] = st["additional_properties"]
            apischema.cache.reset()
            sopts = S.SOpts(exclude_none=st["exclude_none"], exclude_defaults=st["exclude_defaults"], exclude_unset=False, additional_properties=st["additional_properties"], aliaser=st["aliaser"])
            for td in pool:
                tn = tname(td)
                if not has_obj(td) and sname != "default":
                    continue
                try:
                    tp = S.realize(td, realm)
                    vals = gen.values(td)
                except Exception as e:
                    report.tool_error(f"cannot realise / generate values for {tn}: {e!r}")
                    continue
                ckw = dict(kw)
                if isinstance(td, S.Dyn):
                    ckw["conversion"] = S.conversion_object(td.conv, realm)
                try:
                    schema = serialization_schema(tp, **ckw, **({"all_refs": True} if st.get("all_refs") else {}))
                    jsonschema.Draft202012Validator.check_schema(schema)
                    validator = jsonschema.Draft202012Validator(schema)
                except Exception as e:
                    log.case((tn, sname, "schema"), True)
                    log.fail(
                        f"schema:{tn}:{sname}:{type(e).__name__}",
                        f"serialization_schema({tn}, {sname}) raised / is not a valid schema: {str(e)[:300]!r}",
                        {"type": tn, "description": repr(td), "settings": sname},
                        observed=repr(e)[:600],
                        functions_involved=["SerializationSchemaBuilder"],
                    )
                    continue
                # serialized methods and init=False fields appear in the schema
                t0 = S.strip(td, realm)
                if isinstance(t0, M.Obj) and not isinstance(td, S.Dyn) and not (isinstance(t0, S.SObj) and t0.serializer):
                    declared = declared_properties(schema, schema)
                    must = {sopts.alias(m.alias if m.alias is not None else m.name): "serialized method" for m in getattr(t0, "serialized", ())}
                    for f in t0.fields:
                        if not f.init and not getattr(f, "skip_ser", False):
                            must[M.ext_name(t0, f, M.Opts(aliaser=sopts.aliaser))] = "init=False field"
                    log.case((tn, sname, "declared"), bool(must))
                    for name, what in must.items():
                        if name not in declared:
                            log.fail(
                                f"undeclared:{tn}:{sname}:{name}",
                                f"the {what} {name!r} of {tn} is not declared in serialization_schema ({sname}): properties = {sorted(declared)}",
                                {"type": tn, "description": repr(td), "settings": sname, "property": name},
                                observed=sorted(declared),
                                expected=name,
                                functions_involved=["SerializationSchemaBuilder"],
                            )
                for v in vals:
                    d = SP.describe(v)
                    nontrivial = not (v is None or type(v) in (bool, int, float, str))
                    if not deep_cons_ok(td, v, realm, sopts):
                        continue
                    log.case((tn, sname, type(v).__name__, d), nontrivial, sample={"type": tn, "settings": sname, "value": d} if nontrivial else None)
                    try:
                        full = serialize(tp, v, exclude_unset=False, **ckw)
                        dflt = serialize(tp, v, **ckw)
                    except Exception as e:
                        # a C04 matter (serialize raised on a well-typed value); nothing to validate
                        continue
                    datas = [("exclude_unset=False", full)]
                    if _same(dflt, full):
                        datas.append(("exclude_unset default", dflt))
                    for how, data in datas:
                        try:
                            errs = sorted(validator.iter_errors(data), key=lambda e: list(map(str, e.absolute_path)))
                        except Exception as e:
                            errs = None
                            msg = f"validation crashed: {type(e).__name__}: {e}"
                        if errs is None:
                            found = [(tn, d, "crash@$", msg)]
                        else:
                            # one violation per (class whose schema rejects, its value, schema keyword, location in it)
                            found = []
                            for e0 in leaf_errors(errs):
                                at_td, at_v, rest = locate(td, v, list(e0.absolute_path), realm, sopts)
                                loc = "/".join(map(str, rest)) or "$"
                                where = "/".join(map(str, e0.absolute_path)) or "$"
                                found.append((tname(at_td), SP.describe(at_v), f"{e0.validator}@{loc}", f"at {where}: {e0.message[:200]}"))
                        for at, at_d, kind, msg in found:
                            log.fail(
                                f"invalid:{at}:{sname}:{at_d}:{kind}",
                                f"serialize({tn}, {d}, {sname}, {how}) = {data!r} does not validate against serialization_schema: {msg}" + (f" (in the {at} part {at_d})" if at != tn else ""),
                                {"type": tn, "description": repr(td), "settings": sname, "value": d, "data": repr(data), "schema": schema},
                                observed=msg,
                                expected="valid",
                                functions_involved=["SerializationSchemaBuilder", "ObjectField", "ComplexField", "SerializedField"],
                            )
                        kinds = found
                        if kinds:
                            break
    finally:
        settings.serialization.exclude_defaults, settings.serialization.exclude_none = saved[0], saved[1]
        settings.aliaser = saved[2]
        settings.additional_properties = saved[3]
        apischema.cache.reset()
        realm.dispose()
    return log


def _same(a, b) -> bool:
    try:
        return S.img_eq(a, b) if S.is_json(b) else a == b
    except Exception:
        return False
