"""Type descriptions, their realisation as real Python types, and the executable reading
of the specification (DESIGN.md section 3 / appendix A): reference deserialization
(Conf / Img / Err), reference serialization (Ser / omit), external names.

The reference semantics is written from the property statements and the documentation
(docs/data_model.md, docs/validation.md), over *descriptions* built by the drivers -- it never
calls into apischema to decide conformance, so it is an oracle independent of the code under
contract.  Message texts are configuration (settings.errors), read at run time.
"""
from __future__ import annotations

import dataclasses
import enum
import re
import sys
import types as pytypes
import typing
from dataclasses import dataclass, field
from typing import Any, Callable, Dict, List, Optional, Tuple

# ---------------------------------------------------------------------------
# descriptions


@dataclass(frozen=True)
class TD:
    pass


@dataclass(frozen=True)
class Prim(TD):
    name: str  # int float str bool none


@dataclass(frozen=True)
class AnyT(TD):
    pass


@dataclass(frozen=True)
class Opt(TD):
    t: TD


@dataclass(frozen=True)
class Uni(TD):
    alts: Tuple[TD, ...]


@dataclass(frozen=True)
class Coll(TD):
    kind: str  # list sequence collection set abstractset frozenset tuplevar mutableseq
    t: TD


@dataclass(frozen=True)
class Tup(TD):
    elts: Tuple[TD, ...]


@dataclass(frozen=True)
class Mapp(TD):
    k: TD
    v: TD
    kind: str = "dict"  # dict mapping


@dataclass(frozen=True)
class Lit(TD):
    values: Tuple[Any, ...]


@dataclass(frozen=True)
class Enm(TD):
    name: str
    members: Tuple[Tuple[str, Any], ...]


@dataclass(frozen=True)
class Cons:
    """schema constraints (keyword names of apischema.schema)"""

    kw: Tuple[Tuple[str, Any], ...]

    def get(self, k):
        return dict(self.kw).get(k)

    def __bool__(self):
        return bool(self.kw)


def cons(**kw) -> Cons:
    return Cons(tuple(sorted(kw.items())))


@dataclass(frozen=True)
class Ann(TD):
    t: TD
    cons: Cons


@dataclass(frozen=True)
class NewT(TD):
    name: str
    t: TD
    cons: Optional[Cons] = None


@dataclass(frozen=True)
class Fld:
    name: str
    t: TD
    alias: Optional[str] = None
    has_default: bool = False
    default: Any = None  # a *description-level* python value (immutable) or a factory tag
    factory: Optional[str] = None  # 'list' | 'dict' | 'obj:<Name>' : default_factory
    flatten: bool = False
    pattern: Optional[str] = None  # properties(pattern=...)
    additional: bool = False  # properties
    fall_back: bool = False
    none_as_undefined: bool = False
    skip_ser_default: bool = False  # skip(serialization_default=True)
    skip_ser_if_falsy: bool = False  # skip(serialization_if=lambda x: not x)
    td_required: bool = True  # TypedDict key required
    cons: Optional[Cons] = None  # field-level schema
    no_override_alias: bool = False  # alias(..., override=False)
    init: bool = True  # dataclass field(init=False)

    @property
    def required(self) -> bool:
        return not self.has_default and self.factory is None


@dataclass(frozen=True)
class Obj(TD):
    kind: str  # dataclass namedtuple typeddict
    name: str
    fields: Tuple[Fld, ...]
    dep_required: Tuple[Tuple[str, Tuple[str, ...]], ...] = ()  # field name -> required field names
    class_aliaser: Optional[str] = None  # 'upper' | 'prefix'
    cons: Optional[Cons] = None  # class-level schema (min_props / max_props)
    fields_set: bool = False  # decorated with with_fields_set


@dataclass(frozen=True)
class Ref(TD):
    name: str


@dataclass(frozen=True)
class Disc(TD):
    """Annotated[Union[alts], discriminator(alias, mapping)]"""

    alts: Tuple["Obj", ...]
    alias: str
    mapping: Optional[Tuple[Tuple[str, str], ...]] = None  # key -> class name (explicit mapping)


CLASS_ALIASERS: Dict[str, Callable[[str], str]] = {"upper": lambda s: s.upper(), "prefix": lambda s: "px_" + s}

# ---------------------------------------------------------------------------
# realisation

_counter = [0]


class Realm:
    """a synthetic module holding the generated classes so that forward references resolve"""

    def __init__(self, tag: str = "m"):
        _counter[0] += 1
        self.name = f"verif_types_{tag}_{_counter[0]}"
        self.module = pytypes.ModuleType(self.name)
        sys.modules[self.name] = self.module
        self.built: Dict[str, Any] = {}
        self.descs: Dict[str, Obj] = {}

    def dispose(self):
        sys.modules.pop(self.name, None)


def realize(td: TD, realm: Realm) -> Any:
    """the real typing object for a description"""
    from apischema import schema as ap_schema
    from apischema.typing import Annotated

    if isinstance(td, Prim):
        return {"int": int, "float": float, "str": str, "bool": bool, "none": type(None)}[td.name]
    if isinstance(td, AnyT):
        return Any
    if isinstance(td, Opt):
        return Optional[realize(td.t, realm)]
    if isinstance(td, Uni):
        return typing.Union[tuple(realize(a, realm) for a in td.alts)]
    if isinstance(td, Coll):
        t = realize(td.t, realm)
        return {
            "list": typing.List[t],
            "sequence": typing.Sequence[t],
            "collection": typing.Collection[t],
            "mutableseq": typing.MutableSequence[t],
            "set": typing.Set[t],
            "abstractset": typing.AbstractSet[t],
            "frozenset": typing.FrozenSet[t],
            "tuplevar": typing.Tuple[t, ...],
        }[td.kind]
    if isinstance(td, Tup):
        return typing.Tuple[tuple(realize(e, realm) for e in td.elts)]
    if isinstance(td, Mapp):
        k, v = realize(td.k, realm), realize(td.v, realm)
        return typing.Dict[k, v] if td.kind == "dict" else typing.Mapping[k, v]
    if isinstance(td, Lit):
        return typing.Literal[td.values]  # type: ignore
    if isinstance(td, Enm):
        if td.name not in realm.built:
            e = enum.Enum(td.name, list(td.members), module=realm.name)
            setattr(realm.module, td.name, e)
            realm.built[td.name] = e
        return realm.built[td.name]
    if isinstance(td, Ann):
        return Annotated[realize(td.t, realm), ap_schema(**_schema_kwargs(td.cons))]
    if isinstance(td, NewT):
        if td.name not in realm.built:
            nt = typing.NewType(td.name, realize(td.t, realm))
            nt.__module__ = realm.name
            if td.cons:
                ap_schema(**_schema_kwargs(td.cons))(nt)
            setattr(realm.module, td.name, nt)
            realm.built[td.name] = nt
        return realm.built[td.name]
    if isinstance(td, Ref):
        if td.name in realm.built:
            return realm.built[td.name]
        return typing.ForwardRef(td.name)
    if isinstance(td, Disc):
        from apischema import discriminator

        alts = tuple(realize(a, realm) for a in td.alts)
        if td.mapping is None:
            d = discriminator(td.alias)
        else:
            d = discriminator(td.alias, {k: realm.built[n] for k, n in td.mapping})
        return Annotated[typing.Union[alts], d]
    if isinstance(td, Obj):
        return _realize_obj(td, realm)
    raise TypeError(td)


def _schema_kwargs(c: Cons) -> dict:
    kw = dict(c.kw)
    if "pattern" in kw:
        kw["pattern"] = kw["pattern"]
    return kw


def _ref_names(td: TD, out: set):
    if isinstance(td, Ref):
        out.add(td.name)
    for f in dataclasses.fields(td) if dataclasses.is_dataclass(td) else ():
        v = getattr(td, f.name)
        if isinstance(v, TD):
            _ref_names(v, out)
        elif isinstance(v, tuple):
            for x in v:
                if isinstance(x, TD):
                    _ref_names(x, out)
                elif isinstance(x, Fld):
                    _ref_names(x.t, out)


def make_default(f: Fld, realm: Realm):
    if f.factory == "list":
        return list
    if f.factory == "dict":
        return dict
    if f.factory and f.factory.startswith("obj:"):
        name = f.factory[4:]
        return lambda: realm.built[name]()
    return None


def _realize_obj(td: Obj, realm: Realm):
    from apischema import alias as ap_alias
    from apischema import dependent_required, schema as ap_schema
    from apischema.metadata import fall_back_on_default, flatten, none_as_undefined, properties, skip

    if td.name in realm.built:
        return realm.built[td.name]
    realm.descs[td.name] = td
    refs: set = set()
    for f in td.fields:
        _ref_names(f.t, refs)
    recursive = td.name in refs

    def ftype(f: Fld):
        # types mentioning a not-yet-built class are given as strings resolved in the realm module
        names: set = set()
        _ref_names(f.t, names)
        if any(n not in realm.built for n in names):
            return _type_string(f.t, realm)
        return realize(f.t, realm)

    def metadata(f: Fld):
        md = None

        def add(m):
            nonlocal md
            md = m if md is None else md | m

        if f.alias is not None:
            add(ap_alias(f.alias, override=not f.no_override_alias) if f.no_override_alias else ap_alias(f.alias))
        elif f.no_override_alias:
            add(ap_alias(override=False))
        if f.flatten:
            add(flatten)
        if f.pattern is not None:
            add(properties(pattern=re.compile(f.pattern)))
        if f.additional:
            add(properties)
        if f.fall_back:
            add(fall_back_on_default)
        if f.none_as_undefined:
            add(none_as_undefined)
        if f.skip_ser_default:
            add(skip(serialization_default=True))
        if f.skip_ser_if_falsy:
            add(skip(serialization_if=_falsy))
        if f.cons:
            add(ap_schema(**_schema_kwargs(f.cons)))
        return md

    if td.kind == "dataclass":
        specs = []
        for f in td.fields:
            kw: Dict[str, Any] = {}
            md = metadata(f)
            if md is not None:
                kw["metadata"] = md
            if f.factory is not None:
                kw["default_factory"] = make_default(f, realm)
            elif f.has_default:
                kw["default"] = f.default
            if not f.init:
                kw["init"] = False
            specs.append((f.name, ftype(f), dataclasses.field(**kw)))
        ns: Dict[str, Any] = {}
        cls = dataclasses.make_dataclass(td.name, specs, namespace=ns)
        cls.__module__ = realm.name
    elif td.kind == "namedtuple":
        realm.module.typing = typing  # type: ignore
        lines = [f"class {td.name}(typing.NamedTuple):"]
        for f in td.fields:
            tn = f"_t_{td.name}_{f.name}"
            setattr(realm.module, tn, ftype(f))
            line = f"    {f.name}: {tn}"
            if f.has_default:
                dn = f"_d_{td.name}_{f.name}"
                setattr(realm.module, dn, f.default)
                line += f" = {dn}"
            lines.append(line)
        exec("\n".join(lines), realm.module.__dict__)
        cls = getattr(realm.module, td.name)
        cls.__module__ = realm.name
    elif td.kind == "typeddict":
        req = {f.name: ftype(f) for f in td.fields if f.td_required}
        opt = {f.name: ftype(f) for f in td.fields if not f.td_required}
        if opt and req:
            base = typing.TypedDict(td.name + "Base", req)  # type: ignore
            base.__module__ = realm.name
            cls = pytypes.new_class(td.name, (base,), {"total": False}, lambda ns_: ns_.update({"__annotations__": opt, "__module__": realm.name}))
        elif opt:
            cls = typing.TypedDict(td.name, opt, total=False)  # type: ignore
        else:
            cls = typing.TypedDict(td.name, req)  # type: ignore
        cls.__module__ = realm.name
    else:
        raise TypeError(td.kind)
    setattr(realm.module, td.name, cls)
    realm.built[td.name] = cls
    if td.dep_required:
        dependent_required({k: list(v) for k, v in td.dep_required}, owner=cls)
    if td.class_aliaser:
        ap_alias(CLASS_ALIASERS[td.class_aliaser])(cls)
    if td.cons:
        ap_schema(**_schema_kwargs(td.cons))(cls)
    if td.fields_set:
        from apischema.fields import with_fields_set

        with_fields_set(cls)
    # build the classes referred to (mutual recursion) so that string annotations resolve
    for f in td.fields:
        _build_refs(f.t, realm)
    return cls


def _falsy(x):
    return not x


def _build_refs(td: TD, realm: Realm):
    if isinstance(td, Obj):
        realize(td, realm)
    elif isinstance(td, (Opt, Coll, Ann, NewT)):
        _build_refs(td.t, realm)
    elif isinstance(td, Uni):
        for a in td.alts:
            _build_refs(a, realm)
    elif isinstance(td, Tup):
        for a in td.elts:
            _build_refs(a, realm)
    elif isinstance(td, Mapp):
        _build_refs(td.k, realm)
        _build_refs(td.v, realm)


def _type_string(td: TD, realm: Realm) -> str:
    if isinstance(td, Prim):
        return {"int": "int", "float": "float", "str": "str", "bool": "bool", "none": "None"}[td.name]
    if isinstance(td, Ref):
        return td.name
    if isinstance(td, Obj):
        realize(td, realm)
        return td.name
    if isinstance(td, Opt):
        return f"typing.Optional[{_type_string(td.t, realm)}]"
    if isinstance(td, Uni):
        return "typing.Union[" + ", ".join(_type_string(a, realm) for a in td.alts) + "]"
    if isinstance(td, Coll):
        t = _type_string(td.t, realm)
        return {
            "list": f"typing.List[{t}]",
            "sequence": f"typing.Sequence[{t}]",
            "collection": f"typing.Collection[{t}]",
            "mutableseq": f"typing.MutableSequence[{t}]",
            "set": f"typing.Set[{t}]",
            "abstractset": f"typing.AbstractSet[{t}]",
            "frozenset": f"typing.FrozenSet[{t}]",
            "tuplevar": f"typing.Tuple[{t}, ...]",
        }[td.kind]
    if isinstance(td, Tup):
        return "typing.Tuple[" + ", ".join(_type_string(e, realm) for e in td.elts) + "]"
    if isinstance(td, Mapp):
        return f"typing.Dict[{_type_string(td.k, realm)}, {_type_string(td.v, realm)}]"
    raise TypeError(f"no string form for {td}")


def install_typing(realm: Realm):
    realm.module.typing = typing  # type: ignore


# ---------------------------------------------------------------------------
# reference semantics: deserialization


@dataclass
class Err:
    messages: List[str] = field(default_factory=list)
    children: Dict[Any, "Err"] = field(default_factory=dict)

    def flat(self, prefix=()) -> List[Tuple[tuple, str]]:
        out = [(tuple(prefix), m) for m in self.messages]
        for k in sorted(self.children):
            out.extend(self.children[k].flat(tuple(prefix) + (k,)))
        return out

    def __bool__(self):
        return bool(self.messages or self.children)


def merge(a: Optional[Err], b: Optional[Err]) -> Optional[Err]:
    if a is None:
        return b
    if b is None:
        return a
    ch = {}
    for k in list(a.children) + [k for k in b.children if k not in a.children]:
        ch[k] = merge(a.children.get(k), b.children.get(k))
    return Err(a.messages + b.messages, ch)


class Rejected(Exception):
    def __init__(self, err: Err):
        self.err = err


JSON_NAME = {type(None): "null", bool: "boolean", str: "string", int: "integer", float: "number", list: "array", dict: "object"}
PRIM_CLS = {"int": int, "float": float, "str": str, "bool": bool, "none": type(None)}


def json_name(cls) -> str:
    for b in cls.__mro__:
        if b in JSON_NAME:
            return JSON_NAME[b]
    return cls.__name__


def bad_type_msg(d, cls) -> str:
    return f"expected type {JSON_NAME[cls]}, found {json_name(type(d))}"


def messages():
    from apischema import settings

    return settings.errors


def _fmt(template, arg):
    return template.format(arg) if isinstance(template, str) else template(arg)


NUM_KW = ("min", "max", "exc_min", "exc_max", "mult_of")
STR_KW = ("min_len", "max_len", "pattern")
ARR_KW = ("min_items", "max_items", "unique")
OBJ_KW = ("min_props", "max_props")
ERR_ATTR = {
    "min": "minimum",
    "max": "maximum",
    "exc_min": "exclusive_minimum",
    "exc_max": "exclusive_maximum",
    "mult_of": "multiple_of",
    "min_len": "min_length",
    "max_len": "max_length",
    "pattern": "pattern",
    "min_items": "min_items",
    "max_items": "max_items",
    "unique": "unique_items",
    "min_props": "min_properties",
    "max_props": "max_properties",
}


def _hashable(d):
    if isinstance(d, list):
        return tuple(map(_hashable, d))
    if isinstance(d, dict):
        ks = sorted(d)
        return tuple(ks + [_hashable(d[k]) for k in ks])
    return d


def constraint_failures(c: Optional[Cons], d, kws) -> List[str]:
    """messages of the violated constraints, in declaration order of the schema keywords"""
    if not c:
        return []
    out = []
    E = messages()
    for kw in kws:
        v = c.get(kw)
        if v is None or v is False:
            continue
        ok = {
            "min": lambda: d >= v,
            "max": lambda: d <= v,
            "exc_min": lambda: d > v,
            "exc_max": lambda: d < v,
            "mult_of": lambda: d % v == 0,
            "min_len": lambda: len(d) >= v,
            "max_len": lambda: len(d) <= v,
            "pattern": lambda: re.compile(v).match(d) is not None,
            "min_items": lambda: len(d) >= v,
            "max_items": lambda: len(d) <= v,
            "unique": lambda: len(set(map(_hashable, d))) == len(d),
            "min_props": lambda: len(d) >= v,
            "max_props": lambda: len(d) <= v,
        }[kw]()
        if not ok:
            out.append(_fmt(getattr(E, ERR_ATTR[kw]), v))
    return out


def merge_cons(outer: Optional[Cons], inner: Optional[Cons]) -> Optional[Cons]:
    """constraints of nested annotations accumulate; for bounds the most restrictive wins
    (docs/json_schema.md "Constraints validation" + apischema.constraints.merge_constraints)"""
    if not outer:
        return inner
    if not inner:
        return outer
    a, b = dict(inner.kw), dict(outer.kw)
    res = dict(a)
    for k, v in b.items():
        if k not in res or res[k] is None:
            res[k] = v
        elif k in ("min", "exc_min", "min_len", "min_items", "min_props"):
            res[k] = max(res[k], v)
        elif k in ("max", "exc_max", "max_len", "max_items", "max_props"):
            res[k] = min(res[k], v)
        elif k == "unique":
            res[k] = res[k] or v
        elif k == "mult_of" and isinstance(res[k], int) and isinstance(v, int):
            # both must hold: a multiple of the least common multiple (m1 * m2 // gcd(m1, m2))
            from math import gcd

            res[k] = res[k] * v // gcd(res[k], v)
        else:
            res[k] = v  # pattern (two patterns cannot be merged: the library refuses to compile them; not in the pools)
    return Cons(tuple(sorted(res.items())))


@dataclass
class Opts:
    additional_properties: bool = False
    fall_back_on_default: bool = False
    aliaser: Optional[Callable[[str], str]] = None
    coerce: bool = False

    def alias(self, s: str) -> str:
        return self.aliaser(s) if self.aliaser else s


def ext_name(o: Obj, f: Fld, opts: Opts) -> str:
    """A.5: dyn(class_aliaser(alias or name)), class aliaser skipped for override=False"""
    base = f.alias if f.alias is not None else f.name
    if o.class_aliaser and not f.no_override_alias:
        base = CLASS_ALIASERS[o.class_aliaser](base)
    return opts.alias(base)


class Ref_:
    """reference deserializer over descriptions; `env` maps class names to descriptions and
    `realm` gives the real classes for building images"""

    def __init__(self, realm: Realm, opts: Opts):
        self.realm = realm
        self.opts = opts

    def deser(self, td: TD, d, c: Optional[Cons] = None):
        """returns the image or raises Rejected(Err)"""
        o = self.opts
        if isinstance(td, Ann):
            return self.deser(td.t, d, merge_cons(c, td.cons))
        if isinstance(td, NewT):
            return self.deser(td.t, d, merge_cons(c, td.cons))
        if isinstance(td, Ref):
            return self.deser(self.realm.descs[td.name], d, c)
        if isinstance(td, AnyT):
            if type(d) in (int, float) and type(d) is not bool:
                kws = NUM_KW
            elif type(d) is str:
                kws = STR_KW
            elif type(d) is list:
                kws = ARR_KW
            elif type(d) is dict:
                kws = OBJ_KW
            else:
                kws = ()
            msgs = constraint_failures(c, d, kws)
            if msgs:
                raise Rejected(Err(msgs))
            return d
        if isinstance(td, Prim):
            cls = PRIM_CLS[td.name]
            if td.name == "float":
                ok = type(d) in (int, float)
            else:
                ok = type(d) is cls
            if not ok:
                raise Rejected(Err([bad_type_msg(d, cls)]))
            v = float(d) if td.name == "float" else d
            kws = NUM_KW if td.name in ("int", "float") else STR_KW if td.name == "str" else ()
            msgs = constraint_failures(c, v, kws)
            if msgs:
                raise Rejected(Err(msgs))
            return v
        if isinstance(td, Opt):
            if d is None:
                return None
            try:
                return self.deser(td.t, d, c)
            except Rejected as r:
                raise Rejected(merge(r.err, Err([bad_type_msg(d, type(None))])))
        if isinstance(td, Uni):
            err = None
            for a in td.alts:
                try:
                    return self.deser(a, d, c)
                except Rejected as r:
                    err = merge(err, r.err)
            raise Rejected(err)
        if isinstance(td, Coll):
            if type(d) is not list:
                raise Rejected(Err([bad_type_msg(d, list)]))
            vals, ch = [], {}
            for i, x in enumerate(d):
                try:
                    vals.append(self.deser(td.t, x))
                except Rejected as r:
                    ch[i] = r.err
            msgs = constraint_failures(c, d, ARR_KW)
            if msgs or ch:
                raise Rejected(Err(msgs, ch))
            if td.kind in ("set", "abstractset", "frozenset") and any(_unhashable(v) for v in vals):
                raise Undetermined("a set of unhashable images: the statement gives no image")
            if td.kind in ("set", "abstractset"):
                return set(vals)
            if td.kind == "frozenset":
                return frozenset(vals)
            if td.kind == "tuplevar":
                return tuple(vals)
            return vals
        if isinstance(td, Tup):
            if type(d) is not list:
                raise Rejected(Err([bad_type_msg(d, list)]))
            n = len(td.elts)
            E = messages()
            if len(d) < n:
                raise Rejected(Err([_fmt(E.min_items, n)]))
            if len(d) > n:
                raise Rejected(Err([_fmt(E.max_items, n)]))
            vals, ch = [], {}
            for i, (t, x) in enumerate(zip(td.elts, d)):
                try:
                    vals.append(self.deser(t, x))
                except Rejected as r:
                    ch[i] = r.err
            msgs = constraint_failures(c, d, ARR_KW)
            if msgs or ch:
                raise Rejected(Err(msgs, ch))
            return tuple(vals)
        if isinstance(td, Mapp):
            if type(d) is not dict:
                raise Rejected(Err([bad_type_msg(d, dict)]))
            res, ch = {}, {}
            for k, x in d.items():
                err = None
                kk = vv = None
                try:
                    kk = self.deser(td.k, k)
                except Rejected as r:
                    err = r.err
                try:
                    vv = self.deser(td.v, x)
                except Rejected as r:
                    err = merge(err, r.err)
                if err is not None:
                    ch[k] = err
                else:
                    res[kk] = vv
            msgs = constraint_failures(c, d, OBJ_KW)
            if msgs or ch:
                raise Rejected(Err(msgs, ch))
            return res
        if isinstance(td, Lit):
            for v in td.values:
                if type(v) is type(d) and v == d:
                    return v
            if _unhashable(d):
                raise Rejected(Err(bad_type_msgs(d, td.values)))
            raise Rejected(Err([_fmt(messages().one_of, list(td.values))]))
        if isinstance(td, Enm):
            cls = self.realm.built[td.name]
            for name, v in td.members:
                if type(v) is type(d) and v == d:
                    return cls[name]
            if _unhashable(d):
                raise Rejected(Err(bad_type_msgs(d, tuple(v for _, v in td.members))))
            raise Rejected(Err([_fmt(messages().one_of, [v for _, v in td.members])]))
        if isinstance(td, Obj):
            return self.deser_obj(td, d, c)
        if isinstance(td, Disc):
            E = messages()
            if type(d) is not dict:
                raise Rejected(Err([bad_type_msg(d, dict)]))
            alias = o.alias(td.alias)
            if alias not in d:
                raise Rejected(Err([], {alias: Err([E.missing_property])}))
            mapping = disc_mapping(td, o)
            key = d[alias]
            if _unhashable(key) or type(key) is not str or key not in mapping:
                raise Rejected(Err([], {alias: Err([_fmt(E.one_of, list(mapping))])}))
            return self.deser_obj(mapping[key], d, c, disc_key=alias)
        raise TypeError(td)

    # A.1 ------------------------------------------------------------------------
    def deser_obj(self, td: Obj, d, c: Optional[Cons], disc_key=None):
        o = self.opts
        E = messages()
        if type(d) is not dict:
            raise Rejected(Err([bad_type_msg(d, dict)]))
        c = merge_cons(c, td.cons)
        msgs = constraint_failures(c, d, OBJ_KW)
        ch: Dict[Any, Err] = {}
        values: Dict[str, Any] = {}
        normal = [f for f in td.fields if not (f.flatten or f.pattern is not None or f.additional) and f.init]
        alias_of = {f.name: ext_name(td, f, o) for f in td.fields}
        required_by: Dict[str, List[str]] = {}
        for fname, reqs in td.dep_required:
            for r in reqs:
                required_by.setdefault(r, []).append(alias_of[fname])
        fbd = lambda f: f.fall_back or o.fall_back_on_default  # noqa: E731
        is_req = lambda f: (f.td_required if td.kind == "typeddict" else f.required)  # noqa: E731
        for f in normal:
            a = alias_of[f.name]
            if a in d:
                try:
                    values[f.name] = self.deser(f.t, d[a], f.cons)
                except Rejected as r:
                    if is_req(f) or not fbd(f):
                        ch[a] = r.err
            elif is_req(f):
                ch[a] = Err([E.missing_property])
            else:
                requiring = sorted(x for x in required_by.get(f.name, []) if x in d)
                if requiring:
                    ch[a] = Err([E.missing_property + f" (required by {requiring})"])
        remain = [k for k in d if k not in {alias_of[f.name] for f in normal}]
        dropped_disc = False
        if disc_key is not None and disc_key in remain:
            # the discriminator property is allowed on (and not passed to) the selected alternative
            remain.remove(disc_key)
            dropped_disc = True
        agg_msgs: List[str] = []
        for f in td.fields:
            if not f.flatten:
                continue
            inner = self._flat_target(f.t)
            aliases = self.flattened_aliases(inner)
            part = {k: d[k] for k in d if k in aliases}
            remain = [k for k in remain if k not in part]
            try:
                values[f.name] = self.deser(f.t, part, f.cons)
            except Rejected as r:
                if is_req(f) or not fbd(f):
                    agg_msgs += r.err.messages
                    ch.update(r.err.children)
        for f in td.fields:
            if f.pattern is None:
                continue
            pat = re.compile(f.pattern)
            part = {k: d[k] for k in remain if isinstance(k, str) and pat.match(k)}
            remain = [k for k in remain if k not in part]
            try:
                values[f.name] = self.deser(f.t, part, f.cons)
            except Rejected as r:
                if is_req(f) or not fbd(f):
                    agg_msgs += r.err.messages
                    ch.update(r.err.children)
        addf = [f for f in td.fields if f.additional]
        if addf:
            f = addf[0]
            part = {k: d[k] for k in remain}
            remain = []
            try:
                values[f.name] = self.deser(f.t, part, f.cons)
            except Rejected as r:
                if is_req(f) or not fbd(f):
                    agg_msgs += r.err.messages
                    ch.update(r.err.children)
        elif remain:
            if not o.additional_properties:
                for k in remain:
                    ch[k] = Err([E.unexpected_property])
            elif td.kind == "typeddict":
                for k in remain:
                    values[k] = d[k]
        msgs = msgs + agg_msgs
        if msgs or ch:
            raise Rejected(Err(msgs, ch))
        return self.construct(td, values)

    def _flat_target(self, t: TD) -> Obj:
        while isinstance(t, (Ann, NewT, Opt)):
            t = t.t
        if isinstance(t, Ref):
            t = self.realm.descs[t.name]
        assert isinstance(t, Obj), t
        return t

    def flattened_aliases(self, inner: Obj) -> set:
        out = set()
        for f in inner.fields:
            if f.flatten:
                out |= self.flattened_aliases(self._flat_target(f.t))
            elif f.pattern is None and not f.additional:
                out.add(ext_name(inner, f, self.opts))
        return out

    def construct(self, td: Obj, values: Dict[str, Any]):
        cls = self.realm.built[td.name]
        if td.kind == "typeddict":
            return dict(values)
        return cls(**values)


def disc_mapping(td: "Disc", opts: "Opts") -> Dict[str, "Obj"]:
    """documented default: the literal values of the alternative's discriminator field when it
    has one, else the alternative's type name; an explicit mapping overrides the implicit keys
    of the classes it mentions"""
    default: Dict[str, Obj] = {}
    for a in td.alts:
        keys = None
        for f in a.fields:
            if (f.alias if f.alias is not None else f.name) == td.alias:
                t = f.t
                while isinstance(t, (Ann, NewT)):
                    t = t.t
                if isinstance(t, Lit):
                    keys = [v for v in t.values if isinstance(v, str)]
        for k in keys if keys is not None else [a.name]:
            default[k] = a
    if td.mapping is None:
        return default
    by_name = {a.name: a for a in td.alts}
    explicit = {k: by_name[n] for k, n in td.mapping}
    res = dict(explicit)
    for k, a in default.items():
        if a.name not in {x.name for x in explicit.values()}:
            res[k] = a
    return res


def _unhashable(d) -> bool:
    try:
        hash(d)
        return False
    except TypeError:
        return True


def bad_type_msgs(d, values) -> List[str]:
    """an unhashable datum cannot be a literal: one type error per JSON class of the literals"""
    classes = []
    for v in values:
        if type(v) not in classes:
            classes.append(type(v))
    return [bad_type_msg(d, c) for c in classes]


class Undetermined(Exception):
    """the statement does not determine the outcome for this (type, datum)"""


def _unhashable(v) -> bool:
    try:
        hash(v)
        return False
    except TypeError:
        return True


def ref_deserialize(td: TD, d, realm: Realm, opts: Opts):
    """('ok', image) | ('err', [(loc, msg), ...]) | ('?', reason) when the statement gives no outcome"""
    try:
        return ("ok", Ref_(realm, opts).deser(td, d))
    except Rejected as r:
        return ("err", r.err.flat())
    except Undetermined as u:
        return ("?", str(u))
