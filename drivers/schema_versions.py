"""C18 -- schema dialect conversion preserves the set of valid instances (B).

case = (type, entry point, options, version V, datum).
  reference : Draft202012Validator( X_schema(T, version=DRAFT_2020_12, **opts) ).is_valid(d)
  converted : the validator of V's own rules on X_schema(T, version=V, **opts):
                2019-09 -> Draft201909Validator, draft-07 -> Draft7Validator,
                OpenAPI 3.1 -> Draft202012Validator (3.1 uses the 2020-12 dialect),
                OpenAPI 3.0 -> the documented mapping schema_common.oas30_to_json_schema, then the
                               draft-07 rules; the reference is then the 2020-12 schema without the
                               keywords that OpenAPI 3.0 cannot express and apischema documents as
                               dropped (dependentRequired, unevaluatedProperties, and the `items`
                               that accompanies prefixItems = additionalItems)
  For the OpenAPI versions definitions are not inline: the document validated is the schema plus
  {"components": {"schemas": definitions_schema(...)}} so that '#/components/schemas/X' resolves.
The two must agree on every datum.  Independently of the data, the converted schema (and its
definitions) may only use V's vocabulary at every schema position, its $refs must carry V's
prefix and resolve."""
import copy
import random
from typing import Any, Dict, List, Optional, Tuple

from . import model as M
from . import pools as P
from . import schema_agree as SA
from . import schema_common as C
from .schema_common import Native, tname

INT, FLOAT, STR, BOOL, NONE = P.INT, P.FLOAT, P.STR, P.BOOL, P.NONE
cons = M.cons

# keywords that are not part of a dialect's vocabulary (the statement's list, per dialect)
FORBIDDEN = {
    "2020-12": {"additionalItems", "definitions", "dependencies", "nullable", "example"},
    "oas-3.1": {"additionalItems", "definitions", "dependencies", "nullable", "example"},
    "2019-09": {"prefixItems", "definitions", "dependencies", "nullable", "example"},
    "draft-07": {"prefixItems", "$defs", "dependentRequired", "dependentSchemas", "unevaluatedProperties", "unevaluatedItems", "nullable", "example"},
    "oas-3.0": {"prefixItems", "$defs", "definitions", "dependentRequired", "dependentSchemas", "dependencies", "unevaluatedProperties", "unevaluatedItems", "additionalItems", "const", "examples"},
}
ARRAY_ITEMS_ALLOWED = {"2019-09", "draft-07", "oas-3.0"}  # the statement lists array-form items for the converted dialects
REF_ALONE = {"draft-07", "oas-3.0"}  # siblings of $ref are ignored by these dialects: $ref must be isolated
OAS30_DROPPED = ("dependentRequired", "unevaluatedProperties")

K1 = M.Obj(
    "dataclass",
    "K1",
    (
        M.Fld("c", INT, alias="const"),
        M.Fld("ex", M.Coll("list", INT), alias="examples", factory="list"),
        M.Fld("pi", M.Tup((INT, STR)), alias="prefixItems", has_default=True, default=(1, "a")),
        M.Fld("dr", M.Opt(INT), alias="dependentRequired", has_default=True, default=None),
        M.Fld("defs", M.Opt(P.A), alias="$defs", has_default=True, default=None),
        M.Fld("n", M.Opt(BOOL), alias="nullable", has_default=True, default=None),
    ),
)
K2 = M.Obj("dataclass", "K2", (M.Fld("j", P.J), M.Fld("js", M.Coll("list", P.J), factory="list"), M.Fld("oj", M.Opt(P.JA), has_default=True, default=None)))
K3 = M.Obj("dataclass", "K3", (M.Fld("t", M.Tup((M.Tup((INT, M.Opt(STR))), M.Lit((1,))))), M.Fld("m", M.Mapp(STR, M.Tup((INT,))), factory="dict"), M.Fld("p", M.Mapp(STR, M.Tup((M.Lit(("x",)), M.Opt(INT)))), factory="dict", pattern="^x")))
ONE = M.Enm("One", (("ONLY", "only"),))
K4 = M.Obj("dataclass", "K4", (M.Fld("o", ONE), M.Fld("oo", M.Opt(ONE), has_default=True, default=None), M.Fld("os", M.Coll("list", ONE), factory="list"), M.Fld("u", M.Uni((M.Lit((1,)), M.Lit(("a",)), NONE)), has_default=True, default=None)))
K5 = M.Obj("dataclass", "K5", (M.Fld("p", M.Ann(P.POS, cons(max=5))), M.Fld("q", P.POS, cons=cons(max=3), has_default=True, default=0), M.Fld("a", M.Ann(P.A, cons(min_props=2)), has_default=True, default=None), M.Fld("n", M.Opt(M.Ann(P.NODE, cons(max_props=1))), has_default=True, default=None)))


def extra_descriptions(tier: str) -> List[Any]:
    return [
        K1,
        K2,
        K3,
        K4,
        K5,
        M.Opt(K2),
        M.Coll("list", K3),
        M.Mapp(STR, K4),
        M.Tup((K5, M.Opt(K5))),
        M.Uni((P.J, STR, NONE)),
        M.Uni((M.Tup((INT, STR)), M.Lit((1,)), NONE)),
        M.Opt(M.Tup((M.Opt(INT), M.Uni((INT, STR))))),
        M.Coll("list", M.Opt(M.Uni((INT, STR)))),
        M.Mapp(STR, M.Opt(M.Uni((INT, STR, BOOL)))),
        M.Tup((P.POS, M.Ann(P.POS, cons(max=5)), M.Opt(P.POS))),
        M.Opt(M.Ann(P.A, cons(min_props=2))),
        M.Coll("list", M.Opt(P.E)),
        M.Opt(M.Coll("list", M.Opt(P.JA))),
    ]


def _annotated_keywords(realm):
    def mk():
        from dataclasses import dataclass, field
        from typing import List, Optional, Tuple

        from apischema import schema
        from apischema.typing import Annotated

        Score = Annotated[int, schema(min=0, examples=(1, 2), title="score", description="d", deprecated=True)]

        @dataclass
        class Ann1:
            s: Score
            ss: List[Score] = field(default_factory=list)
            t: Tuple[Score, Optional[Score]] = (0, None)
            o: Optional[Score] = field(default=None, metadata=schema(examples=[None, 3], default=7))

        Ann1.__module__ = realm.name
        return Ann1

    return SA._fresh(realm, "Ann1", mk), {}


def natives(tier: str) -> List[Native]:
    return SA.natives(tier) + [
        Native("Ann1 (examples / title / description / deprecated / default at every level)", _annotated_keywords, samples=({"s": 1, "ss": [2], "t": [3, None], "o": 4}, {"s": 0}), others=({"s": -1}, {"s": 1, "t": [1]}, {"s": 1, "t": [1, 2, 3]}, {"s": 1, "o": None}, {"s": 1, "ss": [-1]}), has_obj=True),
    ]


def option_sets(tier: str) -> Dict[str, dict]:
    return {
        "all_refs=False": {"opts": {"all_refs": False}},
        "all_refs=True": {"opts": {"all_refs": True}, "needs_named": True},
        "additional+all_refs": {"opts": {"all_refs": True, "additional_properties": True}, "needs_obj": True},
    }


def vocabulary_errors(schema, vname: str) -> List[Tuple[str, str]]:
    """(kind, location) of every use of a keyword outside the vocabulary of the dialect"""
    out: List[Tuple[str, str]] = []
    prefix = C.DIALECT[vname]["prefix"]

    def fn(s: dict, path):
        loc = "/".join(map(str, path))
        for k in s:
            if k in FORBIDDEN[vname]:
                out.append((f"keyword:{k}", loc))
        if isinstance(s.get("items"), list) and vname not in ARRAY_ITEMS_ALLOWED:
            out.append(("array-form-items", loc))
        if vname == "oas-3.0":
            t = s.get("type")
            if isinstance(t, (list, tuple)):
                out.append(("type-array", loc))
            elif t == "null":
                out.append(("type-null", loc))
            if "nullable" in s and not isinstance(s["nullable"], bool):
                out.append(("nullable-not-boolean", loc))
        if "$ref" in s:
            if vname in REF_ALONE and len(s) > 1:
                out.append(("ref-with-siblings:" + ",".join(sorted(k for k in s if k != "$ref")), loc))
            if not (isinstance(s["$ref"], str) and s["$ref"].startswith(prefix)):
                out.append((f"ref-prefix:{s['$ref']}", loc))
        disc = s.get("discriminator")
        if isinstance(disc, dict):
            for k, r in (disc.get("mapping") or {}).items():
                if not (isinstance(r, str) and r.startswith(prefix)):
                    out.append((f"ref-prefix:{r}", loc + "/discriminator/mapping"))

    C.walk_schema(schema, fn)
    return out


def strip_for_oas30(schema):
    def fn(s: dict) -> dict:
        s = dict(s)
        for k in OAS30_DROPPED:
            s.pop(k, None)
        if "prefixItems" in s:
            s.pop("items", None)
        return s

    return C.map_schema(schema, fn)


def _generic_loc(loc: str) -> str:
    return "/".join("*" if p.isdigit() else p for p in loc.split("/"))


def run(report, tier: str, seed: int, log_name: str = "version_conversion"):
    from apischema.json_schema import definitions_schema, deserialization_schema, serialization_schema
    from jsonschema import Draft202012Validator

    rng = random.Random(seed)
    versions = C.versions()
    targets = ["2019-09", "draft-07", "oas-3.0", "oas-3.1"]
    entry = {"deserialization": deserialization_schema, "serialization": serialization_schema}
    pool: List[Any] = P.type_pool(tier) + SA.extra_descriptions(tier) + extra_descriptions(tier) + natives(tier)
    osets = option_sets(tier)
    log = report.driver(
        log_name,
        bound=f"{len(pool)} types (pools.type_pool + the descriptions / real types of the C06 driver + {len(extra_descriptions(tier)) + 1} types nesting every keyword the builder emits -- prefixItems, const, dependentRequired, type arrays, null alternatives, examples, $ref with siblings -- inside properties / items / additionalProperties / patternProperties / anyOf / definitions, and properties named like keywords) x {{deserialization, serialization}} x option sets {list(osets)} x versions {targets} x per-type datum pools (valid samples, <= {30 if tier == 'quick' else 80} mutants each, {len(P.ATOMS)} atoms, {6 if tier == 'quick' else 40} seeded random values)",
    )
    log.rule("case = (type, entry point, options, version, datum): valid under V's rules against the version=V schema <=> valid under the 2020-12 rules against the 2020-12 schema (minus the documented OpenAPI 3.0 drops); plus one vocabulary / reference-prefix case per (type, entry point, options, version); distinct by that tuple; non-trivial when the datum is a list / dict or the type is not a bare primitive")
    realm = C.make_realm("c18")
    inv = ["to_json_schema_2019_09", "to_json_schema_7", "to_open_api_3_0", "JsonSchemaVersion.conversion", "_schema", "definitions_schema"]
    try:
        for td in pool:
            name = tname(td)
            try:
                tp, extra = C.realize(td, realm)
            except Exception as e:
                report.tool_error(f"cannot realise {name}: {e!r}")
                continue
            P.set_sample_aliaser(None)
            data = C.data_pool(td, tier, rng)
            for direction in ("deserialization", "serialization"):
                if direction == "serialization" and ("conversion" in extra or "default_conversion" in extra):
                    continue  # the conversions of these natives are deserialization conversions
                for optname, o in osets.items():
                    if o.get("needs_obj") and not C.has_obj(td):
                        continue
                    if o.get("needs_named") and not C.has_named(td):
                        continue
                    opts = dict(o["opts"])
                    opts.update(extra)
                    case0 = {"type": name, "entry": direction + "_schema", "options": optname}
                    try:
                        s0 = entry[direction](tp, version=versions["2020-12"], with_schema=False, **opts)
                        v0 = Draft202012Validator(s0)
                        ref_valid = []
                        for d in data:
                            ref_valid.append(v0.is_valid(d))
                    except RecursionError:
                        continue  # ill-founded 2020-12 schema: the subject of C17
                    except Exception as e:
                        # generation failures are the subject of C17; nothing to convert
                        log.case(("no-reference", name, direction, optname), False)
                        continue
                    s0_oas = None
                    for vname in targets:
                        tag = f"{name}:{direction}:{optname}:{vname}"
                        case = {**case0, "version": vname}
                        log.case(("vocabulary", tag), True, sample=case)
                        try:
                            sv = dict(entry[direction](tp, version=versions[vname], with_schema=False, **opts))
                            defs_v = None
                            if not C.DIALECT[vname]["inline_defs"]:
                                root_arg = (tp, opts["conversion"]) if "conversion" in opts else tp
                                dopts = {k: v for k, v in opts.items() if k not in ("conversion", "default_conversion")}
                                if "default_conversion" in opts:
                                    dopts["default_" + direction] = opts["default_conversion"]
                                defs_v = dict(definitions_schema(**{direction: [root_arg]}, version=versions[vname], **dopts))
                        except Exception as e:
                            log.fail(f"conversion-crash:{tag}:{type(e).__name__}", f"{direction}_schema({name}, {optname}, version={vname}) raised {type(e).__name__}: {str(e)[:160]} although the 2020-12 schema is generated", case, observed=repr(e)[:400], functions_involved=inv)
                            continue
                        # -- vocabulary and prefix, at every schema position
                        parts = [("schema", sv)] + [(f"definitions[{n}]", s) for n, s in (defs_v or {}).items()]
                        for where, part in parts:
                            for kind, loc in vocabulary_errors(part, vname):
                                log.fail(
                                    f"vocabulary:{vname}:{kind}:{name}:{direction}:{optname}:{where.split('[')[0]}/{_generic_loc(loc)}",
                                    f"{direction}_schema({name}, {optname}, version={vname}) uses {kind} at {where}/{loc}, outside the vocabulary of {vname}",
                                    {**case, "schema": sv, "definitions": defs_v},
                                    observed=f"{kind} at {where}/{loc}",
                                    expected=f"only the vocabulary of {vname} at every nesting level",
                                    functions_involved=inv,
                                )
                        # -- the document to validate with
                        doc = sv
                        if defs_v is not None:
                            doc = dict(sv)
                            doc["components"] = {"schemas": defs_v}
                        unresolved = []
                        for ref, path in C.all_refs_of(sv) + [r for s in (defs_v or {}).values() for r in C.all_refs_of(s)]:
                            try:
                                if not ref.startswith("#/"):
                                    raise KeyError(ref)
                                cur: Any = doc
                                for part_ in ref[2:].split("/"):
                                    cur = cur[part_]
                            except (KeyError, TypeError):
                                unresolved.append(ref)
                        if unresolved:
                            log.fail(f"unresolved-ref:{tag}:{sorted(set(unresolved))}", f"{direction}_schema({name}, {optname}, version={vname}): $ref {sorted(set(unresolved))} do not resolve in the generated document", {**case, "schema": sv, "definitions": defs_v}, observed=sorted(set(unresolved)), functions_involved=inv)
                            continue
                        if vname == "oas-3.0":
                            doc = C.oas30_to_json_schema({k: v for k, v in doc.items() if k != "components"})
                            if defs_v is not None:
                                doc["components"] = {"schemas": {n: C.oas30_to_json_schema(s) for n, s in defs_v.items()}}
                            if s0_oas is None:
                                s0_oas = Draft202012Validator(strip_for_oas30(s0))
                                oas_valid = [s0_oas.is_valid(d) for d in data]
                            expected_valid = oas_valid
                        else:
                            expected_valid = ref_valid
                        vcls = C.dialect_validator(vname)
                        try:
                            vcls.check_schema({k: v for k, v in doc.items() if k != "components"})
                            vv = vcls(doc)
                        except Exception as e:
                            log.fail(f"not-a-schema:{tag}", f"{direction}_schema({name}, {optname}, version={vname}) is not a schema of its dialect: {str(e)[:200]}", {**case, "schema": sv}, observed=str(e)[:400], functions_involved=inv)
                            continue
                        for d, exp in zip(data, expected_valid):
                            nontrivial = isinstance(d, (list, dict)) or not isinstance(td, M.Prim)
                            log.case((tag, repr(d)), nontrivial, sample={**case, "datum": d} if nontrivial else None)
                            try:
                                got = vv.is_valid(d)
                            except RecursionError:
                                break
                            except Exception as e:
                                report.tool_error(f"validator {vname} failed on {name} / {d!r}: {e!r}")
                                break
                            if got == exp:
                                continue
                            if exp:
                                why = C.why_invalid(vv, d)
                                kind = "converted-rejects"
                            else:
                                why = C.why_invalid(s0_oas if vname == "oas-3.0" else v0, d)
                                kind = "converted-accepts"
                            log.fail(
                                f"{kind}:{vname}:{name}:{direction}:{optname}:{d!r}:{why}",
                                f"{kind}: {direction}_schema({name}, {optname}): d={d!r} is {'valid' if exp else 'invalid'} against the 2020-12 schema but {'valid' if got else 'invalid'} against the version={vname} schema under {vname}'s rules ({why})",
                                {**case, "datum": repr(d), "schema_2020_12": s0, "schema_converted": sv, "definitions": defs_v},
                                observed=f"{vname}: {'valid' if got else 'invalid'}",
                                expected=f"2020-12: {'valid' if exp else 'invalid'}",
                                functions_involved=inv,
                            )
    finally:
        realm.dispose()
    return log
