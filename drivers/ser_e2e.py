"""C04: run-time contract of apischema.serialize / serialization_method against the reference
serialization of drivers/model_ser.py (B: bounded by the type pool, the generated values and the
option sets; the bound is written into the evidence)."""
from __future__ import annotations

import itertools
import random
from typing import Any, Dict, List, Optional, Tuple

from . import model as M
from . import model_ser as S
from . import ser_pools as SP
from .deser_e2e import camel


def tname(td) -> str:
    """compact, stable, bracket-free (fnmatch-safe) rendering of a description"""
    if isinstance(td, M.Prim):
        return td.name
    if isinstance(td, M.AnyT):
        return "Any"
    if isinstance(td, M.Opt):
        return f"Opt({tname(td.t)})"
    if isinstance(td, M.Uni):
        return "Uni(" + "|".join(tname(a) for a in td.alts) + ")"
    if isinstance(td, M.Coll):
        return f"{td.kind}({tname(td.t)})"
    if isinstance(td, M.Tup):
        return "Tup(" + ",".join(tname(a) for a in td.elts) + ")"
    if isinstance(td, M.Mapp):
        return f"{td.kind}({tname(td.k)}:{tname(td.v)})"
    if isinstance(td, M.Lit):
        return "Lit(" + ",".join(map(repr, td.values)) + ")"
    if isinstance(td, (M.Enm, M.Obj, M.Ref)):
        return td.name
    if isinstance(td, M.NewT):
        return f"New:{td.name}"
    if isinstance(td, M.Ann):
        return f"Ann({tname(td.t)};" + ",".join(f"{k}={v!r}" for k, v in td.cons.kw) + ")"
    if isinstance(td, M.Disc):
        return f"Disc({td.alias};" + "|".join(a.name for a in td.alts) + (";map" if td.mapping else "") + ")"
    if isinstance(td, S.Dyn):
        return f"Dyn({tname(td.t)};{td.conv.name})"
    if isinstance(td, S.Spec):
        return f"{td.obj.name}<{tname(td.arg)}>"
    if isinstance(td, S.TVar):
        return "T"
    return repr(td)


OPTION_SETS: Dict[str, dict] = {
    "default": {},
    "exclude_none": {"exclude_none": True},
    "exclude_defaults": {"exclude_defaults": True},
    "exclude_unset_off": {"exclude_unset": False},
    "exclude_none+defaults": {"exclude_none": True, "exclude_defaults": True},
    "exclude_all_off_unset": {"exclude_none": True, "exclude_defaults": True, "exclude_unset": False},
    "additional": {"additional_properties": True},
    "camel": {"aliaser": camel},
    "camel+additional": {"aliaser": camel, "additional_properties": True},
    "camel+exclude_defaults": {"aliaser": camel, "exclude_defaults": True},
    "check_type": {"check_type": True},
    "check_type+fallback": {"check_type": True, "fall_back_on_any": True},
    "fallback": {"fall_back_on_any": True},
    "check_type+exclude_none": {"check_type": True, "exclude_none": True},
}
QUICK = list(OPTION_SETS)


def thorough_option_sets() -> Dict[str, dict]:
    out = dict(OPTION_SETS)
    for xn, xd, xu, al, ct, ap in itertools.product((False, True), repeat=6):
        o: Dict[str, Any] = {}
        name = []
        if xn:
            o["exclude_none"] = True
            name.append("xn")
        if xd:
            o["exclude_defaults"] = True
            name.append("xd")
        if not xu:
            o["exclude_unset"] = False
            name.append("xu0")
        if al:
            o["aliaser"] = camel
            name.append("camel")
        if ct:
            o["check_type"] = True
            name.append("ct")
        if ap:
            o["additional_properties"] = True
            name.append("ap")
        out.setdefault("+".join(name) or "default", o)
    return out


def mk_sopts(o: dict) -> S.SOpts:
    return S.SOpts(
        exclude_none=o.get("exclude_none", False),
        exclude_defaults=o.get("exclude_defaults", False),
        exclude_unset=o.get("exclude_unset", True),
        additional_properties=o.get("additional_properties", False),
        aliaser=o.get("aliaser"),
    )


def has_obj(td) -> bool:
    if isinstance(td, (M.Obj, M.Ref, M.Disc, M.AnyT, S.Spec)):
        return True
    if isinstance(td, S.Dyn):
        return has_obj(td.t) or has_obj(td.conv.target)
    if isinstance(td, (M.Opt, M.Coll, M.Ann, M.NewT)):
        return has_obj(td.t)
    if isinstance(td, M.Uni):
        return any(has_obj(a) for a in td.alts)
    if isinstance(td, M.Tup):
        return any(has_obj(a) for a in td.elts)
    if isinstance(td, M.Mapp):
        return has_obj(td.k) or has_obj(td.v)
    return False


def ser_method_classes(method) -> List[str]:
    """names of the node classes of a compiled serialization method tree"""
    import dataclasses

    from apischema.serialization.methods import BaseField, SerializationMethod

    seen = set()
    out = set()

    def rec(x, depth=0):
        if id(x) in seen or depth > 12:
            return
        seen.add(id(x))
        if isinstance(x, (SerializationMethod, BaseField)):
            out.add(type(x).__name__)
        if dataclasses.is_dataclass(x) and not isinstance(x, type):
            for f in dataclasses.fields(x):
                rec(getattr(x, f.name, None), depth + 1)
        elif isinstance(x, (tuple, list)):
            for y in x:
                rec(y, depth + 1)
        elif isinstance(x, dict):
            for y in x.values():
                rec(y, depth + 1)

    rec(getattr(method, "__self__", None))
    return sorted(out)


# a clear class mismatch for the type-checking options: (description, ill-typed values)
def ill_typed(td, realm) -> List[Any]:
    t = S.strip(td, realm)
    a = realm.built["A"](1, "x")
    if isinstance(t, M.Prim) and t.name == "int":
        return ["s", None, [1], a]
    if isinstance(t, M.Prim) and t.name == "str":
        return [1, None, ["s"], a]
    if isinstance(t, M.Coll) and t.kind == "list" and isinstance(S.strip(t.t, realm), M.Prim):
        return [{"k": 1}, 3, a]
    if isinstance(t, M.Mapp) and t.kind == "dict":
        return [[1], 3, a]
    if isinstance(t, M.Obj) and t.kind in ("dataclass", "namedtuple") and t.name != "A" and not (isinstance(t, S.SObj) and t.serializer):
        return [a, 1, "s", [a], {"a": 1}]
    if isinstance(t, M.Enm):
        return [a, [1]]
    return []


def call_kwargs(td, o: dict, realm) -> dict:
    kw = dict(o)
    if isinstance(td, S.Dyn):
        kw["conversion"] = S.conversion_object(td.conv, realm)
    return kw


def run(report, tier: str, seed: int, log_name: str = "serialize_vs_reference"):
    from apischema import serialization_method, serialize

    rng = random.Random(seed)
    pool = SP.ser_pool(tier)
    optsets = OPTION_SETS if tier == "quick" else thorough_option_sets()
    log = report.driver(
        log_name,
        bound=f"type pool of {len(pool)} descriptions (C01 pool + {len(SP.SER_OBJECTS)} classes with serialized methods / skip / none_as_undefined / Undefined / with_fields_set / init=False / conversions, {len(SP.DYNS)} dynamic conversions) x {len(optsets)} option sets over exclude_none, exclude_defaults, exclude_unset, additional_properties, aliaser, check_type, fall_back_on_any x generated values (constructor calls with each optional argument given / omitted, each boundary value of a field one at a time: default, None, Undefined, falsy; {4 if tier == 'quick' else 16} seeded random combinations per class; containers of 0..{4 if tier == 'quick' else 5} elements) + ill-typed values for check_type",
    )
    log.rule(
        "case = (type description, option set, value); postcondition of serialize(T, v, **opts) and of serialization_method(T, **opts)(v): the result is JSON data (dict with str keys / list / str / int / float / bool / None, exact classes) equal to ref_serialize (fields under their external name, collections as lists, sets in any order, enums by value, conversions applied, serialized methods included, aggregate fields merged; omission rule = second sentence of the C04 statement); serialize(v) == serialize(type(v), v) for instances of non-generic classes; with check_type an ill-typed value raises (or gets the image of its own class with fall_back_on_any). Distinct by the triple; non-trivial when the value is not a bare primitive"
    )
    realm = M.Realm("ser")
    SP.prepare_realm(realm)
    gen = SP.Gen(realm, tier, rng)
    for td in pool:
        tn = tname(td)
        try:
            tp = S.realize(td, realm)
            vals = gen.values(td)
        except Exception as e:
            report.tool_error(f"cannot realise / generate values for {tn}: {e!r}")
            continue
        bad = [v for v in vals if not S.conforms(td, v, realm)]
        if bad:
            report.tool_error(f"value generator of {tn} produced a non-conforming value {bad[0]!r}")
            continue
        # (a type with contradictory constraints has no value: only its compilation is exercised)
        objish = has_obj(td)
        for optname, o in optsets.items():
            if not objish and any(k in o for k in ("exclude_none", "exclude_defaults", "exclude_unset", "additional_properties", "aliaser")):
                continue
            sopts = mk_sopts(o)
            kw = call_kwargs(td, o, realm)
            try:
                meth = serialization_method(tp, **kw)
            except Exception as e:
                log.case((tn, optname, "compile"), True)
                log.fail(
                    f"compile:{tn}:{optname}:{type(e).__name__}",
                    f"serialization_method({tn}, {optname}) raised {e!r} for a supported type",
                    {"type": tn, "description": repr(td), "options": optname},
                    observed=repr(e),
                    functions_involved=["SerializationMethodVisitor"],
                )
                continue
            involved: Optional[List[str]] = None

            def fail(kind, v, summary, got, exp):
                nonlocal involved
                if involved is None:
                    try:
                        involved = ser_method_classes(meth)
                    except Exception:
                        involved = []
                d = SP.describe(v)
                log.fail(
                    f"{kind}:{tn}:{optname}:{d}",
                    f"{kind}: serialize({tn}, {d}, {optname}): {summary}",
                    {"type": tn, "description": repr(td), "options": optname, "value": d},
                    observed=repr(got)[:600],
                    expected=repr(exp)[:600],
                    functions_involved=involved,
                )

            for v in vals:
                nontrivial = not (v is None or type(v) in (bool, int, float, str))
                d = SP.describe(v)
                log.case((tn, optname, type(v).__name__, d), nontrivial, sample={"type": tn, "options": optname, "value": d} if nontrivial else None)
                try:
                    exp = S.ref_serialize(td, v, realm, sopts)
                except Exception as e:
                    report.tool_error(f"reference failed on {tn} / {d}: {e!r}")
                    continue
                try:
                    got: Tuple[str, Any] = ("ok", serialize(tp, v, **kw))
                except Exception as e:
                    got = ("raised", f"{type(e).__name__}: {e}")
                try:
                    got2: Tuple[str, Any] = ("ok", meth(v))
                except Exception as e:
                    got2 = ("raised", f"{type(e).__name__}: {e}")
                if got[0] == "raised":
                    fail("raised", v, f"raised {got[1]} on a well-typed value", got, S.plain(exp))
                    continue
                r = got[1]
                nj = S.non_json_part(r)
                if nj is not None:
                    fail("not-json", v, f"the result {r!r} is not JSON data at {nj}", r, S.plain(exp))
                elif not S.img_eq(r, exp):
                    fail("image-mismatch", v, f"result {r!r} differs from the documented image {S.plain(exp)!r}", r, S.plain(exp))
                if got2[0] == "raised" or not S.img_eq(got2[1], S.plain(r)) and not S.img_eq(got2[1], exp):
                    fail("method-mismatch", v, f"serialization_method(...)(v) gives {got2[1]!r} but serialize gives {r!r}", got2[1], r)
                # serialize(v) without a type, for instances of non-generic classes
                cls = type(v)
                if not isinstance(td, S.Dyn) and (cls in (bool, int, float, str, type(None)) or (realm.built.get(cls.__name__) is cls and not getattr(realm.descs.get(cls.__name__), "generic", False))) and "check_type" not in o:
                    o2 = {k: x for k, x in o.items() if k != "fall_back_on_any"}
                    try:
                        untyped = ("ok", serialize(v, **o2))
                    except Exception as e:
                        untyped = ("raised", f"{type(e).__name__}: {e}")
                    try:
                        typed = ("ok", serialize(cls, v, **o2))
                    except Exception as e:
                        typed = ("raised", f"{type(e).__name__}: {e}")
                    try:
                        exp_any = S.RefSer(realm, sopts).ser_any(v)
                    except Exception as e:
                        report.tool_error(f"reference (Any) failed on {d}: {e!r}")
                        continue
                    if untyped[0] == "raised" or typed[0] == "raised" or not S.img_eq(untyped[1], S.plain(typed[1])):
                        fail("untyped-mismatch", v, f"serialize(v) gives {untyped[1]!r} but serialize(type(v), v) gives {typed[1]!r}", untyped[1], typed[1])
                    elif not S.img_eq(untyped[1], exp_any):
                        fail("untyped-image", v, f"serialize(v) gives {untyped[1]!r}, the image by the class of v is {S.plain(exp_any)!r}", untyped[1], S.plain(exp_any))
            # type checking of ill-typed values
            if o.get("check_type") and not isinstance(td, S.Dyn):
                for v in ill_typed(td, realm):
                    if S.conforms(td, v, realm):
                        continue
                    d = SP.describe(v)
                    log.case((tn, optname, "ill-typed", d), True)
                    try:
                        got = ("ok", serialize(tp, v, **kw))
                    except Exception as e:
                        got = ("raised", f"{type(e).__name__}: {e}")
                    if o.get("fall_back_on_any"):
                        try:
                            exp_any = S.RefSer(realm, sopts).ser_any(v)
                        except Exception as e:
                            report.tool_error(f"reference (Any) failed on {d}: {e!r}")
                            continue
                        if got[0] == "raised" or not S.img_eq(got[1], exp_any):
                            fail("fallback-mismatch", v, f"ill-typed value with fall_back_on_any: got {got[1]!r}, the image by the class of the value is {S.plain(exp_any)!r}", got[1], S.plain(exp_any))
                    elif got[0] == "ok":
                        fail("check-type-silent", v, f"check_type=True accepted a value which is not an instance of the type and returned {got[1]!r}", got[1], "an exception")
    realm.dispose()
    return log
