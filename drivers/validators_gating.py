"""C10 driver -- validators run exactly when their inputs are valid; all errors are merged.

Run-time contract of ``apischema.deserialize`` on *generated* dataclasses with validators.
Each generated validator appends ``(name, observed dependency values)`` to a call log and fails
or passes according to a control table, so the set / order of the validators actually invoked is
observed through their own side effects.  The oracle (``reference``) is the property statement
(DESIGN.md appendix A.3, docs/validation.md), computed over the *description* of the type; it
never looks at apischema.

Label B: the type space is sampled (a systematic family at scope <= 2 fields / <= 2 validators
plus a seeded random family up to the stated scope); for every type the data (each field in
{absent, valid, invalid...}) x validator outcomes (pass / fail) are enumerated completely.
"""
from __future__ import annotations

import importlib
import itertools
import os
import random
import shutil
import sys
import tempfile
from dataclasses import dataclass
from typing import Any, Callable, Dict, List, Optional, Tuple

from . import model as M

# ---------------------------------------------------------------------------
# descriptions


@dataclass(frozen=True)
class FS:
    """a field: int-typed; kind
    plain   -- nothing special
    fv      -- carries a field-level validator (metadata validators(...)): negative is invalid
    nt      -- typed by a NewType of int on which a function validator is registered (negative is invalid)
    ann     -- typed Annotated[int, validators(...)] (negative is invalid)
    fb      -- fall_back_on_default (not required): invalid data is replaced by the default
    initvar -- dataclasses.InitVar with init_var(int): reachable by validators as a parameter
    flat    -- a flattened nested dataclass with one required int field"""

    name: str
    required: bool
    alias: Optional[str] = None
    kind: str = "plain"
    in_base: bool = False

    @property
    def idx(self) -> int:
        return int(self.name[1:])

    @property
    def default(self):
        return None if self.kind == "flat" else 70 + self.idx

    @property
    def valid(self) -> int:
        return 10 * (self.idx + 1) + 1

    def tag(self) -> str:
        return "/".join([self.kind, "req" if self.required else "def"] + (["alias"] if self.alias else []) + (["base"] if self.in_base else []))

    def sig(self) -> str:
        return f"{self.name}:{self.tag()}" + (f"={self.alias}" if self.alias else "")


STYLES = ("raise", "raise_children", "yield", "yield2", "yield_alias", "yield_astr", "yield_raw", "yield_index", "yield_multi", "yield_empty", "yield_path2")
ACCESS = ("direct", "helper", "prop", "helper2", "cyc")


@dataclass(frozen=True)
class VS:
    name: str
    deps: Tuple[str, ...]
    access: Tuple[str, ...]  # per dependency: direct | helper | prop | helper2 | param (InitVar)
    where: str = "own"  # base (method of the base class) | own (method) | func (function registered afterwards)
    field: Optional[str] = None  # @validator(<field>): errors go under the field's alias, discard defaults to the field
    field_ref: str = "obj"  # how field / discard are designated: obj (dataclass field object) | str | get_field
    discard: Optional[Tuple[str, ...]] = None  # explicit discard=...
    style: str = "raise"
    target: Optional[str] = None  # the field designated by get_alias(...) in yielded paths
    const: bool = False  # additionally reads a class constant (not a field)

    def discards(self) -> Tuple[str, ...]:
        if self.discard is not None:
            return self.discard
        return (self.field,) if self.field is not None else ()

    def sig(self) -> str:
        short = {"direct": "d", "helper": "h", "helper2": "hh", "prop": "p", "cyc": "c", "param": "arg"}
        d = ",".join(f"{n}.{short[a]}" for n, a in zip(self.deps, self.access))
        s = f"{self.name}:{self.where}({d}){self.style}"
        if self.field:
            s += f";field={self.field}"
        if self.discard is not None:
            s += f";discard={'+'.join(self.discard)}"
        if self.target:
            s += f";at={self.target}"
        if self.const:
            s += ";const"
        return s


@dataclass(frozen=True)
class TS:
    name: str
    fields: Tuple[FS, ...]
    validators: Tuple[VS, ...]
    inherit: bool = False
    count_by: str = "post_init"  # how constructions are counted: __post_init__ | a wrapper of __init__
    generic: bool = False  # the class is Generic[_T] (its first own plain field is typed _T); deserialized as Cls[int]
    route: str = "root"  # how the object type is reached: root | field (of a wrapper object) | list (List[...]) | optional

    def tvar_field(self) -> Optional[str]:
        if not self.generic:
            return None
        return next((f.name for f in self.fields if f.kind == "plain" and not (self.inherit and f.in_base)), None)

    def f(self, name: str) -> FS:
        return next(x for x in self.fields if x.name == name)

    def sig(self) -> str:
        head = "T" + ("<int>" if self.generic else "") + ("" if self.route == "root" else f"@{self.route}")
        return head + "[" + " ".join(f.sig() for f in self.fields) + " | " + " ".join(v.sig() for v in self.validators) + "]"


# ---------------------------------------------------------------------------
# source generation

RT_SOURCE = '''
from apischema import ValidationError

LOG = []
CTRL = {}
BUILT = []


class Runaway(BaseException):
    """raised from inside a validator once the call log is absurdly long (non-termination)"""


def _obs(x):
    if x is None or isinstance(x, (int, str, float)):
        return x
    try:
        return tuple(sorted(vars(x).items()))
    except TypeError:
        return repr(x)


def _enter(name, obs):
    LOG.append((name, tuple((k, _obs(v)) for k, v in obs)))
    if len(LOG) > 64:
        raise Runaway(name)


def _nonneg(n):
    if n < 0:
        raise ValidationError("negative")
'''


def _inner_name(t: TS, f: FS) -> str:
    return f"{t.name}_{f.name}_I"


def _field_line(t: TS, f: FS) -> str:
    md = []
    if f.alias and f.kind != "flat":
        md.append(f"alias({f.alias!r})")
    if f.kind == "fv":
        md.append("field_validators(_nonneg)")
    if f.kind == "fb":
        md.append("fall_back_on_default")
    if f.kind == "initvar":
        md.append("init_var(int)")
    if f.kind == "flat":
        md.append("flatten")
    args = []
    if not f.required:
        args.append(f"default={f.default!r}")
    if md:
        args.append("metadata=" + " | ".join(md))
    tp = {"initvar": "InitVar[int]", "flat": _inner_name(t, f), "nt": f"{t.name}_{f.name}_NT", "ann": "Annotated[int, field_validators(_nonneg)]"}.get(f.kind, "int")
    if f.name == t.tvar_field():
        tp = "_T"
    return f"    {f.name}: {tp} = field({', '.join(args)})"


def _helpers(f: FS, styles: set) -> List[str]:
    out = []
    if styles & {"helper", "helper2"}:
        out += [f"    def _h_{f.name}(self):", f"        return self.{f.name}", ""]
    if "helper2" in styles:
        out += [f"    def _hh_{f.name}(self):", f"        return self._h_{f.name}()", ""]
    if "prop" in styles:
        out += ["    @property", f"    def p_{f.name}(self):", f"        return self.{f.name}", ""]
    if "cyc" in styles:
        # two mutually recursive helpers (the dependency search must not loop)
        out += [f"    def _c_{f.name}(self, n=0):", f"        return self.{f.name} if n else self._d_{f.name}()", ""]
        out += [f"    def _d_{f.name}(self):", f"        return self._c_{f.name}(1)", ""]
    return out


def _read(s: str, f: FS, access: str) -> str:
    if access == "param":
        return f.name
    return {"direct": f"{s}.{f.name}", "helper": f"{s}._h_{f.name}()", "helper2": f"{s}._hh_{f.name}()", "prop": f"{s}.p_{f.name}", "cyc": f"{s}._c_{f.name}()"}[access]


def _ref(t: TS, v: VS, name: str) -> str:
    """how the validator declaration designates a field"""
    f = t.f(name)
    def_cls = t.name + "_B" if (t.inherit and f.in_base) else t.name
    in_body_of = {"base": t.name + "_B", "own": t.name, "func": None}[v.where] if t.inherit else (None if v.where == "func" else t.name)
    if v.field_ref == "obj" and in_body_of == def_cls:
        return name
    defined_yet = not (t.inherit and v.where == "base" and not f.in_base)
    if v.field_ref != "str" and in_body_of != def_cls and defined_yet:
        return f"get_field({def_cls}).{name}"
    return repr(name)


def _fail_stmts(v: VS, s: str) -> List[str]:
    n, tgt = v.name, v.target
    ga = f"get_alias({s}).{tgt}"
    return {
        "raise": [f'raise ValidationError("{n}!")'],
        "raise_children": [f'raise ValidationError(["{n}!"], {{AliasedStr("some_key"): ValidationError(["{n}@"])}})'],
        "yield": [f'yield "{n}!"'],
        "yield2": [f'yield "{n}!"', f'yield "{n}!!"'],
        "yield_alias": [f'yield {ga}, "{n}@"'],
        "yield_astr": [f'yield AliasedStr("some_key"), "{n}@"'],
        "yield_raw": [f'yield "some_key", "{n}@"'],
        "yield_index": [f'yield ({ga}, 2), "{n}@2"'],
        "yield_multi": [f'yield "{n}!"', f'yield ({ga}, 0), "{n}@0"', f'yield ({ga}, 1), "{n}@1"', f'yield (), "{n}!!"'],
        "yield_empty": [f'yield (), "{n}!"'],
        "yield_path2": [f'yield ({ga}, AliasedStr("some_key")), "{n}@@"', f'yield ("raw", 1, {ga}), "{n}@@@"'],
    }[v.style]


def validator_errors(t: TS, v: VS, ext: Callable[[str], str], dyn: Callable[[str], str]) -> List[Tuple[tuple, str]]:
    """the (loc, message) pairs a failing validator contributes (statement: raised or yielded with
    paths; a field alias obtained from get_alias / an AliasedStr goes through the aliaser, a raw
    string does not; everything under the field's alias for a field validator)"""
    n = v.name
    a = (ext(v.target),) if v.target else ()
    errs = {
        "raise": [((), f"{n}!")],
        "raise_children": [((), f"{n}!"), ((dyn("some_key"),), f"{n}@")],
        "yield": [((), f"{n}!")],
        "yield2": [((), f"{n}!"), ((), f"{n}!!")],
        "yield_alias": [(a, f"{n}@")],
        "yield_astr": [((dyn("some_key"),), f"{n}@")],
        "yield_raw": [(("some_key",), f"{n}@")],
        "yield_index": [(a + (2,), f"{n}@2")],
        "yield_multi": [((), f"{n}!"), (a + (0,), f"{n}@0"), (a + (1,), f"{n}@1"), ((), f"{n}!!")],
        "yield_empty": [((), f"{n}!")],
        "yield_path2": [(a + (dyn("some_key"),), f"{n}@@"), (("raw", 1) + a, f"{n}@@@")],
    }[v.style]
    if v.field is not None:
        errs = [((ext(v.field),) + loc, msg) for loc, msg in errs]
    return errs


def _validator_src(t: TS, v: VS, method: bool, k: int) -> List[str]:
    s = "self" if method else "x"
    ind = "    " if method else ""
    args = []
    if v.field is not None:
        args.append(_ref(t, v, v.field))
    if v.discard is not None:
        refs = [_ref(t, v, d) for d in v.discard]
        args.append("discard=" + (refs[0] if len(refs) == 1 and k % 2 == 0 else "[" + ", ".join(refs) + "]"))
    typed_param = False
    if not method:
        if k % 2 == 0:
            args.append(f"owner={t.name}")
        else:
            typed_param = True
    deco = "@validator" + (f"({', '.join(args)})" if args else "")
    params = [f.name for f in (t.f(d) for d in v.deps) if f.kind == "initvar"]
    first = f"{s}: {t.name}" if typed_param else s
    lines = [ind + deco, ind + f"def {v.name}({', '.join([first] + params)}):"]
    obs = ", ".join(f'("{d}", {_read(s, t.f(d), a)})' for d, a in zip(v.deps, v.access))
    lines.append(ind + f'    _enter("{v.name}", ({obs}{"," if obs else ""}))')
    if v.const:
        lines.append(ind + f"    _ = {s}.LIMIT")
    lines.append(ind + f'    if CTRL["{v.name}"]:')
    for st in _fail_stmts(v, s):
        lines.append(ind + "        " + st)
    lines.append("")
    return lines


def type_source(t: TS, rt_module: str) -> str:
    out = [
        "from dataclasses import InitVar, dataclass, field",
        "from typing import Generic, List, NewType, Optional, TypeVar",
        "from apischema import ValidationError, alias, validator",
        "from apischema.typing import Annotated",
        "from apischema.metadata import fall_back_on_default, flatten, init_var",
        "from apischema.metadata import validators as field_validators",
        "from apischema.objects import AliasedStr, get_alias, get_field",
        f"from {rt_module} import BUILT, CTRL, LOG, _enter, _nonneg",
        "",
    ]
    out += ['_T = TypeVar("_T")', ""]
    for f in t.fields:
        if f.kind == "nt":
            # a validator registered on the NewType itself (docs: "Validators for every type")
            nt = f"{t.name}_{f.name}_NT"
            out += [f'{nt} = NewType("{nt}", int)', "", "@validator", f"def _check_{nt}(n: {nt}):", "    if n < 0:", '        raise ValidationError("negative")', ""]
    for f in t.fields:
        if f.kind == "flat":
            md = f"metadata=alias({f.alias!r})" if f.alias else ""
            out += [
                "@dataclass",
                f"class {_inner_name(t, f)}:",
                f"    {f.name}_i: int = field({md})",
                "",
                "    @validator",
                "    def inner_check(self):",
                f"        if self.{f.name}_i == -7:",
                f'            raise ValidationError("{f.name} inner!")',
                "",
            ]
    used: Dict[str, set] = {f.name: set() for f in t.fields}
    for v in t.validators:
        for d, a in zip(v.deps, v.access):
            used[d].add(a)

    def class_block(cname: str, bases: str, fields: List[FS], vals: List[Tuple[int, VS]], final: bool) -> List[str]:
        b = ["@dataclass", f"class {cname}{bases}:"]
        for f in fields:
            b.append(_field_line(t, f))
        b += ["    LIMIT = 3", ""]
        for f in fields:
            b += _helpers(f, used[f.name])
        if final and t.count_by == "post_init":
            b += ["    def __post_init__(self, *init_vars):", f'        BUILT.append("{t.name}")', ""]
        for k, v in vals:
            b += _validator_src(t, v, True, k)
        return b

    vs = list(enumerate(t.validators))
    if t.inherit:
        out += class_block(t.name + "_B", "", [f for f in t.fields if f.in_base], [(k, v) for k, v in vs if v.where == "base"], False)
        out += class_block(t.name, f"({t.name}_B, Generic[_T])" if t.generic else f"({t.name}_B)", [f for f in t.fields if not f.in_base], [(k, v) for k, v in vs if v.where == "own"], True)
    else:
        out += class_block(t.name, "(Generic[_T])" if t.generic else "", list(t.fields), [(k, v) for k, v in vs if v.where == "own"], True)
    if t.count_by == "init":
        out += [
            f"_orig_init = {t.name}.__init__",
            "def _counting_init(self, *args, **kwargs):",
            f'    BUILT.append("{t.name}")',
            "    _orig_init(self, *args, **kwargs)",
            f"{t.name}.__init__ = _counting_init",
            "",
        ]
    for k, v in vs:
        if v.where == "func":
            out += _validator_src(t, v, False, k)
    # the ways the object type is reached
    use = t.name + ("[int]" if t.generic else "")
    out += ["@dataclass", f"class {t.name}_W:", f"    wrapped: {use} = field()", "", f"ROUTES = {{'root': {use}, 'field': {t.name}_W, 'list': List[{use}], 'optional': Optional[{use}]}}", ""]
    return "\n".join(out) + "\n"


# ---------------------------------------------------------------------------
# the reference (statement / A.3)

STATUSES = {
    "plain": ("absent", "valid", "badtype"),
    "initvar": ("absent", "valid", "badtype"),
    # rootfail: the nested object is rejected by its own validator with a message at its root (no child path)
    "flat": ("absent", "valid", "badtype", "rootfail"),
    "fv": ("absent", "valid", "badtype", "negative"),
    "nt": ("absent", "valid", "badtype", "negative"),
    "ann": ("absent", "valid", "badtype", "negative"),
    "fb": ("absent", "valid", "badtype"),
}


@dataclass
class Expect:
    run: List[Tuple[str, tuple]]
    errors: List[Tuple[tuple, str]]
    structural: bool
    values: Dict[str, Any]
    why_not: Dict[str, str]  # validator name -> reason it must not run
    invalid_tags: List[str]
    invalid_names: set


def ext_of(t: TS, dyn: Callable[[str], str]) -> Callable[[str], str]:
    def ext(name: str) -> str:
        f = t.f(name)
        if f.kind == "flat":
            return dyn(f.alias or f.name + "_i")
        return dyn(f.alias or f.name)

    return ext


def make_datum(t: TS, status: Dict[str, str], dyn, extra_key: bool) -> dict:
    ext = ext_of(t, dyn)
    d: Dict[str, Any] = {}
    for f in t.fields:
        st = status[f.name]
        if st == "valid":
            d[ext(f.name)] = f.valid
        elif st == "badtype":
            d[ext(f.name)] = "x"
        elif st == "negative":
            d[ext(f.name)] = -5
        elif st == "rootfail":
            d[ext(f.name)] = -7
    if extra_key:
        d["zz"] = 1
    return d


def reference(t: TS, order: List[VS], status: Dict[str, str], fails: Dict[str, bool], dyn, extra_key: bool) -> Expect:
    E = M.messages()
    ext = ext_of(t, dyn)
    provided: Dict[str, Any] = {}
    invalid: set = set()
    errs: List[Tuple[tuple, str]] = []
    for f in t.fields:
        st = status[f.name]
        loc = (ext(f.name),)
        if st == "valid":
            provided[f.name] = (("%s_i" % f.name, f.valid),) if f.kind == "flat" else f.valid
        elif st == "absent":
            if f.required or f.kind == "flat":
                # a flattened object is always deserialized (from the keys it owns): its required
                # property is missing
                invalid.add(f.name)
                errs.append((loc, E.missing_property))
        elif st == "badtype":
            if f.kind == "fb":
                continue  # replaced by the default: neither an error nor provided
            invalid.add(f.name)
            errs.append((loc, M.bad_type_msg("x", int)))
        elif st == "negative":
            invalid.add(f.name)
            errs.append((loc, "negative"))
        elif st == "rootfail":
            # the messages of a flattened object are those of the object holding it
            invalid.add(f.name)
            errs.append(((), f"{f.name} inner!"))
    if extra_key:
        errs.append((("zz",), E.unexpected_property))
    structural = bool(errs)
    values = {f.name: provided.get(f.name, f.default) for f in t.fields if f.name not in invalid}
    run: List[Tuple[str, tuple]] = []
    why: Dict[str, str] = {}
    discarded: set = set()
    for v in order:
        deps = set(v.deps)
        bad = sorted(deps & invalid)
        if bad:
            why[v.name] = "invalid-dep:" + "+".join(t.f(b).tag() for b in bad)
        elif not deps & set(provided):
            why[v.name] = "no-dep-provided" if deps else "no-dependency"
        elif deps & discarded:
            why[v.name] = "discarded-dep"
        else:
            run.append((v.name, tuple((d, values[d]) for d in v.deps)))
            if fails[v.name]:
                errs += validator_errors(t, v, ext, dyn)
                discarded |= set(v.discards())
    return Expect(run, errs, structural, values, why, sorted(t.f(n).tag() for n in invalid), set(invalid))


def mixed_keys(errs: List[Tuple[tuple, str]]) -> bool:
    """some location has both integer and string children"""
    kinds: Dict[tuple, set] = {}
    for loc, _ in errs:
        for i in range(len(loc)):
            kinds.setdefault(loc[:i], set()).add(type(loc[i]))
    return any(len(k) > 1 for k in kinds.values())


def orders(t: TS) -> List[Tuple[str, List[VS]]]:
    """the statement fixes the order within a class (declaration order); across a class and its
    base it only asks for *a* fixed order: both block orders are candidates, one of them must
    explain every case of the type"""
    own = [v for v in t.validators if v.where == "own"] + [v for v in t.validators if v.where == "func"]
    base = [v for v in t.validators if v.where == "base"]
    if not t.inherit or not base or not own:
        return [("decl", base + own)]
    return [("derived-first", own + base), ("base-first", base + own)]


# ---------------------------------------------------------------------------
# type generation

ALIASES = ["A{}", "f{}_alias", "{}$x"]


def _mk_fields(n: int, n_required: int, kinds: List[str], aliased: List[Optional[str]], n_base: int) -> Tuple[FS, ...]:
    out = []
    for i in range(n):
        req = i < n_required
        kind = kinds[i]
        if kind == "fb" and req:
            kind = "plain"
        out.append(FS(f"f{i}", req, aliased[i], kind, i < n_base))
    return tuple(out)


def _mk_validator(t_fields: Tuple[FS, ...], name: str, deps: Tuple[str, ...], where: str, decl: str, style: str, access_pick: Callable[[int], str], field_ref: str, const: bool, inherit: bool) -> VS:
    byname = {f.name: f for f in t_fields}
    access = []
    for j, d in enumerate(deps):
        f = byname[d]
        access.append("param" if f.kind == "initvar" else access_pick(j))
    fld = None
    discard = None
    nonflat = [d for d in deps if byname[d].kind not in ("flat",)]
    others = [f.name for f in t_fields if f.name not in deps]
    if decl == "field" and nonflat:
        fld = nonflat[0]
    elif decl == "field_nodiscard" and nonflat:
        fld, discard = nonflat[0], ()
    elif decl == "discard_dep" and deps:
        discard = (deps[0],)
    elif decl == "discard_all" and deps:
        discard = tuple(deps)
    elif decl == "discard_other" and others:
        discard = (others[0],)
    elif decl == "field_discard_other" and nonflat and others:
        fld, discard = nonflat[0], (others[-1],)
    target = None
    if style in ("yield_alias", "yield_index", "yield_multi", "yield_path2"):
        cands = [f.name for f in t_fields if f.kind != "flat" and (where != "base" or f.in_base or not inherit)]
        if cands:
            target = cands[(len(name) + len(deps) + int(name[1:])) % len(cands)]
        else:
            style = "yield"
    return VS(name, tuple(deps), tuple(access), where, fld, field_ref, discard, style, target, const)


DECLS = ("plain", "field", "discard_dep", "discard_other", "discard_all", "field_nodiscard", "field_discard_other")
KINDS = ("plain", "plain", "fv", "fb", "initvar", "flat", "plain", "nt", "ann")
ROUTES = ("root", "field", "list", "optional")


def systematic_types(tier: str) -> List[TS]:
    """every dependency structure of 1..2 validators over 1..2 fields x declaration form, with the
    remaining attributes (field flavours, raise/yield style, access path, inheritance) rotated so
    that each value occurs with each structure class"""
    out: List[TS] = []
    c = itertools.count()
    for n in (1, 2):
        names = [f"f{i}" for i in range(n)]
        subsets = [tuple(s) for r in range(1, n + 1) for s in itertools.combinations(names, r)]
        for k in (1, 2):
            for depsets in itertools.product(subsets, repeat=k):
                for decls in itertools.product(DECLS[:4] if tier == "quick" else DECLS, repeat=k):
                    i = next(c)
                    n_req = i % (n + 1)
                    kinds = [KINDS[(i // 3 + j * 2) % len(KINDS)] for j in range(n)]
                    aliased = [ALIASES[(i + j) % len(ALIASES)].format(j) if (i // 2 + j) % 2 == 0 else None for j in range(n)]
                    if n == 2 and i % 7 == 3:
                        # the alias of one field is the name of the other one
                        aliased = ["f1", "f0"] if i % 2 else ["f1", "A1"]
                    inherit = n == 2 and i % 3 == 0
                    n_base = 1 if inherit else 0
                    fields = _mk_fields(n, n_req, kinds, aliased, n_base)
                    vals = []
                    for j in range(k):
                        deps = depsets[j]
                        where = "own"
                        if inherit and all(fields[int(d[1:])].in_base for d in deps) and (i + j) % 2 == 0:
                            where = "base"
                        elif (i + j) % 5 == 4:
                            where = "func"
                        style = STYLES[(i + 3 * j) % len(STYLES)]
                        acc = lambda q, i=i, j=j: ACCESS[(i + j + q) % len(ACCESS)]  # noqa: E731
                        vals.append(_mk_validator(fields, f"v{j}", deps, where, decls[j], style, acc, ("obj", "str", "get_field")[(i + j) % 3], (i + j) % 4 == 1, inherit))
                    # every route by which validators reach the node: generic alias or plain class, at the
                    # root, as a field type, as list items, under Optional
                    out.append(TS(f"S{i}", fields, tuple(vals), inherit, "post_init" if i % 2 == 0 else "init", generic=i % 3 == 1, route=ROUTES[(i // 3) % 4] if i % 2 else "root"))
    return out


def random_types(rng: random.Random, count: int, nmax: int, kmax: int) -> List[TS]:
    out = []
    for i in range(count):
        n = rng.randint(1, nmax)
        k = rng.randint(1, kmax)
        n_req = rng.randint(0, n)
        kinds = [rng.choice(KINDS) for _ in range(n)]
        aliased: List[Optional[str]] = [rng.choice(ALIASES).format(j) if rng.random() < 0.5 else None for j in range(n)]
        if n >= 2 and rng.random() < 0.15:
            a, b = rng.sample(range(n), 2)
            # the alias of one field is the name of another one (which is itself aliased)
            aliased[a] = f"f{b}"
            if aliased[b] is None or rng.random() < 0.5:
                aliased[b] = f"f{a}" if rng.random() < 0.5 else f"B{b}"
        inherit = n >= 2 and rng.random() < 0.35
        n_base = rng.randint(1, n - 1) if inherit else 0
        fields = _mk_fields(n, n_req, kinds, aliased, n_base)
        names = [f.name for f in fields]
        vals = []
        for j in range(k):
            r = rng.random()
            if r < 0.04:
                deps: Tuple[str, ...] = ()
            else:
                size = rng.choice([1, 1, 2, 2, 3, n])
                deps = tuple(sorted(rng.sample(names, min(size, n))))
            where = "own"
            if inherit and deps and all(fields[int(d[1:])].in_base for d in deps) and rng.random() < 0.6:
                where = "base"
            elif rng.random() < 0.15:
                where = "func"
            decl = rng.choice(DECLS + ("plain", "plain"))
            style = rng.choice(STYLES)
            acc = lambda q: rng.choice(ACCESS)  # noqa: E731
            vals.append(_mk_validator(fields, f"v{j}", deps, where, decl, style, acc, rng.choice(("obj", "str", "get_field")), rng.random() < 0.2, inherit))
        out.append(TS(f"R{i}", fields, tuple(vals), inherit, rng.choice(("post_init", "init")), generic=rng.random() < 0.35, route=rng.choice(ROUTES) if rng.random() < 0.5 else "root"))
    return out


# ---------------------------------------------------------------------------
# the driver


def _suffix(s: str) -> str:
    return s + "_d"


def _camel(s: str) -> str:
    head, *rest = s.split("_")
    return head + "".join(w.capitalize() for w in rest)


ALIASERS: Dict[str, Optional[Callable[[str], str]]] = {"none": None, "suffix": _suffix, "camel": _camel}


_KINDS = None


def run(report, tier: str, seed: int, kinds=None, log_name: str = "validators_gating"):
    """kinds: when given, only the failures of these kinds (prefix of the signature) are reported --
    used by the C01 / C02 / C03 checks, whose statements also cover objects with validators
    (acceptance and image, error listing, crash-freedom) but not the gating rules of C10"""
    from apischema import ValidationError
    from apischema.deserialization import deserialization_method

    global _KINDS
    _KINDS = tuple(kinds) if kinds else None

    rng = random.Random(seed)
    nmax, kmax = (3, 4) if tier == "quick" else (4, 4)
    n_random = 450 if tier == "quick" else 1500
    optnames = ["none", "suffix"] if tier == "quick" else ["none", "suffix", "camel"]
    types = systematic_types(tier) + random_types(rng, n_random, nmax, kmax)
    log = report.driver(
        log_name,
        bound=f"{len(types)} generated dataclasses ({len(types) - n_random} systematic: every dependency structure of 1..2 validators over 1..2 fields x declaration form; {n_random} seeded random with 1..{nmax} fields, 1..{kmax} validators) x dynamic aliaser {optnames} x every assignment of each field to absent / valid / ill-typed (/ rejected by its field validator) x every pass/fail outcome of the validators (+ 2 data with an unexpected key per type)",
    )
    log.rule(
        "case = (generated type, aliaser, field statuses, validator outcomes); the validators log their invocation and the dependency values they read; compared with the statement: invoked iff all dependencies valid, none discarded by an earlier failing validator, one provided; declaration order within a class, one fixed block order across base / derived; errors = structural + those of failing validators (under the field alias for field validators); constructed iff no error; non-trivial when at least one validator exists and a field is present (always)"
    )
    tmp = tempfile.mkdtemp(prefix="c10types_")
    tag = f"c10rt_{os.getpid()}_{seed}"
    sys.path.insert(0, tmp)
    loaded: List[str] = []
    try:
        with open(os.path.join(tmp, tag + ".py"), "w") as fh:
            fh.write(RT_SOURCE)
        rt = importlib.import_module(tag)
        loaded.append(tag)
        for t in types:
            modname = f"{tag}_{t.name}"
            with open(os.path.join(tmp, modname + ".py"), "w") as fh:
                fh.write(type_source(t, tag))
            importlib.invalidate_caches()
            try:
                mod = importlib.import_module(modname)
                loaded.append(modname)
            except BaseException as e:  # noqa: BLE001
                log.case((t.sig(), "define"), True)
                log.fail(f"define:{type(e).__name__}:{t.sig()}", f"defining {t.sig()} raised {e!r}", {"type": t.sig(), "source": type_source(t, tag)}, observed=repr(e), functions_involved=["Validator", "find_all_dependencies"])
                continue
            cls = getattr(mod, t.name)
            for optname in optnames:
                _run_type(log, rt, t, cls, optname, rng, deserialization_method, ValidationError, tag)
    finally:
        for m in loaded:
            sys.modules.pop(m, None)
        try:
            sys.path.remove(tmp)
        except ValueError:
            pass
        shutil.rmtree(tmp, ignore_errors=True)
    return log


INVOLVED = ["ObjectMethod", "validate", "Validator", "ValidatorMock", "find_all_dependencies", "build_validation_error", "apply_aliaser", "merge_errors"]


def _run_type(log, rt, t: TS, cls, optname: str, rng: random.Random, deserialization_method, ValidationError, tag: str, only=None):
    aliaser = ALIASERS[optname]
    dyn = aliaser or (lambda s: s)
    try:
        tp = sys.modules[cls.__module__].ROUTES[t.route]
        meth = deserialization_method(tp, aliaser=aliaser) if aliaser else deserialization_method(tp)
    except BaseException as e:  # noqa: BLE001
        log.case((t.sig(), optname, "compile"), True)
        log.fail(f"compile:{type(e).__name__}:{t.sig()}:{optname}", f"deserialization_method({t.sig()}, aliaser={optname}) raised {e!r}", {"type": t.sig(), "options": optname, "source": type_source(t, tag)}, observed=repr(e), functions_involved=INVOLVED)
        return
    cand = orders(t)
    failures: Dict[str, List[tuple]] = {name: [] for name, _ in cand}
    names = [f.name for f in t.fields]
    status_space = list(itertools.product(*[STATUSES[f.kind] for f in t.fields]))
    outcome_space = list(itertools.product((False, True), repeat=len(t.validators)))
    cases = [(st, oc, False) for st in status_space for oc in outcome_space]
    for _ in range(2):
        cases.append((rng.choice(status_space), rng.choice((outcome_space[0], outcome_space[-1])), True))
    if only is not None:
        cases = [only]
    sample_given = False
    for st, oc, extra in cases:
        status = dict(zip(names, st))
        fails = {v.name: o for v, o in zip(t.validators, oc)}
        datum = make_datum(t, status, dyn, extra)
        rt.LOG.clear()
        rt.BUILT.clear()
        rt.CTRL.clear()
        rt.CTRL.update(fails)
        key = (t.sig(), optname, repr(datum), oc)
        log.case(key, True, sample=None if sample_given else {"type": t.sig(), "aliaser": optname, "datum": datum, "failing_validators": [k for k, v in fails.items() if v]})
        sample_given = True
        try:
            sent: Any = dict(datum)
            if t.route == "field":
                sent = {dyn("wrapped"): sent}
            elif t.route == "list":
                sent = [sent]
            res = meth(sent)
            if t.route == "field":
                res = res.wrapped
            elif t.route == "list":
                res = res[0] if isinstance(res, list) and len(res) == 1 else res
            got: Tuple[str, Any] = ("ok", res)
        except ValidationError as e:
            try:
                got = ("err", [(tuple(x["loc"]), x["err"]) for x in e.errors])
            except Exception as e2:  # noqa: BLE001
                got = ("crash", f"errors not computable: {type(e2).__name__}")
        except RecursionError:
            got = ("crash", "RecursionError")
        except rt.Runaway:
            got = ("crash", "Runaway")
        except BaseException as e:  # noqa: BLE001
            got = ("crash", type(e).__name__)
            attr = getattr(e, "attr", None)
            if type(e).__name__ == "NonTrivialDependency" and attr in names:
                got = ("crash", f"NonTrivialDependency({t.f(attr).tag()})")
        calls = list(rt.LOG)
        built = list(rt.BUILT)
        for oname, order in cand:
            failures[oname] += _judge(t, order, status, fails, dyn, extra, got, calls, built, optname, datum)
    best = min(failures, key=lambda k: len(failures[k]))
    if len(cand) > 1 and len({len(v) for v in failures.values()}) > 1:
        conv = log.stats.setdefault("block_order_explaining_all_cases", {})
        conv[best] = conv.get(best, 0) + 1
    per_kind: Dict[str, int] = {}
    for sig, summary, case, obs, exp in failures[best]:
        # at most 3 failing cases per (type, aliaser, kind of failure): more add no information
        kind = sig.split(":")[0]
        if _KINDS is not None and kind not in _KINDS:
            continue
        per_kind[kind] = per_kind.get(kind, 0) + 1
        if per_kind[kind] > 3:
            continue
        case = dict(case, order_convention=best, spec=repr(t), source=type_source(t, tag))
        log.fail(sig, summary, case, observed=obs, expected=exp, functions_involved=INVOLVED)


def _judge(t: TS, order, status, fails, dyn, extra, got, calls, built, optname, datum) -> List[tuple]:
    exp = reference(t, order, status, fails, dyn, extra)
    # the errors of the object are located under the place where it stands
    prefix = {"root": (), "optional": (), "field": (dyn("wrapped"),), "list": (0,)}[t.route]
    exp.errors = [(prefix + loc, msg) for loc, msg in exp.errors]
    if t.route == "optional" and exp.errors:
        exp.errors.append(((), M.bad_type_msg({}, type(None))))  # neither the object nor null
    out: List[tuple] = []
    failing = [k for k, v in fails.items() if v]
    case = {"type": t.sig(), "aliaser": optname, "datum": datum, "field_status": status, "failing_validators": failing, "extra_key": extra}
    tail = f"{t.sig()}:{optname}:{datum!r}:fail={'+'.join(failing) or '-'}"
    where = f"deserialize({t.sig()}, {datum!r}, aliaser={optname}) with failing validators {failing}"

    def add(kind, summary, obs, ex):
        out.append((f"{kind}:{tail}", f"{kind}: {where}: {summary}", case, obs, ex))

    if got[0] == "crash":
        ext = ext_of(t, dyn)
        potential = list(exp.errors)
        for v in t.validators:
            if fails[v.name]:
                potential += validator_errors(t, v, ext, dyn)
        if got[1].startswith("errors not computable") and mixed_keys(potential):
            # the generated validators yield an index and a name under the same location: the
            # listing of such an error is undefined (keys not comparable), nothing to compare
            return out
        kind = "non-termination" if got[1] in ("RecursionError", "Runaway") else "crash"
        # diagnosis used in the signature: an InitVar field whose Python name is / is not among the
        # keys of the structural errors although the field itself is not / is invalid
        error_keys = {ext(n) for n in exp.invalid_names}
        confused = [f.name for f in t.fields if f.kind == "initvar" and ((f.name in error_keys) != (f.name in exp.invalid_names))]
        cause = "initvar-name-alias-confusion" if confused else "-"
        add(f"{kind}:{got[1]}:{cause}", f"{got[1]} escaped instead of one merged ValidationError (invalid fields: {exp.invalid_tags})", repr(got), repr(("err", sorted(exp.errors, key=repr)) if exp.errors else "ok"))
        return out
    got_names = [c[0] for c in calls]
    exp_names = [c[0] for c in exp.run]
    if got_names != exp_names:
        extra_run = [n for n in got_names if n not in exp_names]
        missing = [n for n in exp_names if n not in got_names]
        if len(set(got_names)) != len(got_names):
            add("duplicate-run", f"validators invoked {got_names}, each runnable validator must run once: {exp_names}", got_names, exp_names)
        elif extra_run:
            n = extra_run[0]
            add(f"unexpected-run:{exp.why_not.get(n, 'x')}", f"validator {n} was invoked although {exp.why_not.get(n)} (invoked {got_names}, expected {exp_names})", got_names, exp_names)
        elif missing:
            add("missing-run", f"validator {missing[0]} was not invoked although all its dependencies are valid, not discarded and one is provided (invoked {got_names}, expected {exp_names})", got_names, exp_names)
        else:
            add("order", f"validators invoked in order {got_names}, expected {exp_names}", got_names, exp_names)
        return out
    if calls != exp.run:
        add("observed-values", f"validators read {calls}, the deserialized / default values are {exp.run}", repr(calls), repr(exp.run))
        return out
    want = "err" if exp.errors else "ok"
    if got[0] != want:
        add("accept-mismatch", f"{'returned a value' if got[0] == 'ok' else 'raised ' + repr(got[1])} but expected {'errors ' + repr(sorted(exp.errors, key=repr)) if exp.errors else 'success'}", repr(got), repr(exp.errors))
        return out
    if want == "err":
        if sorted(got[1], key=repr) != sorted(exp.errors, key=repr):
            add("errors-mismatch", f"errors {got[1]!r} differ from structural + validator errors {sorted(exp.errors, key=repr)!r}", repr(got[1]), repr(sorted(exp.errors, key=repr)))
        if built:
            if exp.structural:
                add("constructed-on-structural-error", f"the object was constructed {len(built)} time(s) although the data has errors", built, [])
            else:
                add("constructed-despite-validator-error", f"the object was constructed {len(built)} time(s) although a validator reports an error", built, [])
    else:
        if built != [t.name]:
            add("construction-count", f"constructor calls {built}, expected exactly one", built, [t.name])
        obj = got[1]
        vals = {}
        for f in t.fields:
            if f.kind == "initvar":
                continue
            v = getattr(obj, f.name, "<unset>")
            vals[f.name] = tuple(sorted(vars(v).items())) if f.kind == "flat" and v is not None and hasattr(v, "__dict__") else v
        expv = {k: v for k, v in exp.values.items() if t.f(k).kind != "initvar"}
        if type(obj).__name__ != t.name or vals != expv:
            add("image-mismatch", f"constructed {obj!r} with {vals}, expected fields {expv}", repr(vals), repr(expv))
    return out


def replay(rp: dict) -> int:
    """re-run the one case of a replay file (the type is rebuilt from its description)"""
    import json

    from vf.core import Report

    case = rp.get("case", {})
    print(json.dumps({k: rp.get(k) for k in ("property", "signature", "summary")}, indent=1))
    if "spec" not in case:
        print("no generated type in this replay file (definition / compilation failure): see case.source")
        return 1
    t = eval(case["spec"], {"TS": TS, "FS": FS, "VS": VS})  # noqa: S307 -- our own repr
    from apischema import ValidationError
    from apischema.deserialization import deserialization_method

    report = Report(rp.get("property", "C10"), "quick", 0, "exploration")
    log = report.driver("replay", "one case")
    tmp = tempfile.mkdtemp(prefix="c10replay_")
    tag = f"c10rp_{os.getpid()}"
    sys.path.insert(0, tmp)
    try:
        with open(os.path.join(tmp, tag + ".py"), "w") as fh:
            fh.write(RT_SOURCE)
        rt = importlib.import_module(tag)
        with open(os.path.join(tmp, f"{tag}_{t.name}.py"), "w") as fh:
            fh.write(type_source(t, tag))
        importlib.invalidate_caches()
        mod = importlib.import_module(f"{tag}_{t.name}")
        st = tuple(case["field_status"][f.name] for f in t.fields)
        oc = tuple(v.name in case["failing_validators"] for v in t.validators)
        _run_type(log, rt, t, getattr(mod, t.name), case["aliaser"], random.Random(0), deserialization_method, ValidationError, tag, only=(st, oc, bool(case.get("extra_key"))))
        print("validators invoked:", list(rt.LOG), "constructed:", list(rt.BUILT))
    finally:
        sys.modules.pop(tag, None)
        sys.modules.pop(f"{tag}_{t.name}", None)
        sys.path.remove(tmp)
        shutil.rmtree(tmp, ignore_errors=True)
    for v in report.violations:
        print(("KNOWN-FINDING " if v.known else "STILL FAILING ") + v.summary)
    return 1 if any(v.known is None for v in report.violations) else 0
