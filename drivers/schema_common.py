"""Shared pieces of the JSON-schema drivers (C06 / C17 / C18): compact type names for
signatures, the common semantic domain filters of C06, a schema-aware walker (sub-schema
positions only, never instance values or property names), validators per dialect, the
documented OpenAPI 3.0 -> JSON Schema mapping, and `Native` type descriptions (real Python
types with conversions, outside the grammar of drivers/model.py; model.py / pools.py are
wrapped, not edited)."""
from __future__ import annotations

import copy
import random
from dataclasses import dataclass, field
from typing import Any, Callable, Dict, Iterator, List, Optional, Tuple

from . import model as M
from . import pools as P

# ---------------------------------------------------------------------------
# compact, untruncated type names (signatures must show the feature that matters)


def tname(td) -> str:
    seen: set = set()

    def fld(o: M.Obj, f: M.Fld) -> str:
        s = f.name
        if f.alias is not None:
            s += f"@{f.alias}"
        s += ":"
        if f.flatten:
            s += "~"
        if f.pattern is not None:
            s += f"/{f.pattern}/"
        if f.additional:
            s += "+"
        s += rec(f.t)
        if f.cons:
            s += cons(f.cons)
        if not f.required:
            s += "="
        if f.fall_back:
            s += "!fb"
        if f.none_as_undefined:
            s += "!nau"
        if not f.init:
            s += "!noinit"
        if not f.td_required:
            s += "?"
        return s

    def cons(c) -> str:
        return "<" + ",".join(f"{k}={v}" for k, v in c.kw) + ">"

    def rec(t) -> str:
        if isinstance(t, M.Prim):
            return t.name
        if isinstance(t, M.AnyT):
            return "Any"
        if isinstance(t, M.Opt):
            return f"Opt[{rec(t.t)}]"
        if isinstance(t, M.Uni):
            return "Uni[" + "|".join(rec(a) for a in t.alts) + "]"
        if isinstance(t, M.Coll):
            return f"{t.kind}[{rec(t.t)}]"
        if isinstance(t, M.Tup):
            return "Tup[" + ",".join(rec(a) for a in t.elts) + "]"
        if isinstance(t, M.Mapp):
            return f"{t.kind}[{rec(t.k)}->{rec(t.v)}]"
        if isinstance(t, M.Lit):
            return "Lit" + repr(list(t.values))
        if isinstance(t, M.Enm):
            return f"Enum<{t.name}>" + repr([v for _, v in t.members])
        if isinstance(t, M.Ann):
            return rec(t.t) + cons(t.cons)
        if isinstance(t, M.NewT):
            return f"New<{t.name}>({rec(t.t)}{cons(t.cons) if t.cons else ''})"
        if isinstance(t, M.Ref):
            return f"&{t.name}"
        if isinstance(t, M.Disc):
            m = "" if t.mapping is None else repr(dict(t.mapping))
            return f"Disc<{t.alias}{m}>[" + "|".join(rec(a) for a in t.alts) + "]"
        if isinstance(t, M.Obj):
            if t.name in seen:
                return f"&{t.name}"
            seen.add(t.name)
            extra = ""
            if t.dep_required:
                extra += "!dep" + repr({k: list(v) for k, v in t.dep_required})
            if t.class_aliaser:
                extra += f"!alias={t.class_aliaser}"
            if t.cons:
                extra += cons(t.cons)
            k = {"dataclass": "", "namedtuple": "nt ", "typeddict": "td "}[t.kind]
            return k + t.name + "{" + ",".join(fld(t, f) for f in t.fields) + "}" + extra
        if isinstance(t, Native):
            return f"Native<{t.name}>"
        return repr(t)

    s = rec(td)
    return s if len(s) <= 400 else s[:397] + "..."


# ---------------------------------------------------------------------------
# Native descriptions: real types that the description grammar cannot express


@dataclass(frozen=True)
class Native(M.TD):
    """a real Python type built by `build(realm) -> (type, opts)`; `opts` are extra keyword
    arguments common to deserialize and deserialization_schema (conversion, default_conversion).
    `samples`: conforming data; `others`: further data of interest; `only_strings`: when not None,
    the strings of the common semantic domain (types whose schema carries `format` /
    `contentEncoding`, which are annotations: other strings are outside the domain)."""

    name: str
    build: Callable = field(compare=False, hash=False, repr=False)
    samples: Tuple[Any, ...] = field(default=(), compare=False, hash=False)
    others: Tuple[Any, ...] = field(default=(), compare=False, hash=False)
    only_strings: Optional[Tuple[str, ...]] = field(default=None, compare=False, hash=False)
    has_obj: bool = field(default=False, compare=False, hash=False)
    set_positions: bool = field(default=False, compare=False, hash=False)


def strings_in(d) -> Iterator[str]:
    if isinstance(d, str):
        yield d
    elif isinstance(d, list):
        for x in d:
            yield from strings_in(x)
    elif isinstance(d, dict):
        for k, x in d.items():
            yield k
            yield from strings_in(x)


def native_pool(td: Native, tier: str, rng: random.Random) -> List[Any]:
    seen, out = set(), []

    def add(x):
        k = repr(x) + str(P._typesig(x))
        if k not in seen:
            seen.add(k)
            out.append(x)

    for s in td.samples:
        add(copy.deepcopy(s))
    for s in td.samples[: (4 if tier == "quick" else 8)]:
        for m in P.mutants(copy.deepcopy(s), 30 if tier == "quick" else 80):
            add(m)
    for s in td.others:
        add(copy.deepcopy(s))
    for a in P.ATOMS:
        add(copy.deepcopy(a))
    for _ in range(6 if tier == "quick" else 40):
        add(P.random_value(rng))
    if td.only_strings is not None:
        out = [d for d in out if all(s in td.only_strings for s in strings_in(d))]
    return out


def dup_variants(d, limit: int = 24) -> List[Any]:
    """data whose arrays hold DUPLICATE items, so that the length of the array and the number of
    distinct items fall on different sides of an items-count bound: every array of d (at any
    depth) replaced by n copies of its first item (n = 1..4), and extended by 1 / 2 copies of it"""
    out: List[Any] = []

    def rec(x, rebuild):
        if len(out) >= limit:
            return
        if isinstance(x, list):
            if x:
                for n in (1, 2, 3, 4):
                    out.append(rebuild([copy.deepcopy(x[0]) for _ in range(n)]))
                out.append(rebuild(x + [copy.deepcopy(x[0])]))
                out.append(rebuild(x + [copy.deepcopy(x[0]), copy.deepcopy(x[0])]))
            for i in range(min(len(x), 2)):
                rec(x[i], lambda v, i=i: rebuild(x[:i] + [v] + x[i + 1 :]))
        elif isinstance(x, dict):
            for k in list(x):
                rec(x[k], lambda v, k=k: rebuild({**x, k: v}))

    rec(d, lambda v: v)
    return out[:limit]


SET_KINDS = ("set", "abstractset", "frozenset")


def set_dup_data(td, aliaser=None, limit: int = 40) -> List[Any]:
    """conforming data of a description in which the array at each SET-TYPED POSITION (at any depth:
    fields, items, mapping values, tuple elements, Optional / union alternatives) is replaced by
    arrays with duplicates: n copies of one conforming item (n = 1..4) and mixtures [a,b,a], [a,b,b,a]"""
    opts = M.Opts(aliaser=aliaser)

    def rec(t, depth=0) -> List[Any]:
        if depth > 4:
            return []
        if isinstance(t, (M.Ann, M.NewT, M.Opt)):
            return rec(t.t, depth)
        if isinstance(t, M.Uni):
            return [x for a in t.alts for x in rec(a, depth)]
        if isinstance(t, M.Coll):
            out = [[x] for x in rec(t.t, depth + 1)]
            if t.kind in SET_KINDS:
                es = P.valid_samples(t.t)[:2]
                if es:
                    a, b = es[0], es[-1]
                    out += [[copy.deepcopy(a) for _ in range(n)] for n in (1, 2, 3, 4)]
                    out += [[a, b, a], [a, b, b, a]]
            return out
        if isinstance(t, M.Tup):
            base = [P.valid_samples(e)[0] for e in t.elts]
            return [base[:i] + [x] + base[i + 1 :] for i, e in enumerate(t.elts) for x in rec(e, depth + 1)]
        if isinstance(t, M.Mapp):
            return [{"k": x} for x in rec(t.v, depth + 1)]
        if isinstance(t, M.Obj):
            base = P.valid_samples(t)[0]
            # the other set-typed fields hold two distinct items (inside the usual items-count bounds), so
            # that the verdict depends on the field under variation
            for g in t.fields:
                u = g.t
                while isinstance(u, (M.Ann, M.NewT, M.Opt)):
                    u = u.t
                if isinstance(u, M.Coll) and u.kind in SET_KINDS and M.ext_name(t, g, opts) in base:
                    base[M.ext_name(t, g, opts)] = P.valid_samples(u.t)[:2]
            out = []
            for f in t.fields:
                if f.flatten or f.pattern is not None or f.additional or not f.init:
                    continue
                for x in rec(f.t, depth + 1):
                    out.append({**copy.deepcopy(base), M.ext_name(t, f, opts): x})
            return out
        return []

    if isinstance(td, Native):
        return []
    return rec(td)[:limit]


def data_pool(td, tier: str, rng: random.Random, dups: bool = False, aliaser=None) -> List[Any]:
    """`dups`: add the duplicate-carrying variants of the conforming samples (types with a set position)"""
    base = native_pool(td, tier, rng) if isinstance(td, Native) else P.data_pool(td, tier, rng)
    if not dups:
        return base
    samples = list(td.samples) if isinstance(td, Native) else P.valid_samples(td)
    seen = {repr(x) + str(P._typesig(x)) for x in base}
    extra = [v for smp in samples[: (6 if tier == "quick" else 12)] for v in dup_variants(copy.deepcopy(smp))] + set_dup_data(td, aliaser)
    for v in extra:
        k = repr(v) + str(P._typesig(v))
        if k not in seen:
            seen.add(k)
            base.append(v)
    return base


# ---------------------------------------------------------------------------
# the common semantic domain of C06


def has_intfloat(d) -> bool:
    """an integer-valued float somewhere (1.0 is an integer for JSON Schema, a float for Python)"""
    if isinstance(d, float):
        return d == d and d not in (float("inf"), float("-inf")) and d == int(d)
    if isinstance(d, list):
        return any(has_intfloat(x) for x in d)
    if isinstance(d, dict):
        return any(has_intfloat(x) for x in d.values())
    return False


def _canon(d):
    if isinstance(d, bool) or d is None:
        return ("b", d)
    if isinstance(d, (int, float)):
        return ("n", float(d)) if not isinstance(d, int) or abs(d) < 2**53 else ("n", d)
    if isinstance(d, str):
        return ("s", d)
    if isinstance(d, list):
        return ("l", tuple(_canon(x) for x in d))
    if isinstance(d, dict):
        return ("d", tuple(sorted((k, _canon(v)) for k, v in d.items())))
    return ("?", repr(d))


def has_dup_array(d) -> bool:
    """an array with two equal items (JSON equality) somewhere"""
    if isinstance(d, list):
        cs = [_canon(x) for x in d]
        return len(set(cs)) != len(cs) or any(has_dup_array(x) for x in d)
    if isinstance(d, dict):
        return any(has_dup_array(x) for x in d.values())
    return False


def has_bigint(d) -> bool:
    if isinstance(d, int) and not isinstance(d, bool):
        return abs(d) > 2**53
    if isinstance(d, list):
        return any(has_bigint(x) for x in d)
    if isinstance(d, dict):
        return any(has_bigint(x) for x in d.values())
    return False


def children(td) -> List[Any]:
    if isinstance(td, (M.Opt, M.Coll, M.Ann, M.NewT)):
        return [td.t]
    if isinstance(td, M.Uni):
        return list(td.alts)
    if isinstance(td, M.Tup):
        return list(td.elts)
    if isinstance(td, M.Mapp):
        return [td.k, td.v]
    if isinstance(td, M.Obj):
        return [f.t for f in td.fields]
    if isinstance(td, M.Disc):
        return list(td.alts)
    return []


def any_node(td, pred, descs: Optional[Dict[str, M.Obj]] = None, _seen=None) -> bool:
    _seen = _seen if _seen is not None else set()
    if isinstance(td, M.Ref):
        if descs and td.name in descs and td.name not in _seen:
            _seen.add(td.name)
            return any_node(descs[td.name], pred, descs, _seen)
        return False
    if isinstance(td, M.Obj):
        if td.name in _seen:
            return False
        _seen.add(td.name)
    if pred(td):
        return True
    return any(any_node(c, pred, descs, _seen) for c in children(td))


def has_set_position(td) -> bool:
    if isinstance(td, Native):
        return td.set_positions
    return any_node(td, lambda t: isinstance(t, M.Coll) and t.kind in SET_KINDS)


def has_explicit_unique(td) -> bool:
    """a `unique` constraint written somewhere (Annotated, NewType, field or class schema)"""

    def own(c) -> bool:
        return bool(c) and bool(c.get("unique"))

    def pred(t) -> bool:
        if isinstance(t, (M.Ann, M.NewT)) and own(t.cons):
            return True
        if isinstance(t, M.Obj):
            return own(t.cons) or any(own(f.cons) for f in t.fields)
        return False

    return False if isinstance(td, Native) else any_node(td, pred)


def strip_unique(schema):
    """the schema without `uniqueItems` (common domain: uniqueness is not compared at set positions)"""
    return map_schema(schema, lambda s: {k: v for k, v in s.items() if k != "uniqueItems"})


def has_obj(td) -> bool:
    if isinstance(td, Native):
        return td.has_obj
    return any_node(td, lambda t: isinstance(t, (M.Obj, M.Ref, M.Disc)) or (isinstance(t, Native) and t.has_obj))


def has_named(td) -> bool:
    return any_node(td, lambda t: isinstance(t, (M.Obj, M.Ref, M.Disc, M.Enm, M.NewT, Native)))


# ---------------------------------------------------------------------------
# realm with every class of the pools


def make_realm(tag: str) -> M.Realm:
    realm = M.Realm(tag)
    M.install_typing(realm)
    for o in P.OBJECTS + [P.PQ_Q, P.A2, P.CAT, P.DOG, P.BIRD, P.FISH]:
        M.realize(o, realm)
    return realm


def realize(td, realm: M.Realm) -> Tuple[Any, dict]:
    """(type, extra options)"""
    if isinstance(td, Native):
        return td.build(realm)
    return M.realize(td, realm), {}


# ---------------------------------------------------------------------------
# schema-aware walking

# keyword -> kind of sub-schema position
SUB_ONE = ("additionalProperties", "items", "additionalItems", "unevaluatedProperties", "unevaluatedItems", "not", "if", "then", "else", "contains", "propertyNames")
SUB_LIST = ("allOf", "anyOf", "oneOf", "prefixItems")
SUB_MAP = ("properties", "patternProperties", "$defs", "definitions", "dependentSchemas")


def walk_schema(schema, fn: Callable[[dict, Tuple[Any, ...]], None], path: Tuple[Any, ...] = ()):
    """call fn(subschema, path) on every sub-schema (dict) in schema position"""
    if not isinstance(schema, dict):
        return
    fn(schema, path)
    for k in SUB_ONE:
        v = schema.get(k)
        if isinstance(v, dict):
            walk_schema(v, fn, path + (k,))
        elif isinstance(v, list) and k == "items":
            for i, s in enumerate(v):
                walk_schema(s, fn, path + (k, i))
    for k in SUB_LIST:
        v = schema.get(k)
        if isinstance(v, list):
            for i, s in enumerate(v):
                walk_schema(s, fn, path + (k, i))
    for k in SUB_MAP:
        v = schema.get(k)
        if isinstance(v, dict):
            for name, s in v.items():
                walk_schema(s, fn, path + (k, name))
    deps = schema.get("dependencies")
    if isinstance(deps, dict):
        for name, s in deps.items():
            if isinstance(s, dict):
                walk_schema(s, fn, path + ("dependencies", name))


def all_refs_of(schema) -> List[Tuple[str, Tuple[Any, ...]]]:
    out: List[Tuple[str, Tuple[Any, ...]]] = []

    def fn(s, path):
        if "$ref" in s:
            out.append((s["$ref"], path))
        disc = s.get("discriminator")
        if isinstance(disc, dict):
            for k, r in (disc.get("mapping") or {}).items():
                out.append((r, path + ("discriminator", "mapping", k)))

    walk_schema(schema, fn)
    return out


def map_schema(schema, fn: Callable[[dict], dict]):
    """rebuild a schema bottom-up, applying fn to every sub-schema (dict in schema position)"""
    if not isinstance(schema, dict):
        return schema
    res = dict(schema)
    for k in SUB_ONE:
        v = res.get(k)
        if isinstance(v, dict):
            res[k] = map_schema(v, fn)
        elif isinstance(v, list) and k == "items":
            res[k] = [map_schema(s, fn) for s in v]
    for k in SUB_LIST:
        v = res.get(k)
        if isinstance(v, list):
            res[k] = [map_schema(s, fn) for s in v]
    for k in SUB_MAP:
        v = res.get(k)
        if isinstance(v, dict):
            res[k] = {n: map_schema(s, fn) for n, s in v.items()}
    return fn(res)


# ---------------------------------------------------------------------------
# dialects

URI_2020 = "http://json-schema.org/draft/2020-12/schema#"
URI_2019 = "http://json-schema.org/draft/2019-09/schema#"
URI_7 = "http://json-schema.org/draft-07/schema#"


def norm_uri(u: str) -> str:
    return u.replace("https://", "http://").rstrip("#")


def validator_for_uri(uri: str):
    from jsonschema import Draft7Validator, Draft201909Validator, Draft202012Validator

    return {norm_uri(URI_2020): Draft202012Validator, norm_uri(URI_2019): Draft201909Validator, norm_uri(URI_7): Draft7Validator}.get(norm_uri(uri))


def versions() -> Dict[str, Any]:
    from apischema.json_schema import JsonSchemaVersion as V

    return {"2020-12": V.DRAFT_2020_12, "2019-09": V.DRAFT_2019_09, "draft-07": V.DRAFT_7, "oas-3.0": V.OPEN_API_3_0, "oas-3.1": V.OPEN_API_3_1}


# the dialect each version *is* (from the names / documentation of JsonSchemaVersion): the
# validator class implementing its rules, and the location of definitions
DIALECT = {
    "2020-12": {"prefix": "#/$defs/", "defs_key": "$defs", "inline_defs": True},
    "2019-09": {"prefix": "#/$defs/", "defs_key": "$defs", "inline_defs": True},
    "draft-07": {"prefix": "#/definitions/", "defs_key": "definitions", "inline_defs": True},
    "oas-3.0": {"prefix": "#/components/schemas/", "defs_key": None, "inline_defs": False},
    "oas-3.1": {"prefix": "#/components/schemas/", "defs_key": None, "inline_defs": False},
}


def dialect_validator(vname: str):
    from jsonschema import Draft7Validator, Draft201909Validator, Draft202012Validator

    # OpenAPI 3.1 uses the 2020-12 dialect; OpenAPI 3.0 is validated after oas30_to_json_schema with
    # the draft-07 rules (array-form items, boolean-free exclusive bounds as apischema emits them)
    return {"2020-12": Draft202012Validator, "2019-09": Draft201909Validator, "draft-07": Draft7Validator, "oas-3.1": Draft202012Validator, "oas-3.0": Draft7Validator}[vname]


def oas30_to_json_schema(schema):
    """The documented mapping of an OpenAPI 3.0 Schema Object back to JSON Schema (OAS 3.0.3
    section "Schema Object"): `nullable: true` additionally admits null (only when the schema
    has a `type` or is a pure combination -- nullable has no effect on a schema without type, and
    does not add null to an `enum`), `example` is an annotation, everything else keeps its JSON
    Schema meaning; `$ref` siblings are ignored (Reference Object), as in draft-07."""

    def fn(s: dict) -> dict:
        s = dict(s)
        s.pop("example", None)
        nullable = s.pop("nullable", False)
        if nullable is True:
            if "type" in s:
                t = s["type"]
                s["type"] = ([t] if isinstance(t, str) else list(t)) + ["null"]
            elif s:
                s = {"anyOf": [s, {"type": "null"}]}
        return s

    return map_schema(schema, fn)


OAS30_FIELD_TYPES = {
    # OpenAPI 3.0.3 "Schema Object": the fixed fields and their types (exclusiveMinimum / exclusiveMaximum
    # are left out: apischema emits their numeric form, read with its draft-07 meaning -- see C18)
    "bool": ("deprecated", "nullable", "readOnly", "writeOnly", "uniqueItems"),
    "str": ("title", "description", "format", "pattern", "$ref", "type"),
    "count": ("maxLength", "minLength", "maxItems", "minItems", "maxProperties", "minProperties"),
    "number": ("multipleOf", "maximum", "minimum"),
    "list": ("required", "enum", "allOf", "anyOf", "oneOf"),
}


def oas30_field_errors(schema) -> List[Tuple[str, str]]:
    """(keyword, location) of the fixed fields of an OpenAPI 3.0 schema object holding a value of
    the wrong type (there is no JSON meta-schema for 3.0 in jsonschema: this is its type table)"""
    ok = {
        "bool": lambda v: isinstance(v, bool),
        "str": lambda v: isinstance(v, str),
        "count": lambda v: isinstance(v, int) and not isinstance(v, bool) and v >= 0,
        "number": lambda v: isinstance(v, (int, float)) and not isinstance(v, bool),
        "list": lambda v: isinstance(v, (list, tuple)),
    }
    out: List[Tuple[str, str]] = []

    def fn(s, path):
        for kind, keys in OAS30_FIELD_TYPES.items():
            for k in keys:
                if k in s and not ok[kind](s[k]):
                    out.append((k, "/".join(map(str, path))))

    walk_schema(schema, fn)
    return out


def why_invalid(validator, d, limit: int = 200) -> str:
    """stable description of why a validator rejects: failing keyword @ schema location (the
    leaves of anyOf / oneOf failures, so that the cause inside a combination is visible)"""

    def leaves(e):
        if e.context:
            for c in e.context:
                yield from leaves(c)
        else:
            yield e

    items = sorted({f"{l.validator}@{'/'.join(str(p) for p in l.absolute_schema_path)}" for e in validator.iter_errors(d) for l in leaves(e)})
    s = ";".join(items)
    return s if len(s) <= limit else s[: limit - 3] + "..."
