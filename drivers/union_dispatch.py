"""C13 -- union dispatch shortcuts equal try-each-alternative semantics (B: bounded).

Run-time contracts of apischema.deserialize / serialize on union types:

* `unions_deser`     : Union[A1..An] (2..4 alternatives of the alternative pool, Optional, nested,
                       unsupported members, union-level constraints), with and without coercion.
                       Oracle: try every alternative in order (reference semantics of model.py per
                       alternative; under coercion the real per-alternative deserializers).
* `unions_ser`       : serialize(Union[...], v) == serialize(first alternative whose class matches, v)
* `discriminated`    : annotated `discriminator(...)` (default / explicit / partial mappings,
                       literal-typed discriminator fields, override_implicit=False) and inherited
                       `@discriminator` on a base class: deserialization == the mapped alternative
                       tried on the data carrying the discriminator; serialization == alternative's
                       serialization + discriminator key; deserialize(serialize(v)) == v.
* `tagged_unions`    : a TaggedUnion accepts exactly one tag.
* `union_order`      : Union[A, B] and Union[B, A] used in the same process each follow their own order.

The extensions of drivers/model.py needed here (unsupported members, discriminators with
override_implicit=False, inherited discriminators) are *wrapped*, not edited: real types are
registered in the Realm under a name and referred to with `M.Ref(name)`; `RefX` (subclass of
`M.Ref_`) gives them their reference semantics.
"""
from __future__ import annotations

import collections.abc as abc
import copy
import dataclasses
import itertools
import random
import typing
from dataclasses import dataclass
from typing import Any, Dict, List, Optional, Tuple

from . import model as M
from . import pools as P
from .deser_e2e import camel, deep_eq, image_ok, method_classes
from .model import Ann, AnyT, Coll, Disc, Enm, Fld, Lit, Mapp, NewT, Obj, Opt, Prim, Ref, Tup, Uni, cons

INT, FLOAT, STR, BOOL, NONE = P.INT, P.FLOAT, P.STR, P.BOOL, P.NONE


def short(td) -> str:
    """compact, unambiguous name of a description (used in signatures)"""
    if isinstance(td, Prim):
        return td.name
    if isinstance(td, AnyT):
        return "Any"
    if isinstance(td, Opt):
        return f"Opt[{short(td.t)}]"
    if isinstance(td, Uni):
        return "U[" + ",".join(short(a) for a in td.alts) + "]"
    if isinstance(td, Coll):
        return f"{td.kind}[{short(td.t)}]"
    if isinstance(td, Tup):
        return "Tup[" + ",".join(short(a) for a in td.elts) + "]"
    if isinstance(td, Mapp):
        return f"{td.kind}[{short(td.k)},{short(td.v)}]"
    if isinstance(td, Lit):
        return "Lit" + repr(list(td.values))
    if isinstance(td, (Enm, Ref)):
        return td.name
    if isinstance(td, NewT):
        return f"{td.name}=New[{short(td.t)}" + (";" + _kw(td.cons) if td.cons else "") + "]"
    if isinstance(td, Ann):
        return f"Ann[{short(td.t)};{_kw(td.cons)}]"
    if isinstance(td, Obj):
        return td.name
    if isinstance(td, Disc):
        return "Disc[" + ",".join(a.name for a in td.alts) + ";" + td.alias + (";" + ",".join(f"{k}>{n}" for k, n in td.mapping) if td.mapping else "") + "]"
    return getattr(td, "name", repr(td))


def _kw(c) -> str:
    return ",".join(f"{k}={v}" for k, v in c.kw)

# ---------------------------------------------------------------------------------------------
# extensions of the description language (wrapped: see module docstring)


@dataclass(frozen=True)
class Unsup:
    """a class apischema does not support (no fields, no conversion): conforms to nothing"""

    name: str


@dataclass(frozen=True)
class DiscX:
    """Annotated[Union[alts], discriminator(alias, mapping, override_implicit=...)]"""

    name: str
    alts: Tuple[Obj, ...]
    alias: str
    mapping: Optional[Tuple[Tuple[str, str], ...]] = None
    override_implicit: bool = True


@dataclass(frozen=True)
class InhBase:
    """a base class decorated with @discriminator(alias); `subs` are its dataclass subclasses"""

    name: str
    alias: str
    subs: Tuple[Obj, ...]


@dataclass(frozen=True)
class InhUnion:
    """Union[some subclasses of a discriminated base] (the discriminator is inherited)"""

    name: str
    base: InhBase
    subs: Tuple[Obj, ...]


def disc_mapping2(td: Disc) -> Dict[str, Obj]:
    """documented default mapping: the literal values of the alternative's field *carrying the
    discriminator property* when it has one, else the alternative's type name; an explicit
    mapping overrides the implicit keys of the classes it mentions.  The field is identified by
    its external name before the per-call aliaser (field alias, class-level aliaser) -- the
    discriminator alias goes through the per-call aliaser like every property name."""
    default: Dict[str, Obj] = {}
    for a in td.alts:
        keys = None
        for f in a.fields:
            if f.flatten or f.pattern is not None or f.additional:
                continue
            if M.ext_name(a, f, M.Opts()) == td.alias:
                t0 = f.t  # (through Annotated and NewType, as drivers/model.py)
                while isinstance(t0, (Ann, NewT)):
                    t0 = t0.t
                if isinstance(t0, Lit):
                    keys = [v for v in t0.values if isinstance(v, str)]
        for k in keys if keys is not None else [a.name]:
            default[k] = a
    if td.mapping is None:
        return default
    by_name = {a.name: a for a in td.alts}
    explicit = {k: by_name[n] for k, n in td.mapping}
    res = dict(explicit)
    for k, a in default.items():
        if a.name not in {x.name for x in explicit.values()}:
            res[k] = a
    return res


def discx_mapping(td, opts=None) -> Dict[str, Obj]:
    """key -> alternative.  Default: the literal values of the alternative's discriminator field
    when it has one, else its type name.  An explicit mapping replaces the implicit keys of the
    classes it mentions (override_implicit=True, the default) or is added to them."""
    alts = td.alts if isinstance(td, (DiscX, Disc)) else td.subs
    default = disc_mapping2(Disc(tuple(alts), td.alias))
    mapping = getattr(td, "mapping", None)
    if mapping is None:
        return default
    by_name = {a.name: a for a in alts}
    explicit = {k: by_name[n] for k, n in mapping}
    if getattr(td, "override_implicit", True):
        res = dict(explicit)
        for k, a in default.items():
            if a.name not in {x.name for x in explicit.values()}:
                res[k] = a
        return res
    return {**default, **explicit}


class World:
    """a Realm plus the extra (wrapped) descriptions registered by name"""

    def __init__(self, tag: str):
        self.realm = M.Realm(tag)
        M.install_typing(self.realm)
        self.extras: Dict[str, Any] = {}

    def dispose(self):
        self.realm.dispose()

    # -- realisation ---------------------------------------------------------------
    def realize(self, td) -> Any:
        from apischema import discriminator
        from apischema.typing import Annotated

        realm = self.realm
        if isinstance(td, Unsup):
            if td.name not in realm.built:
                cls = type(td.name, (), {"__module__": realm.name})
                realm.built[td.name] = cls
                self.extras[td.name] = td
            return realm.built[td.name]
        if isinstance(td, DiscX):
            if td.name not in realm.built:
                alts = tuple(M.realize(a, realm) for a in td.alts)
                kw = {} if td.override_implicit else {"override_implicit": False}
                if td.mapping is None:
                    d = discriminator(td.alias, **kw)
                else:
                    d = discriminator(td.alias, {k: realm.built[n] for k, n in td.mapping}, **kw)
                realm.built[td.name] = Annotated[typing.Union[alts], d]
                self.extras[td.name] = td
            return realm.built[td.name]
        if isinstance(td, InhBase):
            if td.name not in realm.built:
                base = type(td.name, (), {"__module__": realm.name})
                discriminator(td.alias)(base)
                realm.built[td.name] = base
                setattr(realm.module, td.name, base)
                self.extras[td.name] = td
                for s in td.subs:
                    self._realize_sub(s, base)
            return realm.built[td.name]
        if isinstance(td, InhUnion):
            if td.name not in realm.built:
                self.realize(td.base)
                realm.built[td.name] = typing.Union[tuple(realm.built[s.name] for s in td.subs)]
                self.extras[td.name] = td
            return realm.built[td.name]
        self._prepare(td)
        return M.realize(td, realm)

    def _prepare(self, td):
        """build the extras mentioned (as Ref) inside a standard description first"""
        if isinstance(td, Ref) and td.name in ALL_EXTRAS:
            self.realize(ALL_EXTRAS[td.name])
        for f in dataclasses.fields(td) if dataclasses.is_dataclass(td) else ():
            v = getattr(td, f.name)
            if isinstance(v, M.TD):
                self._prepare(v)
            elif isinstance(v, tuple):
                for x in v:
                    if isinstance(x, M.TD):
                        self._prepare(x)
                    elif isinstance(x, Fld):
                        self._prepare(x.t)

    def _realize_sub(self, td: Obj, base):
        from apischema import alias as ap_alias

        realm = self.realm
        specs = []
        import re

        from apischema.metadata import flatten, properties

        for f in td.fields:
            kw: Dict[str, Any] = {}
            mds = []
            if f.alias is not None:
                mds.append(ap_alias(f.alias))
            if f.flatten:
                mds.append(flatten)
            if f.pattern is not None:
                mds.append(properties(pattern=re.compile(f.pattern)))
            if f.additional:
                mds.append(properties)
            if mds:
                md = mds[0]
                for m in mds[1:]:
                    md = md | m
                kw["metadata"] = md
            if f.factory is not None:
                kw["default_factory"] = M.make_default(f, realm)
            elif f.has_default:
                kw["default"] = f.default
            specs.append((f.name, M.realize(f.t, realm), dataclasses.field(**kw)))
        cls = dataclasses.make_dataclass(td.name, specs, bases=(base,))
        cls.__module__ = realm.name
        setattr(realm.module, td.name, cls)
        realm.built[td.name] = cls
        realm.descs[td.name] = td
        return cls


ALL_EXTRAS: Dict[str, Any] = {}


def X(td):
    """register an extra description; returns the Ref standing for it inside standard descriptions"""
    ALL_EXTRAS[td.name] = td
    return Ref(td.name)


class RefX(M.Ref_):
    """reference deserializer knowing the wrapped descriptions"""

    def __init__(self, world: World, opts: M.Opts):
        super().__init__(world.realm, opts)
        self.world = world

    def deser(self, td, d, c=None):
        if isinstance(td, Ref) and td.name in ALL_EXTRAS:
            td = ALL_EXTRAS[td.name]
        if isinstance(td, Unsup):
            raise M.Rejected(M.Err(["unsupported"]))
        if isinstance(td, (Disc, DiscX, InhBase, InhUnion)):
            E = M.messages()
            if type(d) is not dict:
                raise M.Rejected(M.Err([M.bad_type_msg(d, dict)]))
            alias = self.opts.alias(td.alias if not isinstance(td, InhUnion) else td.base.alias)
            if alias not in d:
                raise M.Rejected(M.Err([], {alias: M.Err([E.missing_property])}))
            mapping = mapping_of(td)
            key = d[alias]
            if M._unhashable(key) or type(key) is not str or key not in mapping:
                raise M.Rejected(M.Err([], {alias: M.Err([M._fmt(E.one_of, list(mapping))])}))
            return self.deser_obj(mapping[key], d, c, disc_key=alias)
        return super().deser(td, d, c)


def mapping_of(td) -> Dict[str, Obj]:
    if isinstance(td, Ref) and td.name in ALL_EXTRAS:
        td = ALL_EXTRAS[td.name]
    if isinstance(td, Disc):
        return disc_mapping2(td)
    if isinstance(td, DiscX):
        return discx_mapping(td)
    if isinstance(td, InhBase):
        return disc_mapping2(Disc(td.subs, td.alias))
    if isinstance(td, InhUnion):
        return disc_mapping2(Disc(td.subs, td.base.alias))
    raise TypeError(td)


def disc_alias(td) -> str:
    if isinstance(td, Ref) and td.name in ALL_EXTRAS:
        td = ALL_EXTRAS[td.name]
    return td.base.alias if isinstance(td, InhUnion) else td.alias


def ref_deser(world: World, td, d, opts: M.Opts):
    try:
        return ("ok", RefX(world, opts).deser(td, d))
    except M.Rejected as r:
        return ("err", r.err.flat())


# ---------------------------------------------------------------------------------------------
# pools

UNSUP = Unsup("Opaque1")
UNSUP2 = Unsup("Opaque2")

CAT, DOG, BIRD, FISH = P.CAT, P.DOG, P.BIRD, P.FISH
# object alternatives accepting overlapping data (same required key)
LION = Obj("dataclass", "Lion", (Fld("name", STR), Fld("mane", BOOL, has_default=True, default=True)))
OWL = Obj("dataclass", "Owl", (Fld("pet_kind", Lit(("owl", "barn_owl"))), Fld("name", STR, has_default=True, default="o")))
NEWT = Obj("dataclass", "Newt", (Fld("name", STR), Fld("spots", INT, has_default=True, default=0, alias="nSpots")))
TDA = Obj("typeddict", "TDA", (Fld("kind", Lit(("tda",))), Fld("a", INT)))
TDB = Obj("typeddict", "TDB", (Fld("kind", Lit(("tdb", "tdb2"))), Fld("b", STR, td_required=False)))

# discriminated unions beyond pools.DISCS
DISCS_X = [
    Disc((CAT, DOG, LION), "pet_kind"),  # alias changed by a camel-case aliaser
    Disc((CAT, OWL), "pet_kind"),  # literal-typed discriminator field with two values + implicit name
    Disc((CAT, DOG, LION), "type", mapping=(("c", "Cat"), ("d", "Dog"), ("l", "Lion"))),  # explicit
    Disc((CAT, DOG, BIRD), "type", mapping=(("dog", "Dog"),)),  # partial
    Disc((CAT, NEWT), "type", mapping=(("kitty", "Cat"), ("cat", "Cat"))),  # two keys for one class
    Disc((TDA, TDB), "kind"),  # TypedDict alternatives (need the field)
    Disc((BIRD, OWL), "type"),  # one alternative with the field, one without
]
# alternatives with aggregate fields (flattened / pattern properties / catch-all properties): the
# discriminator property is neither theirs nor unexpected
POS2 = Obj("dataclass", "Pos2", (Fld("x", INT), Fld("y", INT, has_default=True, default=0)))
CIRC = Obj("dataclass", "Circ", (Fld("r", INT), Fld("pos", POS2, flatten=True)))
PATT = Obj("dataclass", "Patt", (Fld("a", INT, has_default=True, default=0), Fld("pp", Mapp(STR, INT), factory="dict", pattern="^x")))
BOTH = Obj("dataclass", "Both", (Fld("h", STR), Fld("inner", P.A2, flatten=True), Fld("pp", Mapp(STR, INT), factory="dict", pattern="^x")))
DEEP = Obj("dataclass", "Deep", (Fld("d", INT), Fld("circ", CIRC, flatten=True)))
# discriminator fields whose Literal type is wrapped (Annotated metadata)
CARD = Obj("dataclass", "Card", (Fld("kind", Ann(Lit(("card", "credit_card")), cons(max_len=20))), Fld("number", STR)))
XFER = Obj("dataclass", "Xfer", (Fld("kind", Ann(Ann(Lit(("transfer",)), cons(min_len=1)), cons(max_len=30)), has_default=True, default="transfer"), Fld("iban", STR, has_default=True, default="i")))
CASH = Obj("dataclass", "Cash", (Fld("amount", INT, has_default=True, default=0),))
WIRE = Obj("dataclass", "Wire", (Fld("kind", NewT("WireKind", Lit(("wire", "swift")))), Fld("bic", STR, has_default=True, default="b")))
DISCS_X += [
    Disc((CIRC, CAT), "type"),
    Disc((CAT, PATT, CIRC), "type"),
    Disc((BOTH, DEEP), "kind", mapping=(("b", "Both"),)),
    Disc((P.E, P.F), "type"),
    Disc((CARD, XFER, CASH), "kind"),
    Disc((CASH, CARD), "kind", mapping=(("money", "Cash"),)),
    Disc((WIRE, CASH), "kind"),
]
# the discriminator property carried by a field whose python name differs from it: field alias,
# class-level aliaser, per-call aliaser (snake_case name under the camel option), all three;
# Literal of one / several values, Enum-typed field
KIT = Obj("dataclass", "Kit", (Fld("kind", Lit(("kit",)), alias="type"), Fld("name", STR, has_default=True, default="k")))
PUP = Obj("dataclass", "Pup", (Fld("sort", Lit(("pup", "puppy")), alias="type"), Fld("age", INT, has_default=True, default=0)))
KUP = Obj("dataclass", "Kup", (Fld("kind", Lit(("kup", "kup2"))), Fld("n", INT, has_default=True, default=0)), class_aliaser="upper")
KLO = Obj("dataclass", "Klo", (Fld("sort", Lit(("klo",)), alias="kind"), Fld("m", INT, has_default=True, default=0)), class_aliaser="upper")
SNA = Obj("dataclass", "Sna", (Fld("the_pet_kind", Lit(("sna", "snake")), alias="pet_kind"), Fld("len_cm", INT, has_default=True, default=1)))
ALL3 = Obj("dataclass", "All3", (Fld("the_sort", Lit(("all3", "a3")), alias="pet_kind"), Fld("some_n", INT, has_default=True, default=0)), class_aliaser="prefix")
ALL3B = Obj("dataclass", "All3b", (Fld("pet_kind", Lit(("b3",))), Fld("q", INT, has_default=True, default=0)), class_aliaser="prefix")
EELKIND = Enm("EelKind", (("A", "Eel"), ("B", "x")))
EEL = Obj("dataclass", "Eel", (Fld("sort", EELKIND, alias="type"), Fld("len", INT, has_default=True, default=0)))
DISCS_X += [
    Disc((KIT, PUP, CAT), "type"),
    Disc((PUP, KIT), "type", mapping=(("doggy", "Pup"),)),
    Disc((KUP, KLO), "KIND"),
    Disc((SNA, CAT, OWL), "pet_kind"),
    Disc((ALL3, ALL3B), "px_pet_kind"),
    Disc((EEL, KIT), "type"),
    Disc((EEL, PUP, CAT), "type", mapping=(("x", "Eel"),)),
]
DISCX1 = X(DiscX("DxKeep", (CAT, DOG), "type", mapping=(("c", "Cat"),), override_implicit=False))
DISCX2 = X(DiscX("DxKeep2", (CAT, DOG, BIRD), "type", mapping=(("bird", "Cat"),), override_implicit=False))

SUB_A = Obj("dataclass", "SubA", (Fld("a", INT),))
SUB_B = Obj("dataclass", "SubB", (Fld("b", STR, has_default=True, default="b"),))
SUB_C = Obj("dataclass", "SubC", (Fld("kind", Lit(("c1", "c2"))), Fld("a", INT, has_default=True, default=0)))
BASE1 = InhBase("Base1", "kind", (SUB_A, SUB_B, SUB_C))
SUB_P = Obj("dataclass", "SubP", (Fld("name", STR),))
SUB_Q = Obj("dataclass", "SubQ", (Fld("name", STR), Fld("q", Opt(INT), has_default=True, default=None)))
BASE2 = InhBase("Base2", "node_type", (SUB_P, SUB_Q))
SUB_F = Obj("dataclass", "SubF", (Fld("r", INT), Fld("pos", POS2, flatten=True)))
SUB_G = Obj("dataclass", "SubG", (Fld("g", INT), Fld("pp", Mapp(STR, INT), factory="dict", pattern="^x")))
SUB_H = Obj("dataclass", "SubH", (Fld("side", INT),))
SUB_K = Obj("dataclass", "SubK", (Fld("type", Ann(Lit(("k1", "k2")), cons(max_len=5))), Fld("n", INT, has_default=True, default=0)))
BASE3 = InhBase("Base3", "type", (SUB_F, SUB_G, SUB_H, SUB_K))
SUB_L = Obj("dataclass", "SubL", (Fld("kind", Lit(("l1", "l2")), alias="node_kind"), Fld("n", INT, has_default=True, default=0)))
SUB_M = Obj("dataclass", "SubM", (Fld("sort", Lit(("m1",)), alias="node_kind"), Fld("m", STR, has_default=True, default="m")))
SUB_N = Obj("dataclass", "SubN", (Fld("x", INT, has_default=True, default=0),))
BASE4 = InhBase("Base4", "node_kind", (SUB_L, SUB_M, SUB_N))
INH = [X(BASE1), X(BASE2), X(InhUnion("Base1_AB", BASE1, (SUB_A, SUB_B))), X(InhUnion("Base1_CA", BASE1, (SUB_C, SUB_A))), X(InhUnion("Base2_QP", BASE2, (SUB_Q, SUB_P))), X(BASE3), X(InhUnion("Base3_FK", BASE3, (SUB_F, SUB_K))), X(BASE4), X(InhUnion("Base4_ML", BASE4, (SUB_M, SUB_L)))]


def alt_pool(tier: str) -> List[Any]:
    alts = [
        INT,
        FLOAT,
        STR,
        BOOL,
        NONE,
        Lit(("a", "b")),
        Lit((1, 2)),
        Lit((1, "a")),
        P.COLOR,
        P.NAME,
        Coll("list", INT),
        Coll("list", STR),
        Tup((INT, STR)),
        Tup((INT,)),
        Coll("tuplevar", INT),
        Coll("set", INT),
        Mapp(STR, INT),
        P.A,
        P.B,
        CAT,
        DOG,
        P.TD1,
        P.NT,
        Ann(INT, cons(min=0)),
        Ann(STR, cons(min_len=2)),
        P.POS,
        Opt(INT),
        AnyT(),
        X(UNSUP),
    ]
    if tier == "thorough":
        alts += [Coll("frozenset", STR), Coll("sequence", FLOAT), Mapp(STR, P.A), P.G, P.TD2, LION, Ann(FLOAT, cons(exc_min=0)), Coll("list", P.A), Tup((FLOAT, FLOAT)), P.USERID, Lit((True,))]
    return alts


def handmade_unions() -> List[Any]:
    """unions the pair / random enumeration would not build: nested (kept nested by Annotated /
    NewType), union-level constraints, Optional in both orders, all-but-one unsupported"""
    return [
        Ann(Uni((INT, STR)), cons(min=3, min_len=2)),
        Ann(Uni((Coll("list", INT), STR)), cons(min_items=1, min_len=2)),
        Ann(Uni((P.A, Mapp(STR, INT))), cons(min_props=2)),
        Ann(Opt(INT), cons(min=0)),
        Ann(Uni((FLOAT, INT, NONE)), cons(max=5)),
        Ann(Uni((Tup((INT, STR)), Coll("list", INT))), cons(max_items=2)),
        Uni((Ann(Uni((INT, STR)), cons(min=0)), FLOAT)),
        Uni((Ann(Uni((INT, STR)), cons(min=0, min_len=1)), Coll("list", Uni((INT, NONE))))),
        Uni((NewT("IntOrStr", Uni((INT, STR))), Coll("list", INT))),
        Uni((NewT("MaybePos", Opt(Ann(INT, cons(min=0)))), STR)),
        Opt(Uni((INT, STR))),
        Uni((NONE, STR)),
        Uni((NONE, INT)),
        Uni((NONE, Coll("list", INT))),
        Uni((NONE, CAT)),
        Uni((INT, NONE, X(UNSUP))),
        Uni((X(UNSUP), INT)),
        Uni((X(UNSUP), INT, STR)),
        Uni((X(UNSUP), CAT, X(UNSUP2))),
        Coll("list", Uni((INT, STR))),
        Coll("list", Uni((CAT, DOG))),
        Mapp(STR, Uni((FLOAT, Coll("list", FLOAT)))),
        Tup((Uni((INT, STR)), Opt(FLOAT))),
        Obj("dataclass", "UF", (Fld("u", Uni((INT, STR)), cons=cons(min=1, min_len=2)), Fld("o", Opt(INT), has_default=True, default=None, cons=cons(max=5)))),
        Obj("dataclass", "UG", (Fld("u", Uni((Coll("list", INT), CAT)), cons=cons(max_items=1, min_props=2)), Fld("v", Uni((BOOL, INT, FLOAT)), has_default=True, default=0))),
        Uni((CAT, DOG, LION)),
        Uni((DOG, LION, CAT)),
        Uni((Coll("list", INT), Coll("tuplevar", INT), Coll("set", INT))),
        Uni((Coll("tuplevar", INT), Tup((INT, INT)))),
        Uni((INT, FLOAT, BOOL)),
        Uni((BOOL, FLOAT, INT)),
        Uni((FLOAT, BOOL)),
        Uni((STR, Lit(("a", "b")), P.NAME)),
        Uni((P.NAME, Lit(("a", "c")), STR)),
        Uni((P.COLOR, Lit((2, 3)), FLOAT)),
    ]


EXTRA_ATOMS = [1.0, 2, 3, "b", "c", [1, "a"], [1, 2], [2.5], ["a", "b"], {"name": "x"}, {"name": "x", "lives": 2}, {"a": 1, "b": "y"}, {"A": 1}, "1", "true", "2.5", "0"]


def samples_of(td) -> List[Any]:
    if isinstance(td, Disc):
        out = []
        alias = P._dyn(td.alias)
        for k, a in disc_mapping2(td).items():
            for s in P._obj_samples(a, 0)[:2]:
                out.append({**s, alias: k})
        return out
    if isinstance(td, Ref) and td.name in ALL_EXTRAS:
        x = ALL_EXTRAS[td.name]
        if isinstance(x, Unsup):
            return []
        out = []
        alias = P._dyn(disc_alias(x))
        for k, a in mapping_of(x).items():
            for s in P._obj_samples(a, 0)[:2]:
                out.append({**s, alias: k})
        return out
    if isinstance(td, Uni):
        return [s for a in td.alts for s in samples_of(a)[:3]]
    if isinstance(td, Opt):
        return [None] + samples_of(td.t)[:3]
    if isinstance(td, (Ann, NewT)):
        inner = samples_of(td.t)
        try:
            extra = P.valid_samples(td) if not _mentions_extra(td) else []
        except Exception:
            extra = []
        return inner + [e for e in extra if e not in inner]
    if isinstance(td, Coll) and _mentions_extra(td):
        xs = samples_of(td.t)
        return [[], xs[:1], xs[:2]]
    return P.valid_samples(td)


def _mentions_extra(td) -> bool:
    if isinstance(td, Ref):
        return td.name in ALL_EXTRAS
    for f in dataclasses.fields(td) if dataclasses.is_dataclass(td) else ():
        v = getattr(td, f.name)
        if isinstance(v, M.TD) and _mentions_extra(v):
            return True
        if isinstance(v, tuple):
            for x in v:
                if isinstance(x, M.TD) and _mentions_extra(x):
                    return True
                if isinstance(x, Fld) and _mentions_extra(x.t):
                    return True
    return False


def union_data(td, tier: str, rng: random.Random) -> List[Any]:
    seen, out = set(), []

    def add(x):
        k = repr(x) + str(P._typesig(x))
        if k not in seen:
            seen.add(k)
            out.append(x)

    smp = samples_of(td)
    for s in smp:
        add(copy.deepcopy(s))
    for s in smp[: (6 if tier == "quick" else 12)]:
        for m in P.mutants(s, 12 if tier == "quick" else 40):
            add(m)
    for a in P.ATOMS + EXTRA_ATOMS:
        add(copy.deepcopy(a))
    for _ in range(4 if tier == "quick" else 25):
        add(P.random_value(rng))
    return out


# ---------------------------------------------------------------------------------------------
# helpers


def outcome(f, *a, **kw):
    from apischema import ValidationError

    try:
        return ("ok", f(*a, **kw))
    except ValidationError as e:
        try:
            return ("err", [(tuple(x["loc"]), x["err"]) for x in e.errors])
        except Exception as e2:
            return ("crash", f"errors not computable: {e2!r}")
    except RecursionError:
        return ("crash", "RecursionError")
    except Exception as e:
        return ("crash", f"{type(e).__name__}: {e}")


def _norm(msg: str) -> str:
    """error text without the (very long) repr of Annotated metadata"""
    import re

    return re.sub(r"Schema\(.*\)\]", "Schema(...)]", str(msg))[:160]


def _alts_of(td) -> Optional[Tuple[Any, ...]]:
    """the ordered alternatives of a union description (through Annotated: the constraints are
    pushed onto every alternative)"""
    if isinstance(td, Uni):
        return td.alts
    if isinstance(td, Opt):
        return (td.t, NONE)
    if isinstance(td, Ann):
        inner = _alts_of(td.t)
        if inner is not None:
            return tuple(Ann(a, td.cons) for a in inner)
    return None


class Ambiguous(Exception):
    pass


def class_matches(td, v, world: World) -> bool:
    """does the class of the value v match the alternative td (statement: 'the first alternative
    whose class matches')"""
    realm = world.realm
    if isinstance(td, Ref) and td.name in ALL_EXTRAS:
        x = ALL_EXTRAS[td.name]
        if isinstance(x, Unsup):
            return isinstance(v, realm.built[x.name])
        return any(class_matches(a, v, world) for a in mapping_of(x).values())
    if isinstance(td, Ref):
        return isinstance(v, realm.built[td.name])
    if isinstance(td, Prim):
        if td.name == "none":
            return v is None
        return isinstance(v, M.PRIM_CLS[td.name])
    if isinstance(td, AnyT):
        return True
    if isinstance(td, (Ann, NewT)):
        return class_matches(td.t, v, world)
    if isinstance(td, Opt):
        return v is None or class_matches(td.t, v, world)
    if isinstance(td, Uni):
        return any(class_matches(a, v, world) for a in td.alts)
    if isinstance(td, Disc):
        return any(class_matches(a, v, world) for a in td.alts)
    if isinstance(td, Coll):
        base = {"list": list, "sequence": abc.Sequence, "collection": abc.Collection, "mutableseq": abc.MutableSequence, "set": set, "abstractset": abc.Set, "frozenset": frozenset, "tuplevar": tuple}[td.kind]
        if isinstance(v, str) and td.kind in ("sequence", "collection"):
            # a str is an instance of the abstract Sequence / Collection classes although it never
            # conforms to them as data: whether its class "matches" is left open
            raise Ambiguous()
        return isinstance(v, base) and not isinstance(v, str)
    if isinstance(td, Tup):
        # a fixed-length tuple type: the class is tuple *of that length* (serializing a longer
        # tuple with it is outside its domain)
        return isinstance(v, tuple) and len(v) == len(td.elts)
    if isinstance(td, Mapp):
        return isinstance(v, abc.Mapping)
    if isinstance(td, Lit):
        return any(type(v) is type(x) for x in td.values)
    if isinstance(td, Enm):
        return isinstance(v, realm.built[td.name])
    if isinstance(td, Obj):
        if td.kind == "typeddict":
            return isinstance(v, abc.Mapping)
        return isinstance(v, realm.built[td.name])
    raise TypeError(td)


def build_objects(world: World):
    for o in P.OBJECTS + [P.PQ_Q, P.A2, CAT, DOG, BIRD, FISH, LION, OWL, NEWT, TDA, TDB, POS2, CIRC, PATT, BOTH, DEEP, CARD, XFER, CASH, WIRE, KIT, PUP, KUP, KLO, SNA, ALL3, ALL3B, EEL]:
        M.realize(o, world.realm)
    for x in list(ALL_EXTRAS.values()):
        world.realize(x)


def involved_of(meth) -> List[str]:
    try:
        return method_classes(getattr(meth, "__self__", None))
    except Exception:
        return []


def ser_classes(tp, **kw) -> List[str]:
    """node classes of the compiled serialization method tree"""
    try:
        from apischema.serialization import serialization_method
        from apischema.serialization.methods import SerializationMethod

        m = getattr(serialization_method(tp, **kw), "__self__", None)
        out, seen = set(), set()

        def rec(x, depth=0):
            if id(x) in seen or depth > 6:
                return
            seen.add(id(x))
            if isinstance(x, SerializationMethod):
                out.add(type(x).__name__)
            if dataclasses.is_dataclass(x) and not isinstance(x, type):
                for f in dataclasses.fields(x):
                    rec(getattr(x, f.name, None), depth + 1)
            elif isinstance(x, (tuple, list)):
                for y in x:
                    rec(y, depth + 1)
            elif isinstance(x, dict):
                for y in x.values():
                    rec(y, depth + 1)

        rec(m)
        return sorted(out)
    except Exception:
        return []


# ---------------------------------------------------------------------------------------------
# driver 1+2: plain unions, deserialization and serialization


def enumerate_unions(tier: str, rng: random.Random) -> List[Any]:
    alts = alt_pool(tier)
    unions: List[Any] = list(handmade_unions())
    # every ordered pair
    for a, b in itertools.permutations(alts, 2):
        if isinstance(a, Opt) and b == NONE or isinstance(b, Opt) and a == NONE:
            continue
        unions.append(Uni((a, b)))
    # Optional of every alternative (the two-alternative special case), both orders
    for a in alts:
        if a != NONE and not isinstance(a, Opt):
            unions.append(Opt(a))
    # 3 and 4 alternatives: seeded random draws, biased towards alternatives sharing a JSON type
    groups = [
        [INT, FLOAT, BOOL, Lit((1, 2)), P.COLOR, Ann(INT, cons(min=0)), P.POS],
        [STR, Lit(("a", "b")), P.NAME, Ann(STR, cons(min_len=2)), Lit((1, "a"))],
        [Coll("list", INT), Coll("list", STR), Tup((INT, STR)), Tup((INT,)), Coll("tuplevar", INT), Coll("set", INT)],
        [Mapp(STR, INT), P.A, P.B, CAT, DOG, P.TD1, P.NT],
    ]
    n = 120 if tier == "quick" else 900
    seen = set()
    while len(seen) < n:
        k = rng.choice((3, 3, 4))
        if rng.random() < 0.5:
            g = rng.choice(groups)
            pick = rng.sample(g, min(k, len(g)))
            if len(pick) < k:
                pick += rng.sample([a for a in alts if a not in pick], k - len(pick))
            rng.shuffle(pick)
        else:
            pick = rng.sample(alts, k)
        u = Uni(tuple(pick))
        if u not in seen:
            seen.add(u)
            unions.append(u)
    return unions


def _flat_members(td) -> List[Any]:
    """members after the flattening typing.Union performs (Optional / nested Union)"""
    if isinstance(td, Uni):
        return [m for a in td.alts for m in _flat_members(a)]
    if isinstance(td, Opt):
        return _flat_members(td.t) + [NONE]
    return [td]


def run_unions(report, tier: str, seed: int):
    import apischema
    from apischema import serialize
    from apischema.deserialization import deserialization_method

    rng = random.Random(seed)
    unions = enumerate_unions(tier, rng)
    dlog = report.driver(
        "unions_deser",
        bound=f"{len(unions)} union types: every ordered pair of {len(alt_pool(tier))} alternatives, Optional of each, {len(handmade_unions())} nested / constrained / unsupported-member unions, seeded draws of 3-4 alternatives; x {{no coercion (oracle: reference semantics per alternative + real per-alternative deserializers), coerce=True (oracle: real per-alternative deserializers)}} x per-union data (valid samples of every alternative, their boundary mutants, {len(P.ATOMS) + len(EXTRA_ATOMS)} atoms, seeded random values)",
    )
    dlog.rule("case = (union description, coercion flag, datum); accepted iff some alternative accepts, value == the first accepting alternative's value and is the typed image of an accepting alternative; non-trivial when at least one alternative accepts or the datum is a container")
    slog = report.driver(
        "unions_ser",
        bound="the values obtained as reference images of the accepted data of `unions_deser` x {check_type False, True}",
    )
    slog.rule("case = (union description, check_type, value); serialize(Union, v) must equal serialize(A, v) for the first alternative A whose class matches v (skipped when that alternative's own serialization raises); distinct by that triple")
    world = World("c13u")
    build_objects(world)
    alt_meth_cache: Dict[Any, Any] = {}

    def alt_method(atd, coerce):
        key = (atd, coerce)
        if key not in alt_meth_cache:
            alt_meth_cache[key] = deserialization_method(world.realize(atd), coerce=coerce)
        return alt_meth_cache[key]

    for td in unions:
        try:
            tp = world.realize(td)
        except Exception as e:
            report.tool_error(f"cannot realise {short(td)}: {e!r}")
            continue
        alts = _alts_of(td)
        flat = _flat_members(td) if alts is not None and not isinstance(td, Ann) else None
        all_unsup = alts is not None and all(isinstance(a, Ref) and isinstance(ALL_EXTRAS.get(a.name), Unsup) for a in alts)
        # the union is compiled in a fresh cache: Union[A, B] == Union[B, A] for the caches
        # (the order sensitivity of a *shared* cache is the subject of `union_order`)
        apischema.cache.reset()
        alt_meth_cache.clear()
        data = union_data(td, tier, rng)
        values: List[Any] = []
        for coerce in (False, True):
            optname = "coerce" if coerce else "default"
            try:
                meth = deserialization_method(tp, coerce=coerce)
            except Exception as e:
                if not all_unsup:
                    dlog.fail(f"compile:{short(td)}:{optname}:{type(e).__name__}", f"deserialization_method({short(td)}, {optname}) raised {e!r}", {"type": short(td), "options": optname}, observed=repr(e), functions_involved=[])
                continue
            involved = None
            for d in data:
                got = outcome(meth, copy.deepcopy(d))
                exp = ref_deser(world, td, copy.deepcopy(d), M.Opts()) if not coerce else ("?", None)
                # relational oracle: the real deserializers of the alternatives, tried in order
                rel = None
                if alts is not None:
                    rel = ("err", None)
                    rel_all = []
                    for a in alts:
                        try:
                            r = outcome(alt_method(a, coerce), copy.deepcopy(d))
                        except Exception:  # unsupported alternative: accepts nothing
                            r = ("err", None)
                        rel_all.append(r)
                        if r[0] == "ok" and rel[0] != "ok":
                            rel = r
                        if r[0] == "crash":
                            rel = None
                            break
                nontrivial = isinstance(d, (list, dict)) or exp[0] == "ok" or (rel is not None and rel[0] == "ok")
                dlog.case((short(td), optname, repr(d)), nontrivial, sample={"type": short(td), "options": optname, "datum": d} if nontrivial else None)

                def fail(kind, summary, expected):
                    nonlocal involved
                    if involved is None:
                        involved = involved_of(meth)
                    dlog.fail(f"{kind}:{short(td)}:{optname}:{d!r}", f"{kind}: deserialize({short(td)}, {d!r}, {optname}): {summary}", {"type": short(td), "options": optname, "datum": repr(d)}, observed=repr(got)[:500], expected=repr(expected)[:500], functions_involved=involved)

                if got[0] == "crash":
                    fail("crash", f"escaped with {got[1]}", exp)
                    continue
                if not coerce:
                    if got[0] != exp[0]:
                        fail("accept-mismatch", f"{'accepted' if got[0] == 'ok' else 'rejected'} but {'some' if exp[0] == 'ok' else 'no'} alternative accepts (reference semantics per alternative)", exp)
                        continue
                    if got[0] == "ok":
                        if not image_ok(td, got[1], exp[1], RefX(world, M.Opts()), d):
                            fail("image-mismatch", f"value {got[1]!r} ({type(got[1]).__name__}) is not the first accepting alternative's {exp[1]!r}", exp)
                        else:
                            values.append(exp[1])
                if rel is not None:
                    if got[0] != rel[0]:
                        fail("alt-accept-mismatch", f"{'accepted' if got[0] == 'ok' else 'rejected'} but trying apischema's own deserializers of the alternatives in order {'accepts' if rel[0] == 'ok' else 'rejects'}", rel)
                    elif got[0] == "ok":
                        same = got[1] == rel[1] or (got[1] != got[1] and rel[1] != rel[1])
                        typed = any(r[0] == "ok" and deep_eq(got[1], r[1]) for r in rel_all)
                        if not (same and typed):
                            fail("alt-image-mismatch", f"value {got[1]!r} differs from the first accepting alternative's own result {rel[1]!r}", rel)
        # serialization of the values of the union
        if alts is None or all_unsup:
            continue
        done = set()
        for v in values:
            k = repr(v) + type(v).__name__
            if k in done:
                continue
            done.add(k)
            try:
                first = next((a for a in alts if class_matches(a, v, world)), None)
            except Ambiguous:
                continue
            if first is None:
                continue
            for check_type in (False, True):
                kw = {"check_type": check_type}
                expv = outcome(serialize, world.realize(first), v, **kw)
                if expv[0] != "ok":
                    continue
                gotv = outcome(serialize, tp, v, **kw)
                slog.case((short(td), check_type, repr(v)), True, sample={"type": short(td), "check_type": check_type, "value": repr(v)})
                if gotv[0] != "ok" or not deep_eq(gotv[1], expv[1]):
                    kind = "ser-mismatch" if gotv[0] == "ok" else "ser-crash"
                    slog.fail(
                        f"{kind}:{short(td)}:check_type={check_type}:{v!r}" + ("" if gotv[0] == "ok" else ":" + _norm(gotv[1])),
                        f"serialize({short(td)}, {v!r}, check_type={check_type}) -> {gotv!r} but the first alternative whose class matches ({short(first)}) serializes it to {expv[1]!r}",
                        {"type": short(td), "check_type": check_type, "value": repr(v)},
                        observed=repr(gotv)[:500],
                        expected=repr(expv)[:500],
                        functions_involved=ser_classes(tp, **kw),
                    )
    apischema.cache.reset()
    world.dispose()


# ---------------------------------------------------------------------------------------------
# driver 3: discriminated unions

DISC_OPTS = {
    "default": {},
    "camel": {"aliaser": camel},
    "additional": {"additional_properties": True},
    "coerce": {"coerce": True},
}


def disc_types(tier: str) -> List[Any]:
    base = list(P.DISCS[:3]) + DISCS_X + [DISCX1, DISCX2] + INH
    wrapped = [Coll("list", P.DISC1), Opt(P.DISC3), Coll("list", INH[0]), Opt(INH[1]), Mapp(STR, DISCS_X[0]), Ann(DISCS_X[0], cons(min_props=2, max_props=3)), Ann(P.DISC2, cons(max_props=2)), Obj("dataclass", "Owner", (Fld("pet", DISCS_X[0], cons=cons(max_props=2)), Fld("pets", Coll("list", P.DISC1), factory="list"))), Tup((DISCS_X[2], INT)), Uni((INT, Coll("list", INH[2])))]
    return base + wrapped


def _is_disc(td) -> bool:
    return isinstance(td, Disc) or (isinstance(td, Ref) and isinstance(ALL_EXTRAS.get(td.name), (DiscX, InhBase, InhUnion)))


def disc_data(td, tier, rng, aliaser) -> List[Any]:
    P.set_sample_aliaser(aliaser)
    try:
        data = union_data(td, tier, rng)
        if _is_disc(td):
            alias = P._dyn(disc_alias(td))
            mp = mapping_of(td)
            keys = list(mp)
            extra = []
            for k, a in mp.items():
                for s in P._obj_samples(a, 0)[:2]:
                    # data carrying a discriminator naming *another* alternative, an unknown key,
                    # a non-string key, no discriminator at all
                    for other in keys + ["nope", 1, None, ["Cat"], a.name, a.name.lower()]:
                        extra.append({**s, alias: other})
                    extra.append({k2: v2 for k2, v2 in s.items() if k2 != alias})
                    extra.append({**s, alias: k, "zzz": 1})
                    extra.append({**s, disc_alias(td): k})  # un-aliased discriminator name
            seen = {repr(x) for x in data}
            for e in extra:
                if repr(e) not in seen:
                    seen.add(repr(e))
                    data.append(e)
        return data
    finally:
        P.set_sample_aliaser(None)


def run_discriminated(report, tier: str, seed: int):
    import apischema
    from apischema import deserialize, serialize
    from apischema.deserialization import deserialization_method

    rng = random.Random(seed + 1)
    types = disc_types(tier)
    optnames = ["default", "camel", "additional", "coerce"]
    log = report.driver(
        "discriminated",
        bound=f"{len(types)} discriminated types (annotated discriminator with default / explicit / partial / two-keys / override_implicit=False mappings, literal-typed discriminator fields with several values, TypedDict alternatives, inherited @discriminator on 2 base classes and unions of their subclasses, inside list / Optional / dict / tuple / field / Annotated constraints) x option sets {optnames} x data (valid samples per mapping key, every other key / unknown / non-string / missing discriminator, mutants, atoms)",
    )
    log.rule("case = (type, options, datum) for deserialization: outcome == the alternative mapped by the discriminator value tried on the datum (reference semantics; coerce: accepted data only, same value); for every accepted value v: serialize(type, v) == serialization by v's class + discriminator key mapped to that class, and deserialize(type, serialize(type, v)) == v; non-trivial when the datum is a dict")
    world = World("c13d")
    build_objects(world)
    apischema.cache.reset()
    for td in types:
        try:
            tp = world.realize(td)
        except Exception as e:
            report.tool_error(f"cannot realise {short(td)}: {e!r}")
            continue
        for optname in optnames:
            o = DISC_OPTS[optname]
            mopts = M.Opts(additional_properties=o.get("additional_properties", False), aliaser=o.get("aliaser"))
            try:
                meth = deserialization_method(tp, **o)
            except Exception as e:
                log.fail(f"compile:{short(td)}:{optname}:{type(e).__name__}", f"deserialization_method({short(td)}, {optname}) raised {e!r}", {"type": short(td), "options": optname}, observed=repr(e), functions_involved=[])
                continue
            involved = None
            accepted: List[Any] = []
            for d in disc_data(td, tier, rng, o.get("aliaser")):
                got = outcome(meth, copy.deepcopy(d))
                exp = ref_deser(world, td, copy.deepcopy(d), mopts)
                log.case((short(td), optname, repr(d)), isinstance(d, (dict, list)), sample={"type": short(td), "options": optname, "datum": d})

                def fail(kind, summary, tail=""):
                    nonlocal involved
                    if involved is None:
                        involved = involved_of(meth)
                    log.fail(f"{kind}:{short(td)}:{optname}:{d!r}{tail}", f"{kind}: deserialize({short(td)}, {d!r}, {optname}): {summary}", {"type": short(td), "options": optname, "datum": repr(d)}, observed=repr(got)[:500], expected=repr(exp)[:500], functions_involved=involved)

                if got[0] == "crash":
                    fail("crash", f"escaped with {got[1]}")
                    continue
                if optname == "coerce":
                    # coercion only widens: what the reference accepts stays accepted with the same value
                    if exp[0] == "ok" and got[0] != "ok":
                        fail("disc-coerce-rejected", f"data accepted through the discriminator without coercion is rejected with coercion: {got!r}"[:300])
                    elif exp[0] == "ok" and not image_ok(td, got[1], exp[1], RefX(world, mopts), d):
                        fail("disc-coerce-image", f"data accepted through the discriminator is mapped differently with coercion: {got[1]!r} instead of {exp[1]!r}"[:300])
                    continue
                if got[0] != exp[0]:
                    fail("disc-accept-mismatch", f"{'accepted' if got[0] == 'ok' else 'rejected'} but the alternative selected by the discriminator value {'accepts' if exp[0] == 'ok' else 'rejects'} it")
                    continue
                if got[0] == "ok":
                    if not image_ok(td, got[1], exp[1], RefX(world, mopts), d):
                        fail("disc-image-mismatch", f"value {got[1]!r} is not the mapped alternative's {exp[1]!r}")
                    elif _is_disc(td):
                        accepted.append(exp[1])
            # serialization + round trip of the accepted values (top-level discriminated unions)
            if optname in ("coerce", "additional") or not _is_disc(td):
                continue
            skw = {k: v for k, v in o.items() if k == "aliaser"}
            alias = mopts.alias(disc_alias(td))
            mp = mapping_of(td)
            done = set()
            for v in accepted:
                if repr(v) in done:
                    continue
                done.add(repr(v))
                alt = next((a for a in mp.values() if class_matches(a, v, world)), None)
                if alt is None:
                    continue
                keys = [k for k, a in mp.items() if a.name == alt.name]
                base = outcome(serialize, world.realm.built[alt.name], v, **skw)
                gotv = outcome(serialize, tp, v, **skw)
                log.case((short(td), optname, "ser", repr(v)), True, sample={"type": short(td), "options": optname, "value": repr(v)})
                sig = f"{short(td)}:{optname}:{v!r}"
                if base[0] != "ok":
                    continue
                if gotv[0] != "ok" or not isinstance(gotv[1], dict):
                    log.fail(f"disc-ser-crash:{sig}", f"serialize({short(td)}, {v!r}, {optname}) -> {gotv!r}", {"type": short(td), "options": optname, "value": repr(v)}, observed=repr(gotv)[:500], expected=repr(base)[:500], functions_involved=ser_classes(tp, **skw))
                    continue
                raw = disc_alias(td)
                if raw != alias and raw in gotv[1] and raw not in base[1]:
                    log.fail(f"disc-ser-unaliased-key:{sig}", f"serialize({short(td)}, {v!r}, {optname}) -> {gotv[1]!r}: the discriminator property is written as {raw!r}, but under the aliaser deserialization reads it as {alias!r} (no round trip)", {"type": short(td), "options": optname, "value": repr(v)}, observed=repr(gotv)[:500], expected=f"{{..., {alias!r}: one of {keys}}}", functions_involved=ser_classes(tp, **skw))
                    continue
                rest = {k: x for k, x in gotv[1].items() if k != alias}
                brest = {k: x for k, x in base[1].items() if k != alias}
                if not deep_eq(rest, brest) or (alias in base[1] and not deep_eq(gotv[1], base[1])):
                    log.fail(f"disc-ser-mismatch:{sig}", f"serialize({short(td)}, {v!r}, {optname}) -> {gotv[1]!r}: differs from the serialization by its class {base[1]!r} (+ discriminator)", {"type": short(td), "options": optname, "value": repr(v)}, observed=repr(gotv)[:500], expected=repr(base)[:500], functions_involved=ser_classes(tp, **skw))
                    continue
                if gotv[1].get(alias) not in keys:
                    log.fail(f"disc-ser-key:{sig}", f"serialize({short(td)}, {v!r}, {optname}) -> {gotv[1]!r}: the discriminator property {alias!r} is not a key mapped to {alt.name} ({keys})", {"type": short(td), "options": optname, "value": repr(v)}, observed=repr(gotv)[:500], expected=f"{alias!r} in {keys}", functions_involved=ser_classes(tp, **skw))
                    continue
                back = outcome(deserialize, tp, copy.deepcopy(gotv[1]), **o)
                if back[0] != "ok" or not deep_eq(back[1], v):
                    log.fail(f"disc-roundtrip:{sig}", f"deserialize({short(td)}, serialize({v!r})) with {optname}: {gotv[1]!r} -> {back!r}, not the value", {"type": short(td), "options": optname, "value": repr(v)}, observed=repr(back)[:500], expected=repr(v)[:500], functions_involved=ser_classes(tp, **skw) + involved_of(meth))
    apischema.cache.reset()
    world.dispose()


# ---------------------------------------------------------------------------------------------
# driver 4: tagged unions


def run_tagged(report, tier: str, seed: int):
    import types as pytypes

    import apischema
    from apischema import Undefined, alias as ap_alias, deserialize, schema as ap_schema, serialize
    from apischema.tagged_unions import Tagged, TaggedUnion, get_tagged

    rng = random.Random(seed + 2)
    world = World("c13t")
    build_objects(world)
    # tag name -> (description of the tagged type, alias or None, field constraints or None)
    specs = [
        ("TU1", [("bar", P.A, None, None), ("i", INT, "baz", cons(min=0))]),
        ("TU2", [("x", STR, None, None), ("y", Coll("list", INT), None, cons(max_items=2)), ("z", Opt(FLOAT), "Z", None)]),
        ("TU3", [("only", Uni((INT, STR)), None, None)]),
        ("TU4", [("cat", CAT, None, None), ("dog", DOG, None, None), ("n", NONE, None, None), ("e", P.COLOR, None, None)]),
    ]
    if tier == "thorough":
        specs += [("TU5", [("m", Mapp(STR, INT), None, cons(min_props=1)), ("t", Tup((INT, STR)), "tt", None), ("d", P.DISC1, None, None)])]
    log = report.driver("tagged_unions", bound=f"{len(specs)} TaggedUnion classes with 1..4 tags (object / primitive / list / Optional / union / enum / None tag types, aliases, tag-level constraints) x data with 0, 1, 2 and all tags, unknown keys, valid and invalid tag values, non-objects")
    log.rule("case = (class, datum): accepted iff the datum is an object with exactly one property, which is a tag (by alias) whose value conforms to the tag's type and constraints; the value holds that tag only; serialize gives back {tag alias: serialized value} and round-trips; non-trivial for dict data")
    for cname, tags in specs:
        ann, ns = {}, {}
        for tname, ttd, talias, tcons in tags:
            ann[tname] = Tagged[world.realize(ttd)]
            md = None
            if talias:
                md = ap_alias(talias)
            if tcons:
                s = ap_schema(**dict(tcons.kw))
                md = s if md is None else md | s
            if md is not None:
                ns[tname] = Tagged(md)
        cls = pytypes.new_class(cname, (TaggedUnion,), {}, lambda n, ann=ann, ns=ns: n.update({"__annotations__": dict(ann), "__module__": world.realm.name, **ns}))
        ext = {t[0]: (t[2] or t[0]) for t in tags}
        by_ext = {ext[t[0]]: t for t in tags}
        # data
        data: List[Any] = [{}, None, 1, "bar", [], [{"bar": 1}], {"unknown": 1}]
        per_tag = {}
        for tname, ttd, talias, tcons in tags:
            good = samples_of(Ann(ttd, tcons) if tcons else ttd)[:3]
            bad = [m for s in good[:2] for m in P.mutants(s, 6)][:6] + [[1, 2, 3], "zz", -5, {"q": 1}]
            per_tag[tname] = (good, bad)
            for v in good + bad:
                data.append({ext[tname]: v})
                data.append({tname: v})  # by name (differs from the alias when aliased)
                data.append({ext[tname]: v, "unknown": 1})
        for (t1, t2) in itertools.combinations([t[0] for t in tags], 2):
            for v1 in per_tag[t1][0][:2]:
                for v2 in per_tag[t2][0][:2] + per_tag[t2][1][:1]:
                    data.append({ext[t1]: v1, ext[t2]: v2})
        if len(tags) > 2:
            data.append({ext[t[0]]: per_tag[t[0]][0][0] for t in tags})
        seen = set()
        for d in data:
            if repr(d) in seen:
                continue
            seen.add(repr(d))
            got = outcome(deserialize, cls, copy.deepcopy(d))
            # oracle
            exp: Tuple[str, Any]
            if type(d) is dict and len(d) == 1 and next(iter(d)) in by_ext:
                tname, ttd, talias, tcons = by_ext[next(iter(d))]
                r = ref_deser(world, Ann(ttd, tcons) if tcons else ttd, copy.deepcopy(d[next(iter(d))]), M.Opts())
                exp = ("ok", (tname, r[1])) if r[0] == "ok" else ("err", None)
            else:
                exp = ("err", None)
            log.case((cname, repr(d)), isinstance(d, dict), sample={"class": cname, "tags": sorted(ext.values()), "datum": d})
            sig = f"{cname}:{d!r}"
            case = {"class": cname, "tags": {t[0]: short(t[1]) for t in tags}, "datum": repr(d)}
            if got[0] == "crash":
                log.fail(f"tagged-crash:{sig}", f"deserialize({cname}, {d!r}) escaped with {got[1]}", case, observed=repr(got), expected=repr(exp), functions_involved=["ObjectMethod"])
                continue
            if got[0] != exp[0]:
                log.fail(f"tagged-accept:{sig}", f"deserialize({cname}, {d!r}) {'accepted' if got[0] == 'ok' else 'rejected'}: a TaggedUnion accepts exactly one tag with a conforming value", case, observed=repr(got)[:400], expected=repr(exp)[:400], functions_involved=["ObjectMethod"])
                continue
            if got[0] != "ok":
                continue
            v = got[1]
            tname, img = exp[1]
            try:
                defined = {t[0]: getattr(v, t[0]) for t in tags if getattr(v, t[0]) is not Undefined}
                ok = isinstance(v, cls) and list(defined) == [tname] and deep_eq(defined[tname], img) and get_tagged(v)[0] == tname
            except Exception as e:
                ok, defined = False, repr(e)
            if not ok:
                log.fail(f"tagged-image:{sig}", f"deserialize({cname}, {d!r}) -> {v!r}: should hold exactly the tag {tname} = {img!r}", case, observed=repr(defined)[:400], expected=repr({tname: img})[:400], functions_involved=["ObjectMethod"])
                continue
            ttd = by_ext[ext[tname]][1]
            sv = outcome(serialize, world.realize(ttd), img)
            s = outcome(serialize, cls, v)
            if sv[0] != "ok":
                continue
            if s[0] != "ok" or not deep_eq(s[1], {ext[tname]: sv[1]}):
                log.fail(f"tagged-ser:{sig}", f"serialize({cname}, {v!r}) -> {s!r}, expected {{{ext[tname]!r}: {sv[1]!r}}}", case, observed=repr(s)[:400], expected=repr({ext[tname]: sv[1]})[:400], functions_involved=["ObjectMethod"])
                continue
            back = outcome(deserialize, cls, copy.deepcopy(s[1]))
            try:
                rt = back[0] == "ok" and get_tagged(back[1])[0] == tname and deep_eq(get_tagged(back[1])[1], img)
            except Exception:
                rt = False
            if not rt:
                log.fail(f"tagged-roundtrip:{sig}", f"deserialize({cname}, serialize(v)) != v for v = {v!r}", case, observed=repr(back)[:400], expected=repr(v)[:400], functions_involved=["ObjectMethod"])
    apischema.cache.reset()
    world.dispose()


# ---------------------------------------------------------------------------------------------
# driver 5: both orders of the same alternatives in one process


def run_order(report, tier: str, seed: int):
    import apischema
    from apischema import deserialize

    world = World("c13o")
    build_objects(world)
    pairs = [
        (CAT, DOG, {"name": "x"}),
        (CAT, LION, {"name": "x"}),
        (Coll("list", INT), Coll("tuplevar", INT), [1, 2]),
        (Coll("list", INT), Coll("set", INT), [1]),
        (Tup((INT, INT)), Coll("list", INT), [1, 2]),
        (P.NAME, STR, "a"),
        (P.COLOR, INT, 1),
        (Mapp(STR, INT), P.TD2, {"a": 1}),
        (P.A, P.NT, {"a": 1}),
    ]
    log = report.driver("union_order", bound=f"{len(pairs)} pairs of alternatives accepting a common datum with different values x both orders x both evaluation sequences (shared caches, no reset in between)")
    log.rule("case = (A, B, datum, which order is used first): deserialize(Union[A, B], d) is A's value and deserialize(Union[B, A], d) is B's value, whichever union was used first")
    for a, b, d in pairs:
        for first in ("AB", "BA"):
            apischema.cache.reset()
            ta, tb = world.realize(a), world.realize(b)
            uab, uba = typing.Union[ta, tb], typing.Union[tb, ta]
            seq = [(uab, a, "Union[A, B]"), (uba, b, "Union[B, A]")]
            if first == "BA":
                seq.reverse()
            for u, head, label in seq:
                got = outcome(deserialize, u, copy.deepcopy(d))
                exp = ref_deser(world, head, copy.deepcopy(d), M.Opts())
                log.case((short(a), short(b), repr(d), first, label), True, sample={"A": short(a), "B": short(b), "datum": d, "first_used": first, "union": label})
                if exp[0] != "ok":
                    report.tool_error(f"union_order: {short(head)} does not accept {d!r}")
                    continue
                if got[0] != "ok" or not deep_eq(got[1], exp[1]):
                    log.fail(
                        f"union-order:{short(a)}|{short(b)}:{label}-after-{'the other order' if label[6] != first[0] else 'nothing'}:{d!r}",
                        f"deserialize({label}, {d!r}) with A={short(a)}, B={short(b)} -> {got!r}; its first accepting alternative gives {exp[1]!r} (the other order was compiled first: {label[6] != first[0]})",
                        {"A": short(a), "B": short(b), "datum": repr(d), "first_used": first, "union": label},
                        observed=repr(got)[:400],
                        expected=repr(exp)[:400],
                        functions_involved=["UnionMethod", "UnionByTypeMethod"],
                    )
    apischema.cache.reset()
    world.dispose()


def run(report, tier: str, seed: int):
    run_unions(report, tier, seed)
    run_discriminated(report, tier, seed)
    run_tagged(report, tier, seed)
    run_order(report, tier, seed)
