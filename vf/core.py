"""Common machinery of the checks: verdict collection, known findings, replay files,
evidence, exit codes (DESIGN.md section 6)."""
from __future__ import annotations

import fnmatch
import hashlib
import json
import os
import sys
import time
from dataclasses import dataclass, field
from typing import Any, Callable, Dict, List, Optional

VERIF = os.path.dirname(os.path.dirname(os.path.abspath(__file__)))
# runs against scratch copies (self-test) write their evidence / replays elsewhere
_OUT = os.environ.get("VERIF_OUT", VERIF)
REPLAYS = os.path.join(_OUT, "replays")
EVIDENCE = os.path.join(_OUT, "evidence")

MAX_REPORTED = int(os.environ.get("VERIF_MAX_REPORTED", "8"))
EXIT_OK, EXIT_VIOLATION, EXIT_UNDECIDED, EXIT_TOOL = 0, 1, 2, 3


def repo_root() -> str:
    return os.environ.get("VERIF_REPO", "/repo")


def load_known_findings() -> List[dict]:
    out = []
    paths = [os.path.join(VERIF, "known_findings.json")]
    frag = os.path.join(VERIF, "known_findings.d")
    if os.path.isdir(frag):
        paths += [os.path.join(frag, n) for n in sorted(os.listdir(frag)) if n.endswith(".json")]
    for p in paths:
        if not os.path.exists(p):
            continue
        with open(p) as f:
            data = json.load(f)
        out += [e for e in data.get("findings", []) if e.get("status", "open") == "open"]
    return out


@dataclass
class Violation:
    prop: str
    signature: str  # stable identification of *what* fails (matched against known findings)
    summary: str
    replay: dict  # content of the replay file
    concrete: bool = True  # a failing input was reproduced natively
    known: Optional[dict] = None
    path: str = ""


class Report:
    def __init__(self, prop: str, tier: str, seed: int, level: str):
        self.prop, self.tier, self.seed, self.level = prop, tier, seed, level
        self.t0 = time.time()
        self.violations: List[Violation] = []
        self.undecided: List[str] = []
        self.tool_errors: List[str] = []
        self.not_verified: List[str] = []
        self.functions: List[dict] = []
        self.obligations = 0
        self.discharged = 0
        self.per_obligation: List[dict] = []
        self.solver_ms = 0
        self.bounded: Dict[str, dict] = {}
        self.assumptions: List[str] = []
        self.trusted: List[str] = []
        self.known = load_known_findings()
        self.known_hit: List[str] = []
        self.samples: List[Any] = []
        self.extra: Dict[str, Any] = {}
        self.p_failures: List[dict] = []

    # -- bounded drivers ----------------------------------------------------------
    def driver(self, name: str, bound: str, label: str = "B") -> "DriverLog":
        d = DriverLog(self, name, bound, label)
        self.bounded[name] = d.stats
        return d

    # -- violations ------------------------------------------------------------------
    def violation(self, signature: str, summary: str, replay: dict, concrete: bool = True):
        for v in self.violations:
            if v.signature == signature:
                return v  # one report per distinct failure
        v = Violation(self.prop, signature, summary, replay, concrete)
        for k in self.known:
            if k.get("property") == self.prop and fnmatch.fnmatchcase(signature, k["signature"]):
                v.known = k
                break
        self.violations.append(v)
        return v

    def tool_error(self, msg: str):
        self.tool_errors.append(msg)

    def drift(self, msg: str):
        """the sidecar of a function does not fit the working tree's version of it (renamed local,
        construct outside the subset, function gone): that function is NOT under proof in this run.
        Not an alarm and not a harness failure: reported, recorded in the evidence, exit code unaffected
        (the bounded drivers still decide on the real code)"""
        if msg not in self.not_verified:
            self.not_verified.append(msg)

    # -- finishing ---------------------------------------------------------------------
    def resolve_p_failures(self):
        """an undischarged obligation is a violation of the property; it is concrete when a native
        run-time contract of this run failed on an input that goes through the same function"""
        for pf in self.p_failures:
            fn = pf["function"]
            clsname = fn.split(":")[1].split(".")[0]
            linked = None
            for v in self.violations:
                if v.concrete and clsname in (v.replay.get("functions_involved") or []):
                    linked = v
                    break
            replay = {"obligation": pf["obligation"], "function": fn, "where": pf["where"], "kind": pf["kind"], "verifier_output": {k: pf[k] for k in ("solver", "result", "detail", "model")}}
            if linked is not None:
                replay["failing_input"] = {"driver": linked.replay.get("driver"), "case": linked.replay.get("case"), "observed": linked.replay.get("observed"), "expected": linked.replay.get("expected")}
            self.violation(f"P:{fn}:{pf['obligation']}", f"obligation not discharged: {fn} -- {pf['obligation']} ({pf['result']} by {pf['solver']})", replay, concrete=linked is not None)

    def finish(self) -> int:
        self.resolve_p_failures()
        os.makedirs(REPLAYS, exist_ok=True)
        os.makedirs(EVIDENCE, exist_ok=True)
        new = [v for v in self.violations if v.known is None]
        for v in self.violations:
            if v.known is not None:
                line = f"KNOWN-FINDING: property={self.prop} {v.known.get('what', v.signature)}"
                if line not in self.known_hit:
                    self.known_hit.append(line)
                    print(line)
        self.extra["violations_total"] = len(new)
        shown = new[:MAX_REPORTED]
        if len(new) > len(shown):
            print(f"({len(new) - len(shown)} further distinct violations of {self.prop} not listed; see evidence)")
        for v in shown:
            h = hashlib.sha256(v.signature.encode()).hexdigest()[:10]
            v.path = os.path.join(REPLAYS, f"{self.prop}-{h}.json")
            v.replay.update({"property": self.prop, "signature": v.signature, "summary": v.summary, "repo": repo_root()})
            with open(v.path, "w") as f:
                json.dump(v.replay, f, indent=1, default=str)
            print(f"VIOLATION property={self.prop} replay={v.path}" + ("" if v.concrete else " no-failing-input-found"))
            print(f"  {v.summary}")
        for u in self.undecided:
            print(f"UNDECIDED property={self.prop} obligation={u}")
        for t in self.tool_errors:
            print(f"TOOL-ERROR property={self.prop} {t}")
        for t in self.not_verified:
            print(f"NOT-VERIFIED property={self.prop} {t}")
        self.write_evidence(len(new))
        # a violation reproduced on a concrete input stands even if part of the machinery could not
        # run on the changed code (e.g. a sidecar that no longer fits a rewritten function)
        if any(v.concrete for v in new):
            return EXIT_VIOLATION
        if self.tool_errors:
            return EXIT_TOOL
        if new:
            return EXIT_VIOLATION
        if self.undecided:
            return EXIT_UNDECIDED
        return EXIT_OK

    def write_evidence(self, n_viol: int):
        try:
            from checks.common import LEVELS

            self.level = LEVELS.get(self.prop, self.level)
        except Exception:
            pass
        evaluations = sum(d["evaluations"] for d in self.bounded.values())
        distinct = sum(d["distinct_nontrivial"] for d in self.bounded.values())
        samples = list(self.samples)
        for d in self.bounded.values():
            samples.extend(d["samples"][:2])
        coverage: Dict[str, Any] = {
            "obligations": self.obligations,
            "discharged": self.discharged,
            "checker_cmd": f"./check {self.prop} --tier {self.tier}",
            "trusted_base": self.trusted,
            "evaluations": evaluations,
            "distinct_nontrivial": distinct,
            "rule": "P: one obligation per (function, path, clause) generated by pyvc from the working-tree source and discharged by z3/cvc5 (unbounded). "
            "B/E: bounded or finite-exhaustive run-time contract checks on the real functions; a case is distinct by its (type/node, datum, options) key and non-trivial when the contract's guard was exercised (see per-driver rule). B counts are never added to `discharged`.",
            "samples": samples[:12] or ["(none)"],
            "functions_under_contract": self.functions,
            "per_obligation": self.per_obligation,
            "solver_time_s": round(self.solver_ms / 1000.0, 3),
            "bounded": {k: {kk: vv for kk, vv in d.items() if kk != "_keys"} for k, d in self.bounded.items()},
            "undecided": self.undecided,
            "known_findings_hit": self.known_hit,
            "tool_errors": self.tool_errors,
            "not_verified_on_this_tree": self.not_verified,
            "exhaustive": False,
        }
        coverage.update(self.extra)
        ev = {
            "property_id": self.prop,
            "tier": self.tier,
            "seed": self.seed,
            "level": self.level,
            "coverage": coverage,
            "assumptions": self.assumptions,
            "wall_s": round(time.time() - self.t0, 2),
            "violations": n_viol,
        }
        with open(os.path.join(EVIDENCE, f"{self.prop}.json"), "w") as f:
            json.dump(ev, f, indent=1, default=str)


class DriverLog:
    """what one bounded / exhaustive driver explored"""

    def __init__(self, report: Report, name: str, bound: str, label: str):
        self.report = report
        self.name = name
        self.stats = {"label": label, "bound": bound, "evaluations": 0, "distinct_nontrivial": 0, "samples": [], "violations": 0, "_keys": set(), "rule": ""}

    def rule(self, text: str):
        self.stats["rule"] = text

    def case(self, key: Any, nontrivial: bool = True, sample: Any = None):
        self.stats["evaluations"] += 1
        if nontrivial:
            k = repr(key)
            if k not in self.stats["_keys"]:
                self.stats["_keys"].add(k)
                self.stats["distinct_nontrivial"] += 1
                if sample is not None and len(self.stats["samples"]) < 6:
                    self.stats["samples"].append(sample)

    def fail(self, signature: str, summary: str, case: dict, **kw):
        self.stats["violations"] += 1
        replay = {"driver": self.name, "case": case}
        replay.update(kw)
        return self.report.violation(signature, summary, replay, concrete=True)

    def exhaustive(self):
        self.stats["exhaustive"] = True
