"""The P part of a check: every contract tagged with the property is verified by pyvc
against the working tree; undischarged obligations become violations (with the native
replay of a counterexample where the node harness finds one)."""
from __future__ import annotations

import json
import os
from concurrent.futures import ProcessPoolExecutor, as_completed
from typing import Dict, List, Optional

from .core import VERIF, Report


def _verify_one(args):
    target, tier, budget, shard = args
    import warnings

    from pyvc.run import verify

    rep = verify(target, tier, budget, shard=shard)
    out = {
        "target": rep.target,
        "props": rep.props,
        "path": rep.path,
        "lineno": rep.lineno,
        "sha256": rep.sha256,
        "status": rep.status,
        "error": rep.error,
        "solver_ms": rep.solver_ms,
        "wall_ms": rep.wall_ms,
        "paths": rep.paths,
        "assumed_calls": rep.assumed_calls,
        "callees": rep.callees,
        "verdicts": [vars(v) for v in rep.verdicts],
    }
    return out


def targets_for(prop: str) -> List[str]:
    from pyvc.contracts import load_all

    reg = load_all()
    tier = os.environ.get("VERIF_TIER_EFFECTIVE", "quick")
    return [t for t, c in reg.contracts.items() if prop in getattr(c, "props", ()) and (tier == "thorough" or getattr(c, "tier", "quick") != "thorough")]


def obligations_file(prop: str) -> str:
    return os.path.join(VERIF, "obligations", f"{prop}.json")


def run_p(report: Report, prop: str, tier: str, targets: Optional[List[str]] = None, workers: int = 16) -> Dict[str, dict]:
    os.environ["VERIF_TIER_EFFECTIVE"] = tier
    targets = targets if targets is not None else targets_for(prop)
    budget = 10000 if tier == "quick" else 30000
    results: Dict[str, dict] = {}
    if not targets:
        return results
    from pyvc.contracts import load_all

    reg = load_all()
    # Layer-2 contracts rely on the refinement axioms of node classes: the classes they need are
    # verified in the same run (even when they are not tagged with this property) and an axiom is
    # made available only if every obligation of its class was discharged
    layer2 = [t for t in targets if getattr(reg.contract_for(t), "layer", 1) == 2]
    support = []
    for t in layer2:
        for u in getattr(reg.contract_for(t), "uses_axioms_of", []):
            if u not in targets and u not in support:
                support.append(u)

    def run_jobs(ts, env_extra=None):
        jobs = [(t, tier, budget, (0, 1)) for t in ts]
        jobs.sort(key=lambda j: -int(getattr(reg.contract_for(j[0]), "shards", 1)))
        if env_extra:
            os.environ.update(env_extra)
        out = {}
        if not jobs:
            return out
        with ProcessPoolExecutor(max_workers=min(workers, len(jobs))) as pool:
            futs = {pool.submit(_verify_one, j): j for j in jobs}
            for fut in as_completed(futs):
                t = futs[fut][0]
                try:
                    out[t] = fut.result()
                except Exception as e:  # worker crash
                    out[t] = {"target": t, "status": "tool-error", "error": f"worker crash: {e!r}", "verdicts": [], "props": [], "path": "", "lineno": 0, "sha256": "", "solver_ms": 0, "wall_ms": 0, "paths": 0, "assumed_calls": [], "callees": []}
        return out

    phase1 = [t for t in targets if t not in layer2] + support
    res1 = run_jobs(phase1)
    proven = [t for t, r in res1.items() if r["status"] == "ok" and r["verdicts"] and all(v["status"] == "discharged" for v in r["verdicts"])]

    def undecided(r):
        return r["status"] == "ok" and any(v["status"] != "discharged" and v["kind"] != "vacuity" for v in r["verdicts"])

    # second chance, one function at a time and with a three-fold budget: an obligation that timed
    # out while all cores were busy must not be reported (DESIGN.md 12.1: verdict stability)
    def second_chance(res, env_extra=None):
        nonlocal budget
        # only the signature of a busy machine (a few undecided obligations) is retried; a function
        # with many undischarged obligations has changed
        again = [
            t
            for t, r in res.items()
            if undecided(r)
            and not any(v["status"] == "skipped" for v in r["verdicts"])
            and sum(1 for v in r["verdicts"] if v["status"] != "discharged" and v["kind"] != "vacuity") <= 2
        ]
        if not again:
            return False
        b0 = budget
        budget = b0 * 3
        try:
            for t in again:
                r2 = run_jobs([t], env_extra)[t]
                if r2["status"] == "ok" and not undecided(r2):
                    r2["second_chance"] = True
                    res[t] = r2
        finally:
            budget = b0
        return True

    second_chance(res1)
    proven = [t for t, r in res1.items() if r["status"] == "ok" and r["verdicts"] and all(v["status"] == "discharged" for v in r["verdicts"])]
    res2 = run_jobs(layer2, {"PYVC_PROVEN": json.dumps(proven)}) if layer2 else {}
    if layer2:
        second_chance(res2, {"PYVC_PROVEN": json.dumps(proven)})
    for t in targets:
        results[t] = res1[t] if t in res1 else res2[t]
    if layer2:
        report.extra["refinement_axioms"] = {"available_from": sorted(set(proven) & set(u for t in layer2 for u in getattr(reg.contract_for(t), "uses_axioms_of", []))), "withdrawn": sorted(set(u for t in layer2 for u in getattr(reg.contract_for(t), "uses_axioms_of", [])) - set(proven))}
    expected = {}
    if os.path.exists(obligations_file(prop)):
        with open(obligations_file(prop)) as f:
            expected = json.load(f)
    current: Dict[str, Dict[str, int]] = {}
    for t in targets:
        r = results[t]
        tag = "P"
        if r["status"] == "assumed":
            tag = "assumed (contract used at call sites, body not verified)"
        elif r["status"] == "inline":
            tag = "inlined at call sites (its real body is executed by the caller's proof)"
        report.functions.append({"function": t, "file": f"{r['path']}:{r['lineno']}", "sha256": r["sha256"][:16], "tag": tag, "paths": r["paths"], "obligations": len(r["verdicts"]), "solver_ms": r["solver_ms"]})
        if r["status"] == "tool-error":
            first = r["error"].splitlines()[0] if r["error"] else ""
            if first.startswith(("Unsupported", "SidecarError", "SourceError")):
                report.drift(f"{t}: the contract does not fit this version of the function, it is not under proof in this run ({first})")
            else:
                report.tool_error(f"{t}: {first}")
            continue
        for a in r["assumed_calls"]:
            if a not in report.assumptions:
                report.assumptions.append(a)
        cobj = reg.contract_for(t)
        for a in getattr(cobj, "assumptions", []) if cobj is not None else []:
            if a not in report.assumptions:
                report.assumptions.append(a)
        names: Dict[str, int] = {}
        for v in r["verdicts"]:
            names[v["name"]] = names.get(v["name"], 0) + 1
            report.obligations += 1
            report.solver_ms += v["ms"]
            if v["status"] == "discharged":
                report.discharged += 1
            report.per_obligation.append({"function": t.split(":")[1], "name": v["name"], "kind": v["kind"], "result": v["status"], "solver": v["solver"], "ms": v["ms"]})
        current[t] = names
        for v in r["verdicts"]:
            if v["kind"] == "vacuity" and v["status"] != "discharged":
                report.tool_error(f"{t}: contradictory preconditions / lemmas / axioms (vacuity guard proved False)")
        bad = [v for v in r["verdicts"] if v["status"] not in ("discharged", "skipped") and v["kind"] != "vacuity"]
        seen = set()
        for v in bad:
            key = (t, v["name"])
            if key in seen:
                continue
            seen.add(key)
            report.p_failures.append({"function": t, "obligation": v["name"], "kind": v["kind"], "where": v["where"], "solver": v["solver"], "result": v["status"], "detail": v["detail"], "model": v.get("model")})
        # vacuity / sidecar drift guard: fewer obligations than the committed list is a tool error
        exp = expected.get(t)
        if t not in expected and expected and not os.environ.get("VERIF_UPDATING_OBLIGATIONS") and tier == "quick":
            pass
        if exp is not None and not os.environ.get("VERIF_UPDATING_OBLIGATIONS"):
            for name, cnt in exp.items():
                # only the contract's own clauses are compared: obligations that depend on the
                # code's shape (preconditions of callees, loop / frame obligations) may vanish
                # with a code change without the machinery being at fault
                if not (name.startswith("C0") or name.startswith("C1") or name.startswith("raises only")):
                    continue
                if names.get(name, 0) == 0:
                    report.drift(f"{t}: obligation `{name}` of the committed list is not generated for this version of the function")
        if r["status"] == "ok" and not r["verdicts"]:
            report.tool_error(f"{t}: zero obligations generated")
    report.extra.setdefault("obligation_names", {}).update(current)
    return results


def write_expected(prop: str, current: Dict[str, Dict[str, int]]):
    os.makedirs(os.path.dirname(obligations_file(prop)), exist_ok=True)
    if os.path.exists(obligations_file(prop)):
        with open(obligations_file(prop)) as f:
            old = json.load(f)
        from pyvc.contracts import load_all

        reg = load_all()
        for t, names in old.items():
            c = reg.contract_for(t)
            if t not in current and c is not None and getattr(c, "tier", "quick") == "thorough":
                current[t] = names  # thorough-only contract: not re-generated by a quick run
    with open(obligations_file(prop), "w") as f:
        json.dump(current, f, indent=1, sort_keys=True)
