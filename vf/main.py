"""./check <ID> [--tier quick|thorough] [--replay FILE] [--update-obligations]"""
from __future__ import annotations

import argparse
import importlib
import json
import os
import sys
import warnings

HERE = os.path.dirname(os.path.dirname(os.path.abspath(__file__)))
sys.path.insert(0, HERE)


def main(argv=None) -> int:
    ap = argparse.ArgumentParser()
    ap.add_argument("prop")
    ap.add_argument("--tier", default=os.environ.get("VERIF_TIER", "quick"), choices=["quick", "thorough"])
    ap.add_argument("--replay")
    ap.add_argument("--update-obligations", action="store_true")
    args = ap.parse_args(argv)
    seed = int(os.environ.get("VERIF_SEED", "0"))
    # the repository under test comes first on the path (VERIF_REPO for scratch copies)
    repo = os.environ.get("VERIF_REPO", "/repo")
    sys.path.insert(0, repo)
    warnings.filterwarnings("ignore")
    try:
        mod = importlib.import_module(f"checks.{args.prop.lower()}")
    except ModuleNotFoundError as e:
        print(f"TOOL-ERROR no check for {args.prop}: {e}")
        return 3
    if args.replay:
        with open(args.replay) as f:
            rp = json.load(f)
        return mod.replay(rp)
    from vf.core import Report

    if args.update_obligations:
        os.environ["VERIF_UPDATING_OBLIGATIONS"] = "1"
    from checks.common import LEVELS

    report = Report(args.prop, args.tier, seed, LEVELS.get(args.prop, mod.LEVEL))
    try:
        mod.run(report, args.tier, seed)
    except Exception as e:
        import traceback

        report.tool_error("check crashed: " + "".join(traceback.format_exception_only(type(e), e)).strip() + " | " + traceback.format_exc()[-1200:].replace("\n", " / "))
    if args.update_obligations and not report.tool_errors:
        from vf.pcheck import write_expected

        write_expected(args.prop, report.extra.get("obligation_names", {}))
    code = report.finish()
    print(f"{args.prop} tier={args.tier} obligations={report.obligations} discharged={report.discharged} bounded_cases={sum(d['evaluations'] for d in report.bounded.values())} violations={len([v for v in report.violations if v.known is None])} known={len(report.known_hit)} exit={code}")
    return code


if __name__ == "__main__":
    sys.exit(main())
