"""C01 -- deserialization accepts exactly conforming data and builds the typed value."""
from vf.pcheck import run_p

LEVEL = "proof"
PROP = "C01"


def run(report, tier, seed):
    run_p(report, PROP, tier)


def replay(rp):
    print(rp.get("summary"))
    return 1
