"""C08 -- options that are optimisations never change results.

P: contracts tagged C08 (check-only deserialization nodes return the input itself).  B: pairwise
run-time equivalences on the real API (drivers/opt_equiv.py): no_copy, override_dataclass_constructors,
precomputed method vs function, check_type on well-typed values, all 2^5 PassThroughOptions flag
vectors completed by serialization_default, deserialization pass_through; container identity."""
from drivers import opt_equiv
from vf.pcheck import run_p, targets_for

from .common import ASSUME_CHILDREN, TRUSTED, generic_replay

PROP = "C08"
try:
    LEVEL = "proof" if targets_for(PROP) else "exploration"
except Exception:
    LEVEL = "exploration"

TRUSTED_B = [
    "the reference semantics of /verif/drivers/model.py (only to pick well-typed values: the reference images of accepted data; the verdicts are relational, between two runs of apischema)",
    "the type / datum pools of /verif/drivers/pools.py, the extras of /verif/drivers/roundtrip.py, /verif/drivers/opt_common.py and the hand-written classes of /verif/drivers/opt_equiv.py",
]


def run(report, tier, seed):
    report.trusted = (list(TRUSTED) if LEVEL == "proof" else []) + TRUSTED_B
    if LEVEL == "proof":
        report.assumptions.append(ASSUME_CHILDREN)
    report.assumptions.append("`serialization_default completes` is read as: applied, like a json `default=` hook, to every object of the output that is not JSON data (keys included); subclasses of primitives count as their primitive, as for json.dumps")
    run_p(report, PROP, tier)
    opt_equiv.run(report, tier, seed)


replay = generic_replay
