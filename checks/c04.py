"""C04 -- serialization yields the JSON image prescribed by the type.

P: contracts tagged C04 (serialization nodes, omission lemma) when they exist.
B: run-time contract of apischema.serialize / serialization_method against the reference
serialization of drivers/model_ser.py (written from the statement) over the C01 type space plus
the serialization-only features, generated values and the option sets of the quantifier."""
from drivers import ser_e2e, ser_late
from vf.pcheck import run_p, targets_for

from .common import ASSUME_CHILDREN, TRUSTED, generic_replay

PROP = "C04"
try:
    LEVEL = "proof" if targets_for(PROP) else "exploration"
except Exception:
    LEVEL = "exploration"


def run(report, tier, seed):
    report.trusted = list(TRUSTED)
    report.trusted.append("the reference serialization of /verif/drivers/model_ser.py (written from the C04 statement and the documentation)")
    if run_p(report, PROP, tier):
        report.assumptions.append(ASSUME_CHILDREN)
    ser_e2e.run(report, tier, seed)
    ser_late.run(report, tier, seed, "image")


replay = generic_replay
