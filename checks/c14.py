"""C14 -- coercion only widens acceptance, per the documented table.

P: contracts tagged C14 (when present).  B/E: run-time contracts of
apischema.deserialize(..., coerce=...) against the strict run (monotonicity, equal results for
union-free types) and against the coercing reference written from the statement and the
documented table (drivers/coercion.py)."""
from drivers import coercion
from vf.pcheck import run_p, targets_for

from .common import ASSUME_CHILDREN, TRUSTED, generic_replay

PROP = "C14"
try:
    LEVEL = "proof" if targets_for(PROP) else "exploration"
except Exception:
    LEVEL = "exploration"

TRUSTED_B = [
    "the reference semantics of /verif/drivers/model.py and its coercing extension CoRef / Table of /verif/drivers/coercion.py (written from the statement and docs/de_serialization.md 'Coercion')",
    "the type / datum pools of /verif/drivers/pools.py and the enrichment of /verif/drivers/coercion.py",
]


def run(report, tier, seed):
    report.trusted = (list(TRUSTED) if LEVEL == "proof" else []) + TRUSTED_B
    if LEVEL == "proof":
        report.assumptions.append(ASSUME_CHILDREN)
    report.assumptions.append("conversions the statement does not settle (bool -> int / float / str, float -> int through int()) are admitted both ways; for union types (Optional included) the result may be the image of any accepting alternative")
    run_p(report, PROP, tier)
    coercion.run(report, tier, seed)


replay = generic_replay
