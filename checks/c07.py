"""C07 -- serialized data validates against serialization_schema.

P: contracts tagged C07 (required => emitted, emitted => declared lemmas) when they exist.
B: run-time contract of serialize / serialization_schema with jsonschema (Draft 2020-12) as the
oracle, over the C04 type and value space x global exclude_defaults / exclude_none x aliaser x
additional_properties x field / registered / dynamic conversions."""
from drivers import ser_late, ser_schema
from vf.pcheck import run_p, targets_for

from .common import ASSUME_CHILDREN, TRUSTED, generic_replay

PROP = "C07"
try:
    LEVEL = "proof" if targets_for(PROP) else "exploration"
except Exception:
    LEVEL = "exploration"


def run(report, tier, seed):
    report.trusted = list(TRUSTED)
    report.trusted.append("jsonschema (Draft202012Validator) as the oracle of schema validity")
    if run_p(report, PROP, tier):
        report.assumptions.append(ASSUME_CHILDREN)
    ser_schema.run(report, tier, seed)
    ser_late.run(report, tier, seed, "schema")


replay = generic_replay
