"""C06 -- deserialize and deserialization_schema agree on what is valid.

P: contracts tagged C06 (when present).  B: for every (type, options, datum) of the pools,
restricted to the common semantic domain of the statement, `deserialize` accepts iff the datum
is valid (independent validator: jsonschema, draft 2020-12) against `deserialization_schema`
generated with the same options."""
from drivers import schema_agree
from vf.pcheck import run_p, targets_for

from .common import ASSUME_CHILDREN, TRUSTED, generic_replay

PROP = "C06"
try:
    LEVEL = "proof" if targets_for(PROP) else "exploration"
except Exception:
    LEVEL = "exploration"

TRUSTED_B = ["jsonschema 4.x Draft202012Validator (without format assertion) as the meaning of a draft 2020-12 schema", "the type / datum pools of /verif/drivers/pools.py and /verif/drivers/schema_agree.py"]


def run(report, tier, seed):
    report.trusted = (list(TRUSTED) if LEVEL == "proof" else []) + TRUSTED_B
    if LEVEL == "proof":
        report.assumptions.append(ASSUME_CHILDREN)
    report.assumptions.append("common semantic domain of the statement: start-anchored patterns, no integer-valued floats, `format` / `contentEncoding` as annotations, array uniqueness not compared for set-typed positions; converters of conversions are total on their source type")
    run_p(report, PROP, tier)
    schema_agree.run(report, tier, seed)


replay = generic_replay
