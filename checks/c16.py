"""C16 -- field order is a deterministic function of declaration and order() specs.

B: run-time contract of the order observed in the five views (serialize keys, properties of both
JSON schemas, GraphQL output / input object types) against the reference placement written from
the statement (DESIGN.md appendix A.4), exhaustive for small classes, sampled beyond
(drivers/order_views.py).  No pyvc obligation is tagged with C16 yet: run_p is called so that
they are included as soon as they exist."""
from drivers import order_views
from vf.pcheck import run_p

from .common import TRUSTED, generic_replay

LEVEL = "exploration"  # the level actually reported follows run_p: "proof" only when obligations tagged with the property exist
PROP = "C16"


def run(report, tier, seed):
    report.trusted = list(TRUSTED)
    res = run_p(report, PROP, tier)
    report.level = "proof" if res else "exploration"
    order_views.run(report, tier, seed)


def replay(rp):
    if "obligation" in rp and "function" in rp:
        return generic_replay(rp)
    return order_views.replay(rp)
