"""shared pieces of the per-property checks"""
import json
import os
import sys

TRUSTED = [
    "pyvc: the translation of the Python subset and the operation models (DESIGN.md 2.2-2.6, 10.1)",
    "Python semantics assumed by the encoding: left-to-right evaluation, dict insertion order, integers mathematical (exact for Python), == on values modelled as identity of canonical values (no True == 1 == 1.0 confusion at the P level), no MemoryError, unbounded interpreter stack (A-WF)",
    "z3 5.1.0 (and cvc5 1.0.3 / z3 4.8.12 on the SMT-LIB dump): an `unsat` is believed",
    "the specification functions of /verif/contracts/spec.py and the reference semantics of /verif/drivers/model.py (written from the property statements)",
    "the structural induction over types (DESIGN.md 4.4): every case is machine-checked, the induction schema is not mechanised",
]

ASSUME_CHILDREN = "abstract children: m.deserialize(x) returns img(m,x) iff acc(m,x) else raises the ValidationError err(m,x); constraint.validate(x) is the boolean holds(c,x) and does not raise; user callables (error formatters, converters) are pure total functions"


def generic_replay(rp: dict) -> int:
    """re-run a replay file: P obligations are re-verified, driver cases are re-run by the driver"""
    print(json.dumps({k: rp.get(k) for k in ("property", "signature", "summary", "obligation", "function", "case", "observed", "expected")}, indent=1, default=str))
    if rp.get("driver") in ("validators_gating", "objects_with_validators"):
        from drivers import validators_gating

        return validators_gating.replay(rp)
    if rp.get("driver") == "deserialize_vs_reference" or (rp.get("driver") or "").startswith("deserialize_"):
        from drivers import deser_e2e

        return deser_e2e.replay_case(rp)
    if "obligation" in rp and "function" in rp:
        from pyvc.run import verify

        rep = verify(rp["function"])
        bad = [v for v in rep.verdicts if v.status != "discharged" and v.name == rp["obligation"]]
        if rep.status == "tool-error":
            print("tool error:", rep.error)
            return 3
        print("still failing" if bad else "obligation now discharged")
        return 1 if bad else 0
    return 1


# The level a check claims is the level of the method that DECIDES the property, not merely
# whether some obligations are tagged with it: "proof" where the property's main clauses are
# postconditions discharged by pyvc; "exploration" where bounded run-time contracts decide and
# proof obligations (if any) only support them.
LEVELS = {
    "C01": "proof", "C02": "proof", "C03": "proof", "C04": "proof", "C08": "proof", "C09": "proof",
    "C10": "proof", "C12": "proof", "C13": "proof", "C14": "proof", "C15": "proof", "C18": "proof",
    "C05": "exploration", "C06": "exploration", "C07": "exploration", "C11": "exploration",
    "C16": "exploration", "C17": "exploration", "C19": "exploration",
}
