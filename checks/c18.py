"""C18 -- schema dialect conversion preserves the set of valid instances.

P: contracts tagged C18 (when present).  B: for every type of the pools, entry point and target
version V, the schema generated with version=V accepts under V's own validator exactly the data
the draft 2020-12 schema accepts (OpenAPI 3.0 through its documented mapping, up to the keywords it
drops), and uses only V's vocabulary and reference prefix at every schema position."""
from drivers import schema_versions
from vf.pcheck import run_p, targets_for

from .common import ASSUME_CHILDREN, TRUSTED, generic_replay

PROP = "C18"
try:
    LEVEL = "proof" if targets_for(PROP) else "exploration"
except Exception:
    LEVEL = "exploration"

TRUSTED_B = [
    "jsonschema 4.x Draft7Validator / Draft201909Validator / Draft202012Validator as the validation rules of the dialects (OpenAPI 3.1 = 2020-12)",
    "the mapping of OpenAPI 3.0 schema objects to JSON Schema in /verif/drivers/schema_common.py (nullable admits null, example is an annotation, $ref siblings ignored; array-form items and numeric exclusive bounds are read with their draft-07 meaning)",
    "the type / datum pools of /verif/drivers/pools.py, schema_agree.py and schema_versions.py",
]


def run(report, tier, seed):
    report.trusted = (list(TRUSTED) if LEVEL == "proof" else []) + TRUSTED_B
    if LEVEL == "proof":
        report.assumptions.append(ASSUME_CHILDREN)
    report.assumptions.append("keywords OpenAPI 3.0 cannot express and that are dropped explicitly: dependentRequired, unevaluatedProperties, additionalItems (apischema.json_schema.versions.OPEN_API_3_0_UNSUPPORTED); the reference for OpenAPI 3.0 is the 2020-12 schema without them")
    run_p(report, PROP, tier)
    schema_versions.run(report, tier, seed)


replay = generic_replay
