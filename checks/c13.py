"""C13 -- union dispatch shortcuts equal try-each-alternative semantics.

P: contracts tagged C13 (union / optional / discriminator nodes) when present.  B: run-time
contracts of apischema.deserialize / serialize on unions (drivers/union_dispatch.py): plain
unions of 2..4 alternatives with and without coercion against try-each-alternative, union
serialization by the first matching class, annotated and inherited discriminators (outcome,
serialization key, round trip), TaggedUnion (exactly one tag), both orders in one process."""
from drivers import union_dispatch
from vf.pcheck import run_p, targets_for

from .common import ASSUME_CHILDREN, TRUSTED, generic_replay

PROP = "C13"
try:
    LEVEL = "proof" if targets_for(PROP) else "exploration"
except Exception:
    LEVEL = "exploration"


def run(report, tier, seed):
    report.trusted = list(TRUSTED)
    report.assumptions.append(ASSUME_CHILDREN)
    run_p(report, PROP, tier)
    union_dispatch.run(report, tier, seed)


replay = generic_replay
