"""C19 -- GraphQL schema mirrors the data model and executes like (de)serialize.

P: contracts tagged C19 (resolver closure, nullability decisions) when present.  B: run-time
contracts of apischema.graphql.graphql_schema observed through graphql.validate_schema /
print_schema / graphql_sync (drivers/graphql_mirror.py): one-to-one mirror of types, fields,
arguments, nullability, IDs and defaults; execution of all-field queries against the expected
output and serialize(); arguments against deserialize() with a call counter; per configuration
of aliaser / enum_aliaser / id_types / id_encoding / error_handler."""
from drivers import graphql_mirror
from vf.pcheck import run_p, targets_for

from .common import ASSUME_CHILDREN, TRUSTED, generic_replay

PROP = "C19"
try:
    LEVEL = "proof" if targets_for(PROP) else "exploration"
except Exception:
    LEVEL = "exploration"


def run(report, tier, seed):
    report.trusted = list(TRUSTED) + ["graphql-core 3.2 (schema validation, variable coercion, execution) is an external dependency without contract"]
    report.assumptions.append(ASSUME_CHILDREN)
    run_p(report, PROP, tier)
    graphql_mirror.run(report, tier, seed)


replay = generic_replay
