"""C12 -- conversions compose: a converted type behaves as its source / target.

P: contracts tagged C12 (conversion nodes, default_serialization, _add_deserializer) when
present.  B: run-time contracts of apischema.deserialize / serialize / deserialization_schema /
serialization_schema over conversion graphs built from opaque classes (drivers/conversions.py):
commuting squares for every placement (registered / dynamic / annotated / field /
default_conversion) x context, the rules (registration order, catch_value_error, chains,
identity bypass, sub-conversions, LSP, generic, lazy / recursive, inheritance of serializers,
no inheritance of deserializers) and the schemas."""
from drivers import conversions
from vf.pcheck import run_p, targets_for

from .common import ASSUME_CHILDREN, TRUSTED, generic_replay

PROP = "C12"
try:
    LEVEL = "proof" if targets_for(PROP) else "exploration"
except Exception:
    LEVEL = "exploration"


def run(report, tier, seed):
    report.trusted = list(TRUSTED)
    report.assumptions.append(ASSUME_CHILDREN)
    run_p(report, PROP, tier)
    conversions.run(report, tier, seed)


replay = generic_replay
