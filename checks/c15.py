"""C15 -- field-set tracking reflects the input and drives exclude_unset.

P: contracts tagged C15 (the patched dunders, set_fields / unset_fields / replace) when they exist.
B: run-time contract of fields_set / serialize(exclude_unset=...) against a reference model of the
tracked set over class shapes x subsets of given arguments / keys x operation sequences."""
from drivers import fields_set_ops
from vf.pcheck import run_p, targets_for

from .common import ASSUME_CHILDREN, TRUSTED, generic_replay

PROP = "C15"
try:
    LEVEL = "proof" if targets_for(PROP) else "exploration"
except Exception:
    LEVEL = "exploration"


def run(report, tier, seed):
    report.trusted = list(TRUSTED)
    report.trusted.append("the reference model of the tracked set in /verif/drivers/fields_set_ops.py (written from the C15 statement and docs/de_serialization.md)")
    if run_p(report, PROP, tier):
        report.assumptions.append(ASSUME_CHILDREN)
    fields_set_ops.run(report, tier, seed)


replay = generic_replay
