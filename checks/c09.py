"""C09 -- cached methods never go stale across configuration histories.

B: histories of configuration operations interleaved with observations, every observation
compared with a pristine interpreter replaying only the configuration, and with the same
observation after apischema.cache.reset() (drivers/cache_hist.py).
P: the pyvc obligations of the contracts tagged C09, when there are some (run_p)."""
from drivers import cache_hist
from vf.pcheck import run_p

from .common import TRUSTED, generic_replay

LEVEL = "proof"  # the level actually reported follows run_p: "proof" only when obligations tagged with the property exist
PROP = "C09"


def run(report, tier, seed):
    report.trusted = list(TRUSTED) + ["os.fork of a process that imported apischema and never called it is a cold start"]
    res = run_p(report, PROP, tier)
    report.level = "proof" if res else "exploration"
    cache_hist.run(report, tier, seed)


def replay(rp):
    if "obligation" in rp and "function" in rp:
        return generic_replay(rp)
    return cache_hist.replay(rp)
