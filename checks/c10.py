"""C10 -- validators run exactly when their inputs are valid; all errors are merged.

P: contracts tagged C10 (gating segment of ObjectMethod.deserialize, validate) when they exist.
B: generated dataclasses with logging validators (drivers/validators_gating.py): the set and
order of the validators invoked, the merged errors and the construction count are compared with
the statement for every field-status x validator-outcome assignment."""
from drivers import validators_gating
from vf.pcheck import run_p, targets_for

from .common import TRUSTED, generic_replay

PROP = "C10"
try:
    LEVEL = "proof" if targets_for(PROP) else "exploration"
except Exception:
    LEVEL = "exploration"


def run(report, tier, seed):
    report.trusted = list(TRUSTED)
    run_p(report, PROP, tier)
    validators_gating.run(report, tier, seed)


def replay(rp):
    return generic_replay(rp) if "obligation" in rp else validators_gating.replay(rp)
