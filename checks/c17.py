"""C17 -- generated JSON Schemas are well-formed, closed and finite.

P: contracts tagged C17 (when present).  B: for type graphs with sharing, recursion, type_name
overrides, generics, NewTypes and conversions, every entry point / all_refs / version /
ref_factory / with_schema combination terminates, is valid against the meta-schema of the dialect
it declares, has every $ref resolving to exactly the definitions the statement's extraction rule
names, agrees with definitions_schema, and refuses name clashes."""
from drivers import schema_refs
from vf.pcheck import run_p, targets_for

from .common import ASSUME_CHILDREN, TRUSTED, generic_replay

PROP = "C17"
try:
    LEVEL = "proof" if targets_for(PROP) else "exploration"
except Exception:
    LEVEL = "exploration"

TRUSTED_B = ["jsonschema 4.x meta-schemas of draft-07 / 2019-09 / 2020-12 (check of well-formedness)", "the reference structures written next to the type graphs of /verif/drivers/schema_refs.py (computed from the descriptions for the pool types)", "the mapping of OpenAPI 3.0 schema objects to JSON Schema in /verif/drivers/schema_common.py"]


def run(report, tier, seed):
    report.trusted = (list(TRUSTED) if LEVEL == "proof" else []) + TRUSTED_B
    if LEVEL == "proof":
        report.assumptions.append(ASSUME_CHILDREN)
    report.assumptions.append("named types: classes (dataclass, NamedTuple, TypedDict, Enum), NewTypes and types given a name with type_name; the body of a named type counts once, the body of an anonymous type at each use; the default of all_refs is the documented one (False for the JSON Schema drafts, True for OpenAPI)")
    run_p(report, PROP, tier)
    schema_refs.run(report, tier, seed)


replay = generic_replay
