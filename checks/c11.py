"""C11 -- a field has one external name across every view.

P: contracts tagged C11 (alias extraction per view) when they exist.
B: generated object types x class aliaser x override x dynamic aliaser modes; the external name
of the statement (drivers.model.ext_name) is compared with the key consumed by deserialize, the
key produced by serialize, properties / required / dependentRequired of both schemas, error
locations (incl. validators) and the GraphQL names (drivers/external_names.py)."""
from drivers import external_names
from vf.pcheck import run_p, targets_for

from .common import TRUSTED, generic_replay

PROP = "C11"
try:
    LEVEL = "proof" if targets_for(PROP) else "exploration"
except Exception:
    LEVEL = "exploration"


def run(report, tier, seed):
    report.trusted = list(TRUSTED)
    run_p(report, PROP, tier)
    external_names.run(report, tier, seed)


def replay(rp):
    return generic_replay(rp) if "obligation" in rp else external_names.replay(rp)
