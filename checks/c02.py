"""C02 -- deserialization rejections report every violation once, at its location.

P: Layer-1 contracts of the deserialization nodes (accept-iff-conforms, typed image), for
arbitrary children and arbitrary data.  B: run-time contract of apischema.deserialize against
the reference semantics over the type pool (selection layer, typing dispatch)."""
from drivers import deser_e2e
from vf.pcheck import run_p

from drivers import validators_gating

from .common import ASSUME_CHILDREN, TRUSTED, generic_replay

LEVEL = "proof"
PROP = "C02"


def run(report, tier, seed):
    report.trusted = list(TRUSTED)
    report.assumptions.append(ASSUME_CHILDREN)
    run_p(report, PROP, tier)
    deser_e2e.run(report, tier, seed, ("errors",), "deserialize_vs_reference")
    # objects with validators (generated validator programs of the C10 driver), judged on this property's clauses only
    validators_gating.run(report, tier, seed, kinds=("errors-mismatch",), log_name="objects_with_validators")


replay = generic_replay
