"""C05 -- round trip: deserialize after serialize is the identity on values.

P: contracts tagged C05 (when present).  B: run-time contracts of apischema.serialize followed
by apischema.deserialize (and conversely) over the type pool, the reference images of accepted
data, aliasers, additional_properties, and the standard-library converted types
(drivers/roundtrip.py)."""
from drivers import roundtrip
from vf.pcheck import run_p, targets_for

from .common import ASSUME_CHILDREN, TRUSTED, generic_replay

PROP = "C05"
try:
    LEVEL = "proof" if targets_for(PROP) else "exploration"
except Exception:
    LEVEL = "exploration"

TRUSTED_B = [
    "the reference semantics of /verif/drivers/model.py (values are the reference images of accepted data; `d completed with defaults` is computed from the type description by drivers/roundtrip.py:Completer)",
    "the type / datum pools of /verif/drivers/pools.py, the extras of /verif/drivers/roundtrip.py and /verif/drivers/opt_common.py",
    "json.dumps / json.loads of CPython",
]


def run(report, tier, seed):
    report.trusted = (list(TRUSTED) if LEVEL == "proof" else []) + TRUSTED_B
    if LEVEL == "proof":
        report.assumptions.append(ASSUME_CHILDREN)
    report.assumptions.append("bijective fragment: no none_as_undefined / skip(serialization_*) / init=False fields; for abstract annotations (Sequence, Collection, Mapping, AbstractSet) the first round trip may change the container class to the one deserialization builds, the second must preserve it; set positions are compared without order / multiplicity; for non-canonical spellings of standard-library types only re-deserialization is required")
    run_p(report, PROP, tier)
    roundtrip.run(report, tier, seed)


replay = generic_replay
