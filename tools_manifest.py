#!/usr/bin/env python3
"""Regenerates MANIFEST.json from the per-property table below (kept next to the checks)."""
import json
import os

HERE = os.path.dirname(os.path.abspath(__file__))

TECH_P = "contract-based deductive verification: pyvc (own AST->SMT verifier, sidecar contracts on the real functions, z3/cvc5)"
CHECKS = {
    "C01": ("proof", "Layer-1 contracts of every deserialization node class (accepts-iff-conforms, typed image) discharged for arbitrary children and data; selection layer and typing dispatch covered by a bounded run-time contract of deserialize against the reference semantics", "4.1, 7 C01"),
    "C02": ("proof", "exact error value (messages in order, one child per rejected element under its key / index) in the raising branch of the node contracts, proved for all inputs; whole-type error listing checked by the bounded driver", "7 C02"),
    "C03": ("proof", "`raises only ValidationError` and frame (`modifies` nothing that existed at entry) obligations on every node function, for data an unconstrained value; crash-freedom of the compiled tree on non-JSON data, coercion and input purity additionally by the bounded driver", "7 C03"),
}


def main():
    path = os.path.join(HERE, "MANIFEST.json")
    with open(path) as f:
        m = json.load(f)
    m["engines"] = [
        {"name": "pyvc", "path": "pyvc/", "serves_properties": sorted(CHECKS), "kind_free_text": "deductive verifier for a Python subset written for this task: re-reads /repo/apischema at every run, symbolic execution per function against sidecar contracts (/verif/contracts), loop invariants, callee contracts at call sites, obligations discharged by z3 5.1 (cvc5 1.0.3 / z3 4.8.12 on the SMT-LIB dump)"},
        {"name": "drivers", "path": "drivers/", "serves_properties": sorted(CHECKS), "kind_free_text": "bounded stand-ins: run-time contracts on the real API over enumerated types / data / histories with oracles written from the property statements (labelled B/E in the evidence, never counted as proved)"},
    ]
    checks = []
    for pid in sorted(CHECKS):
        cat, text, ref = CHECKS[pid]
        checks.append(
            {
                "property_id": pid,
                "quick_cmd": f"./check {pid} --tier quick",
                "thorough_cmd": f"./check {pid} --tier thorough",
                "evidence_file": f"evidence/{pid}.json",
                "replay_cmd_template": f"./check {pid} --replay {{path}}",
                "engine": "pyvc" if cat == "proof" else "drivers",
                "level_claimed": {"category": cat, "text": text, "design_ref": "DESIGN.md section " + ref},
                "level_note": "trusted: pyvc's translation and operation models, the Python semantics assumed by the encoding (integers mathematical, == as identity of canonical values, unbounded stack), z3/cvc5, the specification functions, the induction over types (cases machine-checked, schema not mechanised), contracts marked `assumed` (bad_type, merge_errors) which are checked only at run time; bounded parts are labelled B in the evidence and not counted in `discharged`",
                "technique": TECH_P if cat == "proof" else "bounded run-time contract checking of the real functions (stand-in; no contract within reach of the verifier decides this property)",
            }
        )
    m["checks"] = checks
    claimed = set(CHECKS)
    na = [{"property_id": "C20", "reason": "quantifies over thread schedules; a contract relates pre/post state of one activation and no deductive verifier for concurrent Python exists here (DESIGN.md C20)"}]
    for l in open(os.path.join(HERE, "properties.jsonl")):
        pid = json.loads(l)["id"]
        if pid not in claimed and pid != "C20":
            na.append({"property_id": pid, "reason": "check under construction in this build phase (not claimed yet)"})
    m["not_applicable"] = na
    m["notes"] = "checks rebuild everything from /repo's working tree at each run; VERIF_REPO / VERIF_OUT redirect the self-test to scratch copies"
    with open(path, "w") as f:
        json.dump(m, f, indent=1)
    print("checks:", [c["property_id"] for c in checks])


if __name__ == "__main__":
    main()
